"""Demo of the three C01 defects of emg3d.solver (fails on the unfixed tree, passes when
docs/fix_C01_zero.diff, fix_C01_krylov.diff and fix_C01_negcode.diff are applied).

    /venv/bin/python /verif/docs/C01_demo.py [REPO]      (REPO defaults to /repo)

D1  zero source + caller-supplied non-zero efield: solve() reports exit 0 / CONVERGED,
    abs_error = residual of the supplied field, and the caller's field is left non-zero
    (the zero Field is bound to the local name only).  Also: fresh field, abs_error = 1.0.
D2  Krylov success (bicgstab + multigrid preconditioner): info['abs_error'] is whatever
    var.l2 held last (last callback or last preconditioner run), not the residual of the
    returned field.
D3  a negative scipy return code (breakdown) after a preconditioner run that left
    exit_message = 'CONVERGED' is reported as success.  Shown with a stub solver that
    produces an event sequence scipy may produce (one M.matvec, then `return x, -10`).
"""
import sys

sys.path.insert(0, sys.argv[1] if len(sys.argv) > 1 else '/repo')
import numpy as np                      # noqa: E402
import scipy.sparse.linalg as ssl       # noqa: E402
import emg3d                            # noqa: E402
import emg3d.solver as S                # noqa: E402

print('emg3d from', emg3d.__file__)
hx = np.array([1., 2., 1., 1.5])
grid = emg3d.TensorMesh([hx, hx, hx], (0, 0, 0))
model = emg3d.Model(grid, 1.0)
sfield = emg3d.get_source_field(grid, [2.3, 2.2, 2.6, 30, 20], 1.0)
failed = []


def check(name, ok, text):
    print(('ok   ' if ok else 'FAIL ') + name + ': ' + text)
    if not ok:
        failed.append(name)


# D1 ------------------------------------------------------------------------
zero = emg3d.Field(grid, frequency=1.0)
efield = emg3d.Field(grid, frequency=1.0)
efield.field[:] = 1 + 1j
info = emg3d.solve(model, zero, efield=efield, return_info=True, verb=-1)
check('D1 supplied field zeroed', info['exit'] == 0 and not np.any(efield.field),
      f"exit={info['exit']} {info['exit_message']!r} |efield|={np.linalg.norm(efield.field):.4g}")
check('D1 abs_error of zero field', info['abs_error'] == 0.0, f"abs_error={info['abs_error']!r}")
ef, info = emg3d.solve(model, zero, return_info=True, verb=-1)
check('D1 fresh field abs_error', info['abs_error'] == 0.0 and not np.any(ef.field),
      f"abs_error={info['abs_error']!r}")

# D2 ------------------------------------------------------------------------
vm = emg3d.models.VolumeModel(model, sfield)
for kw in (dict(sslsolver='bicgstab', cycle='F'), dict(sslsolver=True),
           dict(sslsolver='bicgstab', cycle='F', semicoarsening=False, linerelaxation=False)):
    ef, info = emg3d.solve(model, sfield, return_info=True, verb=-1, tol=1e-4, **kw)
    true = S.residual(vm, sfield, ef, True)
    check(f'D2 abs_error describes the returned field {kw}',
          info['exit'] == 0 and abs(info['abs_error'] - true) <= 1e-9 * true,
          f"abs_error={info['abs_error']:.6e} residual(returned)={true:.6e} ratio={info['abs_error'] / true:.3f}")

# D3 ------------------------------------------------------------------------
orig = ssl.bicgstab


def stub(A, b, x0=None, **kw):
    kw['M'].matvec(b * 1e-12)       # multigrid reaches tol*|b| at once -> 'CONVERGED'
    return x0.copy(), -10           # rho breakdown


ssl.bicgstab = stub
try:
    ef, info = emg3d.solve(model, sfield, sslsolver='bicgstab', cycle='F', return_info=True, verb=-1)
finally:
    ssl.bicgstab = orig
true = S.residual(vm, sfield, ef, True)
check('D3 breakdown code is a failure', info['exit'] == 1 and info['exit_message'] != 'CONVERGED',
      f"exit={info['exit']} {info['exit_message']!r} residual(returned)={true:.3e} tol*|s|={1e-6 * info['ref_error']:.3e}")

print('FAILED: ' + ', '.join(failed) if failed else 'all C01 demo checks passed')
sys.exit(1 if failed else 0)
