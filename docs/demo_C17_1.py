"""C17 defect 1: a Simulation whose misfit was computed does not round-trip.

  * .h5 / .npz : load works, but `.misfit` of the loaded simulation is a
                 `memoryview` (Simulation.misfit returns `self._misfit.data`,
                 and `_misfit` is an np.float64 / 0-d ndarray after loading);
  * .json      : `to_file` raises TypeError (DataArray is not JSON serializable).
Required: the loaded simulation returns the same misfit value in all formats.
Run: /venv/bin/python /verif/docs/demo_C17_1.py      (exit 1 = defect present)
"""
import contextlib, io, sys, tempfile, warnings
import numpy as np
import emg3d

warnings.simplefilter('ignore')
hx = np.ones(4)*2.
grid = emg3d.TensorMesh([hx, hx, hx], (0, 0, 0))
survey = emg3d.Survey(emg3d.TxElectricDipole((3, 3, 3, 0, 0), length=0.5),
                      emg3d.RxElectricPoint((5, 5, 5, 0, 0)), 1.0,
                      data=np.array([[[1e-10+1e-11j]]]), relative_error=0.05)
sim = emg3d.Simulation(survey, emg3d.Model(grid, 1.0), gridding='same', max_workers=1, verb=0,
                       solver_opts={'maxit': 1, 'sslsolver': False, 'semicoarsening': False,
                                    'linerelaxation': False}, tqdm_opts=False)
with contextlib.redirect_stdout(io.StringIO()):
    sim.compute()
m = float(sim.misfit)
print('original misfit', m, type(sim._misfit).__name__)
bad = 0
with tempfile.TemporaryDirectory() as tmp:
    for ext in ('h5', 'npz', 'json'):
        try:
            sim.to_file(f'{tmp}/s.{ext}', what='results', verb=0)
            s2 = emg3d.Simulation.from_file(f'{tmp}/s.{ext}', verb=0)
            r = s2.misfit
            ok = not isinstance(r, memoryview) and float(r) == m
            print(f'{ext:5s}: loaded .misfit = {r!r}  ->', 'ok' if ok else 'WRONG')
            bad += not ok
        except Exception as e:
            print(f'{ext:5s}: {type(e).__name__}: {e}')
            bad += 1
sys.exit(1 if bad else 0)
