"""C17 defect 2: a Survey without receivers (receivers=None is accepted by
Survey) does not round-trip through .npz and .json.

  * .npz  : the empty 'receivers' dict vanishes in _dict_flatten; Survey.from_dict
            raises KeyError, _dict_deserialize turns that into a warning and
            load returns a plain dict instead of a Survey;
  * .json : the (nsrc, 0, nfreq) data arrays come back with shape (nsrc, 0)
            (tolist() of an array without elements forgets trailing axes) and
            load raises ValueError from xarray.
  * .h5   : fine.
Run: /venv/bin/python /verif/docs/demo_C17_2.py      (exit 1 = defect present)
"""
import sys, tempfile, warnings
import emg3d

s = emg3d.Survey(emg3d.TxElectricDipole((0, 0, 0, 0, 0)), None, [1.0, 2.0])
print('original shape', s.shape)
bad = 0
with tempfile.TemporaryDirectory() as tmp:
    for ext in ('h5', 'npz', 'json'):
        try:
            s.to_file(f'{tmp}/s.{ext}', verb=0)
            with warnings.catch_warnings(record=True) as w:
                warnings.simplefilter('always')
                s2 = emg3d.Survey.from_file(f'{tmp}/s.{ext}', verb=0)
            ok = isinstance(s2, emg3d.Survey) and s2.shape == s.shape
            print(f'{ext:5s}: loaded {type(s2).__name__}', [str(x.message) for x in w][:1],
                  '->', 'ok' if ok else 'WRONG')
            bad += not ok
        except Exception as e:
            print(f'{ext:5s}: {type(e).__name__}: {e}')
            bad += 1
sys.exit(1 if bad else 0)
