"""C12 demo: history dependence of emg3d.Simulation (fails on the code as found).

    /venv/bin/python /verif/docs/C12_demo.py            # check group 1 (jtvec), against /repo
    /venv/bin/python /verif/docs/C12_demo.py 1 2 3      # all three defects
    VERIF_REPO=/tmp/wt_c12 /venv/bin/python /verif/docs/C12_demo.py 1 2 3

Exit 0 iff every selected check passes.  Check 1 is repaired by docs/fix_C12.diff, check 2
by docs/fix_C12_misfit.diff, check 3 by docs/fix_C12_keepresults.diff
(docs/fix_C12_all.diff = the three together).
"""
import os
import sys
import tempfile
import warnings

sys.path.insert(0, os.environ.get('VERIF_REPO', '/repo'))
import numpy as np   # noqa: E402
import emg3d         # noqa: E402

warnings.simplefilter('ignore')


def new_sim():
    hx = np.ones(4) * 50.0
    grid = emg3d.TensorMesh([hx, hx, hx], (-100, -100, -100))
    rng = np.random.RandomState(3)
    model = emg3d.Model(grid, 1.0 + rng.randint(1, 8, grid.shape_cells) / 4.0, mapping='Conductivity')
    survey = emg3d.Survey(
        {'Tx1': emg3d.TxElectricDipole((-30, 10, 5, 20, 10))},
        {'Rx1': emg3d.RxElectricPoint((30, 20, -10, 0, 0)),
         'Rx2': emg3d.RxElectricPoint((-20, -30, 20, 90, 0))},
        [1.0], data=np.array([[[2e-10 + 1e-10j], [1e-10 - 3e-10j]]]),
        noise_floor=1e-16, relative_error=0.05)
    return emg3d.Simulation(survey, model, max_workers=1, gridding='same',
                            receiver_interpolation='linear', verb=-1, tqdm_opts=False,
                            solver_opts=dict(tol=1e-8, maxit=60, verb=0, plain=True))


ok = True
GROUPS = [a for a in sys.argv[1:] if a in ('1', '2', '3')] or ['1']


def check(name, cond, detail=''):
    global ok
    print(('PASS  ' if cond else 'FAIL  ') + name + ('' if cond else '   <- ' + detail))
    ok = ok and cond


fresh = new_sim()
g_ref, m_ref = np.array(fresh.gradient), float(np.asarray(fresh.misfit))
r_ref = fresh.data.residual.data.copy()
w = np.ones(fresh.survey.shape) * (1 + 0.5j)

# 1. history [misfit, jtvec(w), gradient]
def group1():
    s = new_sim()
    _ = s.misfit
    jt = np.array(s.jtvec(w))
    g = s.gradient
    check("1a gradient after jtvec(w) equals the gradient of a fresh simulation",
          np.allclose(g, g_ref, rtol=1e-5, atol=0), "it is the cached J^T w" if np.allclose(g, jt) else "differs")
    check("1b data.residual after jtvec(w) is still synthetic - observed",
          np.allclose(s.data.residual.data, r_ref, rtol=1e-6, atol=0), "it was overwritten with w/weights")
    try:
        new_sim().jtvec(w)
        check("1c jtvec(w) works on a fresh simulation", True)
    except Exception as e:           # noqa: BLE001
        check("1c jtvec(w) works on a fresh simulation", False, f"{type(e).__name__}: {e}")


# 2. history [misfit, to_file, from_file, misfit]
def group2():
    s = new_sim()
    _ = s.misfit
    with tempfile.TemporaryDirectory() as d:
        s.to_file(os.path.join(d, 's.h5'), verb=0)
        t = emg3d.Simulation.from_file(os.path.join(d, 's.h5'), verb=0)
        m = t.misfit
        isnum = isinstance(m, (float, np.ndarray, np.generic))
        check("2a misfit of a reloaded simulation is a number equal to the fresh misfit",
              isnum and np.isclose(float(np.asarray(m)), m_ref, rtol=1e-6), f"got {type(m).__name__}")
        try:
            s.to_file(os.path.join(d, 's.json'), verb=0)
            check("2b to_file(json) works once the misfit is cached", True)
        except Exception as e:       # noqa: BLE001
            check("2b to_file(json) works once the misfit is cached", False, f"{type(e).__name__}: {e}")


# 3. history [misfit, clean('keepresults'), gradient]
def group3():
    s = new_sim()
    _ = s.misfit
    s.clean('keepresults')
    try:
        g = s.gradient
        check("3  gradient after clean('keepresults') equals the fresh gradient",
              np.allclose(g, g_ref, rtol=1e-5, atol=0))
    except Exception as e:           # noqa: BLE001
        check("3  gradient after clean('keepresults') equals the fresh gradient", False,
              f"{type(e).__name__}: {e}")

for _g in GROUPS:
    globals()['group' + _g]()
sys.exit(0 if ok else 1)
