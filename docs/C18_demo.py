"""C18 demo: three documented uses of the emg3d command line that fail although the
equivalent Python API calls succeed.  Run:  /venv/bin/python /verif/docs/C18_demo.py
(VERIF_REPO=/path/to/emg3d-tree selects the tree; default /repo).  Exit 1 if any fails.

 1. [gridding_opts] cell_number (documented in docs/manual/cli.rst) is handed to
    Simulation as gridding_opts['cell_number']; estimate_gridding_opts only knows
    `cell_numbers`  ->  TypeError "Unexpected gridding_opts: ['cell_number']".
 2. `--path DIR` together with `path = ...` in [files]: instead of the terminal value
    overriding the file, the parser raises "Unexpected parameter in [files]: ['path']".
 3. `--load SIM --clean --model NEW` with a configuration that has no [gridding_opts]
    option: KeyError 'gridding_opts' in cli/run.py.
"""
import contextlib
import io
import os
import shutil
import sys
import tempfile
import warnings

sys.path.insert(0, os.environ.get('VERIF_REPO', '/repo'))
import numpy as np          # noqa: E402
import emg3d                # noqa: E402
import emg3d.cli            # noqa: E402

MAIN = sys.modules['emg3d.cli.main']
d = tempfile.mkdtemp(prefix='c18demo_', dir='/tmp')
failed = 0


def cli(cfg_text, args):
    cfg = os.path.join(d, 'emg3d.cfg')
    with open(cfg, 'w') as f:
        f.write(cfg_text)
    argv = [cfg] + args
    old = sys.argv
    sys.argv = ['emg3d'] + argv          # as the console script sees it
    try:
        with warnings.catch_warnings(), contextlib.redirect_stderr(io.StringIO()):
            warnings.simplefilter('ignore')
            MAIN.main(argv)
        return None
    except BaseException as e:           # noqa: BLE001
        return f'{type(e).__name__}: {e}'
    finally:
        sys.argv = old


try:
    hx = np.ones(4) * 250.
    grid = emg3d.TensorMesh([hx, hx, hx], origin=(-500, -500, -500))
    model = emg3d.Model(grid, 1.0)
    survey = emg3d.Survey(
        sources=emg3d.TxElectricDipole((-100, 0, 0, 0, 0)),
        receivers=emg3d.surveys.txrx_coordinates_to_dict(
            emg3d.RxElectricPoint, ([100, 200], 0, 0, 0, 0)),
        frequencies=1.0, data=np.ones((1, 2, 1), dtype=complex),
        noise_floor=1e-15, relative_error=0.05)
    survey.to_file(os.path.join(d, 'survey.h5'), verb=0)
    emg3d.save(os.path.join(d, 'model.h5'), model=model, mesh=grid, verb=0)
    fast = '[simulation]\nmax_workers = 1\n[solver_opts]\nmaxit = 1\nplain = True\n'

    # ---- 1. documented key cell_number
    with warnings.catch_warnings():
        warnings.simplefilter('ignore')
        sim = emg3d.Simulation(survey.copy(), model, max_workers=1, verb=-1, tqdm_opts=False,
                               solver_opts={'maxit': 1, 'plain': True},
                               gridding_opts={'cell_numbers': [8, 16]})
        sim.compute(observed=True, add_noise=False)
    print('API  gridding_opts={"cell_numbers": [8, 16]}            : ok, grid',
          sim.get_grid('TxED-1', 'f-1').shape_cells)
    err = cli(fast + '[gridding_opts]\ncell_number = 8, 16\n[noise_opts]\nadd_noise = False\n',
              ['--path', d, '-f', '-q'])
    print('CLI  [gridding_opts] cell_number = 8, 16                 :', err or 'ok')
    failed += err is not None

    # ---- 2. --path overrides [files] path
    err = cli('[files]\npath = /some/other/dir\n' + fast, ['--path', d, '-f', '-q', '-d'])
    print('CLI  --path DIR with [files] path = /some/other/dir       :', err or 'ok')
    failed += err is not None

    # ---- 3. --load --clean without [gridding_opts]
    err0 = cli(fast, ['--path', d, '-f', '-q', '--save', 'sim.h5'])
    err = cli(fast, ['--path', d, '-m', '-q', '--load', 'sim.h5', '--clean', '--model', 'model.h5'])
    print('CLI  --load sim.h5 --clean (no [gridding_opts] in config) :', err or 'ok',
          '' if err0 is None else f'(saving the simulation failed: {err0})')
    failed += err is not None
finally:
    shutil.rmtree(d, ignore_errors=True)

print('FAILED' if failed else 'all three work', f'({failed} of 3 fail)')
sys.exit(1 if failed else 0)
