"""C13 demo: two defects in emg3d/surveys.py (run with /venv/bin/python, exits 1 while unrepaired).

  PYTHONPATH=/repo /venv/bin/python /verif/docs/C13_demo.py

1. Survey.add_noise() with an ARRAY-valued noise_floor and the default
   min_amplitude='half_nf' halves the stored noise floor in place on every call
   (`min_amplitude = self.noise_floor; min_amplitude /= 2.0`).
2. A one-element array (e.g. shape (1,1,1), the documented per-source shape of
   a survey with one source) is rejected by the noise_floor / relative_error
   setter with the installed numpy (`float(value)` on a 3-D array raises
   TypeError).
Repair: /verif/docs/fix_C13.diff
"""
import sys

import numpy as np

import emg3d

bad = 0
src = emg3d.TxElectricDipole((0, 0, 0, 0, 0))
rec = [emg3d.RxElectricPoint((1000 + 500 * j, 0, 0, 0, 0)) for j in range(3)]
data = np.array([[[1 + 1j], [4 + 0j], [3 + 4j]]])
nf = np.array([1.0, 2.0, 4.0])[None, :, None]            # per-receiver noise floor

s = emg3d.Survey(src, rec, [1.0], data=data.copy(), noise_floor=nf)
before = s.noise_floor.copy()
s.add_noise()
s.add_noise()
print("noise floor before      :", before.ravel())
print("after two add_noise()   :", s.noise_floor.ravel())
if not np.array_equal(before, s.noise_floor):
    print("DEFECT 1: add_noise changed the stored noise floor")
    bad = 1

# through a selection that shares its arrays with the parent
p = emg3d.Survey(src, rec, [1.0], data=data.copy(), noise_floor=nf)
c = p.select(remove_empty=False)
c.add_noise(add_to='noise')
print("parent after child.add_noise():", p.noise_floor.ravel())
if not np.array_equal(before, p.noise_floor):
    print("DEFECT 1b: add_noise on a selection changed the PARENT's noise floor")
    bad = 1

try:
    t = emg3d.Survey(src, rec[0], [1.0], data=data[:, :1, :].copy(),
                     noise_floor=np.array([[[0.5]]]))
    print("one-element array accepted, noise_floor =", t.noise_floor)
except TypeError as e:
    print("DEFECT 2: one-element array noise_floor rejected:", e)
    bad = 1

sys.exit(bad)
