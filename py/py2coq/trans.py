"""py2coq -- fail-closed translator from the first-order Python subset used by
emg3d's numba kernels to Gallina over an abstract number type (FOps).

Only the constructs listed in DESIGN.md section 3.4 are accepted; anything else
raises Untranslatable(file, line, construct).

Types:  'Z' integer, 'F' field scalar, 'B' bool, 'A1' Z->F, 'A3' Z->Z->Z->F,
        'T3' triple of A1 (restriction weights).

Every `for` loop body is emitted as its own Definition  <fn>_L<k>  taking the
variables in scope, the loop variable and the loop-carried state, so theorems
can be stated about straight-line bodies and lifted with Zfold_ind.
"""
import ast
import fractions
import textwrap


class Untranslatable(Exception):
    def __init__(self, file, line, construct):
        super().__init__(f"{file}:{line}: untranslatable construct: {construct}")
        self.file, self.line, self.construct = file, line, construct


ARR = ('A1', 'A3', 'T3')


class FnSig:
    """Signature of a translated function."""
    def __init__(self, name, params, types, extra, mutated, returns=None):
        self.name = name          # coq name
        self.params = params      # python parameter names
        self.types = types        # dict name -> type
        self.extra = extra        # list of extra Z params, e.g. 'len_bvec'
        self.mutated = mutated    # params (arrays) returned as a tuple
        self.returns = returns    # types of explicit return tuple, or None


class Ctx:
    def __init__(self, tr, fname, sig_types):
        self.tr = tr
        self.fname = fname
        self.env = {}         # var -> type (insertion ordered)
        self.lens = {}        # local array var -> coq Z expr for its length
        self.extra = []       # extra Z params discovered (len_x, x_n0)
        self.loops = []       # emitted loop-body definitions (text)
        self.nloop = 0
        self.aux_stack = []
        self.params = list(sig_types)
        for p, t in sig_types.items():
            self.env[p] = t


RESERVED = {'v_', 'left', 'right', 'at', 'in', 'fix', 'end', 'fun', 'forall',
            'exists', 'match', 'with', 'then', 'else', 'let', 'return', 'as',
            'Type', 'Prop', 'Set', 'pair', 'fst', 'snd', 'nil', 'cons', 'S', 'O',
            'tt', 'true', 'false', 'None', 'Some', 'inl', 'inr', 'st_', 'i_'}


class Mangle(ast.NodeTransformer):
    def visit_Name(self, node):
        if node.id in RESERVED:
            node.id = node.id + '_v'
        return node

    def visit_arg(self, node):
        if node.arg in RESERVED:
            node.arg = node.arg + '_v'
        return node


class Translator:
    def __init__(self, path, registry=None, prefix='', fold_aug=False):
        # fold_aug: emit `a[i] op= e` as `upd1f a i (fun v_ => v_ op e)` so that the
        # array variable occurs once per statement (keeps long update chains
        # linear under zeta/conversion)
        self.fold_aug = fold_aug
        self.path = path
        self.src = open(path).read()
        self.tree = Mangle().visit(ast.parse(self.src))
        self.registry = registry if registry is not None else {}
        self.prefix = prefix
        self.funcs = {n.name: n for n in self.tree.body
                      if isinstance(n, ast.FunctionDef)}

    # ----------------------------------------------------------------- utils
    def bad(self, node, what=None):
        raise Untranslatable(self.path, getattr(node, 'lineno', 0),
                             what or ast.dump(node)[:120])

    # ----------------------------------------------------------- expressions
    def lit(self, node, val, want):
        if isinstance(val, bool):
            return ('true' if val else 'false'), 'B'
        if isinstance(val, int) and want != 'F':
            return f"({val})%Z", 'Z'
        # field literal
        fr = fractions.Fraction(val).limit_denominator(10**6)
        if fractions.Fraction(val) != fr:
            self.bad(node, f"non-rational literal {val!r}")
        if fr == 0:
            return 'F0', 'F'
        if fr == 1:
            return 'F1', 'F'
        return f"(Flit ({fr.numerator}) {fr.denominator})", 'F'

    def is_intlit(self, node):
        if isinstance(node, ast.Constant) and isinstance(node.value, int) \
                and not isinstance(node.value, bool):
            return True
        if isinstance(node, ast.UnaryOp) and isinstance(node.op, ast.USub):
            return self.is_intlit(node.operand)
        return False

    def expr(self, c, node, want=None):
        """Return (coq_text, type)."""
        if isinstance(node, ast.Constant):
            if isinstance(node.value, (int, float, bool)):
                return self.lit(node, node.value, want)
            if isinstance(node.value, str) and len(node.value) == 1:
                return f"({ord(node.value)})%Z", 'Z'     # one-letter tags by code point
            if node.value is None:
                return "(0)%Z", 'Z'                       # None tag
            self.bad(node)
        if isinstance(node, ast.Name):
            if node.id not in c.env:
                self.bad(node, f"unbound name {node.id}")
            t = c.env[node.id]
            if t == 'Z' and want == 'F':
                return f"(FofZ {node.id})", 'F'
            return node.id, t
        if isinstance(node, ast.UnaryOp):
            if isinstance(node.op, ast.USub):
                s, t = self.expr(c, node.operand, want)
                if t == 'Z':
                    return f"(- {s})%Z", 'Z'
                if t == 'F':
                    return f"(- {s})%F", 'F'
                if t == 'A1':
                    return f"(fun i_ => (- ({s} i_))%F)", 'A1'
                self.bad(node)
            if isinstance(node.op, ast.Not):
                s = self.cond(c, node.operand)
                return f"(negb {s})", 'B'
            self.bad(node)
        if isinstance(node, ast.BinOp):
            return self.binop(c, node, want)
        if isinstance(node, ast.Compare):
            return self.compare(c, node), 'B'
        if isinstance(node, ast.BoolOp):
            parts = [self.cond(c, v) for v in node.values]
            op = ' && ' if isinstance(node.op, ast.And) else ' || '
            return '(' + op.join(parts) + ')%bool', 'B'
        if isinstance(node, ast.Subscript):
            return self.subscript(c, node, want)
        if isinstance(node, ast.Call):
            return self.call_expr(c, node, want)
        if isinstance(node, ast.IfExp):
            cnd = self.cond(c, node.test)
            a, ta = self.expr(c, node.body, want)
            b, tb = self.expr(c, node.orelse, want or ta)
            if ta != tb:
                a, ta = self.expr(c, node.body, tb)
            if ta != tb:
                self.bad(node, "if-expression branches of different type")
            return f"(if {cnd} then {a} else {b})", ta
        self.bad(node)

    def binop(self, c, node, want):
        opmap = {ast.Add: '+', ast.Sub: '-', ast.Mult: '*'}
        # power with literal exponent
        if isinstance(node.op, ast.Pow):
            if not (isinstance(node.right, ast.Constant)
                    and isinstance(node.right.value, int)
                    and 1 <= node.right.value <= 4):
                self.bad(node, "power with non-literal exponent")
            s, t = self.expr(c, node.left, want)
            sc = '%F' if t == 'F' else '%Z'
            return '(' + ' * '.join([s]*node.right.value) + ')' + sc, t
        if isinstance(node.op, ast.Div):
            a, ta = self.expr(c, node.left, 'F')
            b, tb = self.expr(c, node.right, 'F')
            return self.arith(node, '/', a, ta, b, tb)
        if isinstance(node.op, ast.FloorDiv):
            a, ta = self.expr(c, node.left)
            b, tb = self.expr(c, node.right)
            if ta == tb == 'Z':
                return f"({a} / {b})%Z", 'Z'
            self.bad(node)
        if isinstance(node.op, ast.Mod):
            a, ta = self.expr(c, node.left)
            b, tb = self.expr(c, node.right)
            if ta == tb == 'Z':
                return f"({a} mod {b})%Z", 'Z'
            self.bad(node)
        if type(node.op) not in opmap:
            self.bad(node)
        op = opmap[type(node.op)]
        # infer: evaluate non-literal side first to learn the type
        l_lit, r_lit = self.is_intlit(node.left), self.is_intlit(node.right)
        if l_lit and not r_lit:
            b, tb = self.expr(c, node.right, want)
            a, ta = self.expr(c, node.left, 'F' if tb in ('F', 'A1') else None)
        elif r_lit and not l_lit:
            a, ta = self.expr(c, node.left, want)
            b, tb = self.expr(c, node.right, 'F' if ta in ('F', 'A1') else None)
        else:
            a, ta = self.expr(c, node.left, want)
            b, tb = self.expr(c, node.right, want)
        if 'F' in (ta, tb) and 'Z' in (ta, tb):
            # promote the integer side
            if ta == 'Z':
                a, ta = self.expr(c, node.left, 'F')
            else:
                b, tb = self.expr(c, node.right, 'F')
        return self.arith(node, op, a, ta, b, tb)

    def arith(self, node, op, a, ta, b, tb):
        if ta == tb == 'Z':
            if op == '/':
                self.bad(node, "true division of integers")
            return f"({a} {op} {b})%Z", 'Z'
        if ta == tb == 'F':
            return f"({a} {op} {b})%F", 'F'
        if ta == 'F' and tb == 'A1':
            return f"(fun i_ => ({a} {op} {b} i_)%F)", 'A1'
        if ta == 'A1' and tb == 'F':
            return f"(fun i_ => ({a} i_ {op} {b})%F)", 'A1'
        if ta == tb == 'A1':
            return f"(fun i_ => ({a} i_ {op} {b} i_)%F)", 'A1'
        self.bad(node, f"arithmetic on {ta} {op} {tb}")

    def compare(self, c, node):
        if len(node.ops) != 1:
            self.bad(node, "chained comparison")
        op = node.ops[0]
        if isinstance(op, (ast.In, ast.NotIn)):
            a, ta = self.expr(c, node.left)
            lst = node.comparators[0]
            if ta != 'Z' or not isinstance(lst, (ast.List, ast.Tuple)) or not lst.elts:
                self.bad(node, "membership test needs an integer and a literal list")
            parts = []
            for e in lst.elts:
                b, tb = self.expr(c, e)
                if tb != 'Z':
                    self.bad(node, "membership list of non-integers")
                parts.append(f"({a} =? {b})%Z")
            r = '(' + ' || '.join(parts) + ')%bool'
            return r if isinstance(op, ast.In) else f"(negb {r})"
        a, ta = self.expr(c, node.left)
        b, tb = self.expr(c, node.comparators[0])
        if not (ta == tb == 'Z'):
            self.bad(node, f"comparison on {ta},{tb}")
        op = node.ops[0]
        if isinstance(op, ast.Eq):
            return f"({a} =? {b})%Z"
        if isinstance(op, ast.NotEq):
            return f"(negb ({a} =? {b})%Z)"
        if isinstance(op, ast.Lt):
            return f"({a} <? {b})%Z"
        if isinstance(op, ast.LtE):
            return f"({a} <=? {b})%Z"
        if isinstance(op, ast.Gt):
            return f"({b} <? {a})%Z"
        if isinstance(op, ast.GtE):
            return f"({b} <=? {a})%Z"
        self.bad(node)

    def cond(self, c, node):
        s, t = self.expr(c, node)
        if t == 'B':
            return s
        if t == 'Z':
            return f"(negb ({s} =? 0)%Z)"
        self.bad(node, "condition of non-boolean type")

    def index(self, c, node):
        s, t = self.expr(c, node)
        if t != 'Z':
            self.bad(node, "non-integer index")
        return s if s.isidentifier() or s.endswith('%Z') else f"({s})"

    def subscript(self, c, node, want=None):
        v = node.value
        # x.shape[k]
        if isinstance(v, ast.Attribute) and v.attr == 'shape' \
                and isinstance(v.value, ast.Name):
            k = node.slice
            if not (isinstance(k, ast.Constant) and k.value in (0, 1, 2)):
                self.bad(node)
            nm = f"{v.value.id}_n{k.value}"
            self.need_extra(c, nm)
            return nm, 'Z'
        # np.zeros(1, dtype=..)[0]
        if isinstance(v, ast.Call) and self.np_name(v.func) == 'zeros':
            return 'F0', 'F'
        if not isinstance(v, ast.Name) or v.id not in c.env:
            self.bad(node)
        t = c.env[v.id]
        if t == 'A1':
            if isinstance(node.slice, ast.Slice):
                sl = node.slice
                if sl.step is not None:
                    self.bad(node, "slice step")
                if sl.lower is None and self.neg_lit(sl.upper) == 1:
                    return v.id, 'A1'          # a[:-1] (same indices)
                if sl.upper is None and isinstance(sl.lower, ast.Constant) \
                        and sl.lower.value == 1:
                    return f"(fun i_ => {v.id} (i_ + 1)%Z)", 'A1'   # a[1:]
                self.bad(node, "unsupported slice")
            return f"({v.id} {self.aindex(c, v.id, node.slice)})", 'F'
        if t == 'A3':
            if not (isinstance(node.slice, ast.Tuple)
                    and len(node.slice.elts) == 3):
                self.bad(node, "3-D array needs three indices")
            idx = ' '.join(self.index(c, e) for e in node.slice.elts)
            return f"({v.id} {idx})", 'F'
        self.bad(node, f"subscript of {t}")

    def lenof(self, c, node):
        """Length (coq Z expr) of an array-valued expression, or None."""
        if isinstance(node, ast.Name) and c.env.get(node.id) == 'A1':
            if node.id in c.lens:
                return c.lens[node.id]
            if node.id in c.params:
                return self.alen(c, node.id)
            return None
        if isinstance(node, ast.Subscript) and isinstance(node.slice, ast.Slice):
            base = self.lenof(c, node.value)
            return None if base is None else f"({base} - 1)%Z"
        if isinstance(node, ast.BinOp):
            return self.lenof(c, node.left) or self.lenof(c, node.right)
        if isinstance(node, ast.UnaryOp):
            return self.lenof(c, node.operand)
        return None

    def neg_lit(self, node):
        """k if node is the literal -k (k >= 1), else None."""
        if isinstance(node, ast.UnaryOp) and isinstance(node.op, ast.USub) \
                and isinstance(node.operand, ast.Constant) \
                and isinstance(node.operand.value, int):
            return node.operand.value
        return None

    def alen(self, c, a):
        if a in c.lens:
            return c.lens[a]
        nm = f"len_{a}"
        self.need_extra(c, nm)
        return nm

    def aindex(self, c, a, node):
        """Index into 1-D array `a`; a literal negative index counts from
        the end (Python semantics)."""
        k = self.neg_lit(node)
        if k is not None:
            return f"({self.alen(c, a)} - {k})%Z"
        return self.index(c, node)

    def need_extra(self, c, nm):
        base = nm[4:] if nm.startswith('len_') else nm.rsplit('_n', 1)[0]
        if base not in c.params:
            raise Untranslatable(self.path, 0,
                                 f"length/shape of non-parameter {base}")
        if nm not in c.env:
            c.extra.append(nm)
            c.env[nm] = 'Z'

    def np_name(self, f):
        if isinstance(f, ast.Attribute) and isinstance(f.value, ast.Name) \
                and f.value.id == 'np':
            return f.attr
        return None

    def call_expr(self, c, node, want):
        f = node.func
        if isinstance(f, ast.Name):
            if f.id == 'len' and len(node.args) == 1 \
                    and isinstance(node.args[0], ast.Name):
                return self.alen(c, node.args[0].id), 'Z'
            if f.id in ('min', 'max') and len(node.args) >= 2:
                parts = [self.expr(c, a) for a in node.args]
                if any(t != 'Z' for _, t in parts):
                    self.bad(node, "min/max on non-integers")
                fn = 'Z.min' if f.id == 'min' else 'Z.max'
                s = parts[0][0]
                for p, _ in parts[1:]:
                    s = f"({fn} {s} {p})"
                return s, 'Z'
            if f.id == 'int' and len(node.args) == 1:
                return self.expr(c, node.args[0], 'Z')
        self.bad(node, "call in expression")

    # ------------------------------------------------------------ statements
    def assigned(self, stmts):
        """Names (re)bound by a statement list, in order of first binding."""
        out = []

        def add(n):
            if n not in out:
                out.append(n)

        def tgt(t):
            if isinstance(t, ast.Name):
                add(t.id)
            elif isinstance(t, ast.Subscript):
                if isinstance(t.value, ast.Name):
                    add(t.value.id)
                else:
                    self.bad(t)
            elif isinstance(t, ast.Tuple):
                for e in t.elts:
                    tgt(e)
            else:
                self.bad(t)

        for s in stmts:
            if isinstance(s, ast.Assign):
                for t in s.targets:
                    tgt(t)
            elif isinstance(s, ast.AugAssign):
                tgt(s.target)
            elif isinstance(s, ast.For):
                for n in self.assigned(s.body):
                    add(n)
                # the loop variable is local to the loop in the kernels
            elif isinstance(s, ast.If):
                for n in self.assigned(s.body) + self.assigned(s.orelse):
                    add(n)
            elif isinstance(s, ast.Expr) and isinstance(s.value, ast.Call):
                sig = self.callee(s.value)
                if sig is not None:
                    for p, a in zip(sig.params, s.value.args):
                        if p in sig.mutated:
                            if not isinstance(a, ast.Name):
                                self.bad(a, "mutated argument must be a name")
                            add(a.id)
            elif isinstance(s, (ast.Return, ast.Pass)):
                pass
            elif isinstance(s, ast.Expr) and isinstance(s.value, ast.Constant):
                pass
            else:
                self.bad(s)
        return out

    def callee(self, call):
        if isinstance(call.func, ast.Name) and call.func.id in self.registry:
            return self.registry[call.func.id]
        return None

    def tuple_pat(self, names):
        if len(names) == 1:
            return names[0], names[0]
        return "'(" + ', '.join(names) + ')', '(' + ', '.join(names) + ')'

    def unpack(self, names, text):
        """`let (names) := text in` using projections (no pattern matching:
        cheap to type-check, and reduces without destructing variables)."""
        n = len(names)
        if n == 1:
            return f"let {names[0]} := {text} in\n"
        out = f"let t_ := {text} in\n"
        for k, nm in enumerate(names):
            proj = 't_'
            # left-nested pairs: ((a, b), c)
            for _ in range(n - 1 - k if k > 0 else n - 1):
                proj = f"(fst {proj})"
            if k > 0:
                proj = f"(snd {proj})"
            out += f"let {nm} := {proj} in\n"
        return out

    def block(self, c, stmts, result, top=False):
        """Translate stmts followed by `result` (a coq expression string that
        may mention the variables).  With top=True (body of a for loop) every
        call to a translated function records the text translated so far, so
        that the arguments handed to the callee become a definition of their
        own (<fn>_L<k>_call<m>): theorems about "the system assembled for the
        solver" are stated on those."""
        out = ''
        n = len(stmts)
        for idx, s in enumerate(stmts):
            if isinstance(s, ast.Expr) and isinstance(s.value, ast.Constant):
                continue      # docstring
            if isinstance(s, ast.Pass):
                continue
            if isinstance(s, ast.Return):
                if idx != n - 1:
                    self.bad(s, "return not in tail position")
                return out + self.ret(c, s)
            if isinstance(s, ast.Assign):
                if len(s.targets) != 1:
                    self.bad(s, "chained assignment")
                out += self.assign(c, s.targets[0], s.value, s)
            elif isinstance(s, ast.AugAssign):
                out += self.augassign(c, s)
            elif isinstance(s, ast.If):
                out += self.ifstmt(c, s)
            elif isinstance(s, ast.For):
                out += self.forstmt(c, s)
            elif isinstance(s, ast.Expr) and isinstance(s.value, ast.Call):
                if top and c.aux_stack:
                    args = [a.id for a in s.value.args
                            if isinstance(a, ast.Name) and c.env.get(a.id) in ARR]
                    c.aux_stack[-1].append((out, args, [c.env[a] for a in args]))
                out += self.callstmt(c, s.value)
            else:
                self.bad(s)
        return out + result

    def ret(self, c, s):
        v = s.value
        elts = v.elts if isinstance(v, ast.Tuple) else [v]
        parts = [self.expr(c, e) for e in elts]
        c.ret_types = [t for _, t in parts]
        return '(' + ', '.join(p for p, _ in parts) + ')'

    def bind(self, c, name, text, typ):
        c.env[name] = typ
        return f"let {name} := {text} in\n"

    def alloc(self, c, node):
        """np.zeros / np.ones / np.empty / np.array -> (text, type, len)."""
        if not isinstance(node, ast.Call):
            return None
        nm = self.np_name(node.func)
        if nm in ('zeros', 'empty', 'ones'):
            n, t = self.expr(c, node.args[0])
            if t != 'Z':
                self.bad(node, "array shape must be one integer")
            fillv = 'F1' if nm == 'ones' else 'F0'
            return f"(fill1 {fillv})", 'A1', n
        if nm == 'array' and isinstance(node.args[0], ast.List):
            parts = [self.expr(c, e, 'F') for e in node.args[0].elts]
            if any(t != 'F' for _, t in parts):
                self.bad(node, "array literal of non-scalars")
            body = '; '.join(p for p, _ in parts)
            return f"(arr_of_list F0 [{body}])", 'A1', str(len(parts))
        return None

    def assign(self, c, target, value, s):
        if isinstance(target, ast.Name):
            al = self.alloc(c, value)
            if al:
                text, typ, ln = al
                c.lens[target.id] = ln
                return self.bind(c, target.id, text, typ)
            # np.array([...])/4.
            if isinstance(value, ast.BinOp) and self.alloc(c, value.left):
                text, typ, ln = self.alloc(c, value.left)
                b, tb = self.expr(c, value.right, 'F')
                if not isinstance(value.op, ast.Div) or tb != 'F':
                    self.bad(s)
                c.lens[target.id] = ln
                return self.bind(c, target.id,
                                 f"(fun i_ => ({text} i_ / {b})%F)", 'A1')
            want = c.env.get(target.id)
            text, typ = self.expr(c, value, want if want in ('F', 'Z') else None)
            if typ in ARR and isinstance(value, (ast.Name, ast.Subscript)):
                self.bad(s, "array alias / view bound to a name")
            if typ == 'A1':
                ln = self.lenof(c, value)
                if ln is not None:
                    c.lens[target.id] = ln
                else:
                    c.lens.pop(target.id, None)
            if want and want != typ:
                if want == 'F' and typ == 'Z':
                    text, typ = self.expr(c, value, 'F')
                else:
                    self.bad(s, f"type change of {target.id}: {want}->{typ}")
            return self.bind(c, target.id, text, typ)
        if isinstance(target, ast.Tuple):
            names = []
            for e in target.elts:
                if not isinstance(e, ast.Name):
                    self.bad(s, "tuple target must be names")
                names.append(e.id)
            if isinstance(value, ast.Tuple):
                if len(value.elts) != len(names):
                    self.bad(s)
                parts = [self.expr(c, e) for e in value.elts]
                out = ''
                # simultaneous: evaluate all first (they are pure), then bind
                tmp = [f"{n}_t_" for n in names]
                for t_, (p, _) in zip(tmp, parts):
                    out += f"let {t_} := {p} in\n"
                for n, t_, (_, ty) in zip(names, tmp, parts):
                    out += self.bind(c, n, t_, ty)
                return out
            if isinstance(value, ast.Name) and c.env.get(value.id) == 'T3' \
                    and len(names) == 3:
                for n in names:
                    c.env[n] = 'A1'
                return self.unpack(names, value.id)
            self.bad(s)
        if isinstance(target, ast.Subscript):
            return self.store(c, target, value, None, s)
        self.bad(s)

    def store(self, c, target, value, op, s):
        if not isinstance(target.value, ast.Name):
            self.bad(s)
        a = target.value.id
        t = c.env.get(a)
        if t == 'A1':
            if isinstance(target.slice, ast.Slice):
                sl = target.slice
                if sl.lower or sl.upper or sl.step or op:
                    self.bad(s, "only a[:] = c")
                v, tv = self.expr(c, value, 'F')
                if tv != 'F':
                    self.bad(s)
                return f"let {a} := (fill1 {v}) in\n"
            i = self.aindex(c, a, target.slice)
            v, tv = self.expr(c, value, 'F')
            if tv != 'F':
                self.bad(s, "store of non-scalar")
            if op and self.fold_aug:
                return f"let {a} := upd1f {a} {i} (fun v_ => (v_ {op} {v})%F) in\n"
            if op:
                v = f"(({a} {i}) {op} {v})%F"
            return f"let {a} := upd1 {a} {i} {v} in\n"
        if t == 'A3':
            if not (isinstance(target.slice, ast.Tuple)
                    and len(target.slice.elts) == 3):
                self.bad(s)
            idx = ' '.join(self.index(c, e) for e in target.slice.elts)
            v, tv = self.expr(c, value, 'F')
            if tv != 'F':
                self.bad(s, "store of non-scalar")
            if op and self.fold_aug:
                return f"let {a} := upd3f {a} {idx} (fun v_ => (v_ {op} {v})%F) in\n"
            if op:
                v = f"(({a} {idx}) {op} {v})%F"
            return f"let {a} := upd3 {a} {idx} {v} in\n"
        self.bad(s, f"store into {t}")

    def augassign(self, c, s):
        opmap = {ast.Add: '+', ast.Sub: '-', ast.Mult: '*', ast.Div: '/'}
        if type(s.op) not in opmap:
            self.bad(s)
        op = opmap[type(s.op)]
        if isinstance(s.target, ast.Subscript):
            return self.store(c, s.target, s.value, op, s)
        if isinstance(s.target, ast.Name):
            n = s.target.id
            t = c.env.get(n)
            if t not in ('F', 'Z'):
                self.bad(s)
            v, tv = self.expr(c, s.value, t)
            if tv != t:
                if t == 'Z' and tv == 'F':
                    self.bad(s, "integer variable becomes float")
                self.bad(s)
            if t == 'Z' and op == '/':
                self.bad(s, "true division of an integer variable")
            sc = '%F' if t == 'F' else '%Z'
            return f"let {n} := ({n} {op} {v}){sc} in\n"
        self.bad(s)

    def ifstmt(self, c, s):
        cnd = self.cond(c, s.test)
        names = self.assigned(s.body)
        for n in self.assigned(s.orelse):
            if n not in names:
                names.append(n)
        if not names:
            return ''
        env0, lens0 = dict(c.env), dict(c.lens)

        def branch(stmts):
            c.env, c.lens = dict(env0), dict(lens0)
            txt = self.block(c, stmts, '@RES@')
            return txt, dict(c.env)

        a, enva = branch(s.body)
        b, envb = branch(s.orelse)
        # names bound on one path only (and not before) are not visible after
        # the statement: any later use fails as an unbound name (fail closed).
        names = [n for n in names if n in enva and n in envb]
        if not names:
            return ''
        pat, tup = self.tuple_pat(names)
        a, b = a.replace('@RES@', tup), b.replace('@RES@', tup)
        c.env, c.lens = dict(env0), dict(lens0)
        for n in names:
            if enva[n] != envb[n]:
                self.bad(s, f"{n} has different types in the branches")
            c.env[n] = enva[n]
        return self.unpack(
            names,
            f"\n  if {cnd}\n  then ({textwrap.indent(a, '    ').strip()})\n"
            f"  else ({textwrap.indent(b, '    ').strip()})")

    def range_args(self, c, s):
        it = s.iter
        if not (isinstance(it, ast.Call) and isinstance(it.func, ast.Name)
                and it.func.id == 'range' and 1 <= len(it.args) <= 3):
            self.bad(s, "for loop not over range()")
        args = it.args
        step = 1
        if len(args) == 3:
            st = args[2]
            if isinstance(st, ast.UnaryOp) and isinstance(st.op, ast.USub) \
                    and isinstance(st.operand, ast.Constant) \
                    and st.operand.value == 1:
                step = -1
            elif isinstance(st, ast.Constant) and st.value == 1:
                step = 1
            else:
                self.bad(s, "range step must be +-1")
        if len(args) == 1:
            lo, hi = '0%Z', self.index(c, args[0])
        else:
            lo, hi = self.index(c, args[0]), self.index(c, args[1])
        return lo, hi, step

    def try_unroll(self, c, s):
        """`for k in range(<literal>)` with at most 8 iterations and a body of
        plain (augmented) assignments is unrolled at translation time, the
        loop variable replaced by its literal value (integer arithmetic on
        literals is folded).  Returns the text or None."""
        it = s.iter
        if not (isinstance(it, ast.Call) and isinstance(it.func, ast.Name) and it.func.id == 'range'
                and 1 <= len(it.args) <= 2 and all(isinstance(a, ast.Constant)
                                                   and isinstance(a.value, int) for a in it.args)):
            return None
        lo, hi = (0, it.args[0].value) if len(it.args) == 1 else (it.args[0].value, it.args[1].value)
        if not (0 <= hi - lo <= 8) or not isinstance(s.target, ast.Name):
            return None
        if not all(isinstance(b, (ast.Assign, ast.AugAssign)) for b in s.body):
            return None
        var = s.target.id

        class Sub(ast.NodeTransformer):
            def visit_Name(self, node):
                if node.id == var:
                    return ast.copy_location(ast.Constant(self.k), node)
                return node

            def visit_BinOp(self, node):
                node = self.generic_visit(node)
                l, r = node.left, node.right
                if isinstance(l, ast.Constant) and isinstance(r, ast.Constant) \
                        and isinstance(l.value, int) and isinstance(r.value, int) \
                        and not isinstance(l.value, bool) and not isinstance(r.value, bool):
                    if isinstance(node.op, ast.Add):
                        return ast.copy_location(ast.Constant(l.value + r.value), node)
                    if isinstance(node.op, ast.Sub):
                        return ast.copy_location(ast.Constant(l.value - r.value), node)
                    if isinstance(node.op, ast.Mult):
                        return ast.copy_location(ast.Constant(l.value * r.value), node)
                return node
        import copy as _copy
        stmts = []
        for k in range(lo, hi):
            sub = Sub()
            sub.k = k
            for b in s.body:
                nb = sub.visit(_copy.deepcopy(b))
                if any(isinstance(n, ast.Name) and n.id == var and isinstance(n.ctx, ast.Store)
                       for n in ast.walk(nb)):
                    return None
                stmts.append(ast.fix_missing_locations(nb))
        return self.block(c, stmts, '')

    def forstmt(self, c, s):
        if s.orelse:
            self.bad(s, "for-else")
        if not isinstance(s.target, ast.Name):
            self.bad(s, "loop target must be a name")
        un = self.try_unroll(c, s)
        if un is not None:
            return un
        lv = s.target.id if s.target.id != '_' else 'it_'
        lo, hi, step = self.range_args(c, s)
        assigned = self.assigned(s.body)
        state = [n for n in assigned if n in c.env]
        if lv in state:
            self.bad(s, "loop variable assigned in loop")
        if not state:
            self.bad(s, "loop without carried state")
        c.nloop += 1
        k = c.nloop
        dname = f"{self.prefix}{c.fname}_L{k}"
        env0, lens0 = dict(c.env), dict(c.lens)
        nextra0 = len(c.extra)
        c.env[lv] = 'Z'
        pat, tup = self.tuple_pat(state)
        c.aux_stack.append([])
        body = self.block(c, s.body, tup, top=True)
        aux = c.aux_stack.pop()
        # restore: loop-local names vanish, state keeps its types
        c.env, c.lens = env0, lens0
        for e in c.extra[nextra0:]:
            c.env[e] = 'Z'
        outer = [n for n in c.env if n not in state and n != lv]
        params = ' '.join(f"({n} : {self.coqty(c.env[n])})" for n in outer)
        stty = ' * '.join(self.coqty(c.env[n]) for n in state)
        bind = self.unpack(state, 'st_')
        for m, (prefix, anames, atypes) in enumerate(aux, 1):
            if not anames:
                continue
            aty = ' * '.join(self.coqty(t) for t in atypes)
            _, atup = self.tuple_pat(anames)
            c.loops.append(
                f"Definition {dname}_call{m} {params} ({lv} : Z) (st_ : {stty}) : {aty} :=\n"
                + textwrap.indent(bind + prefix + atup, '  ') + ".\n")
        c.loops.append(
            f"Definition {dname} {params} ({lv} : Z) (st_ : {stty}) : {stty} :=\n"
            + textwrap.indent(bind + body, '  ') + ".\n")
        fold = 'Zfold' if step == 1 else 'Zfold_down'
        call = f"{fold} {lo} {hi} (fun {lv} st_ => {dname} {' '.join(outer)} {lv} st_) {tup}"
        return self.unpack(state, call)

    def callstmt(self, c, call):
        sig = self.callee(call)
        if sig is None:
            self.bad(call, "call to an untranslated function")
        if call.keywords or len(call.args) != len(sig.params):
            self.bad(call)
        args = []
        outs = []
        for p, a in zip(sig.params, call.args):
            s_, t_ = self.expr(c, a, sig.types[p] if sig.types[p] in ('F', 'Z') else None)
            if t_ != sig.types[p]:
                self.bad(call, f"argument {p}: {t_} given, {sig.types[p]} wanted")
            args.append(s_ if s_.isidentifier() else f"({s_})")
            if p in sig.mutated:
                outs.append(a.id)
        extra = []
        for e in sig.extra:
            if e.startswith('len_'):
                p = e[4:]
                a = call.args[sig.params.index(p)]
                if a.id in c.lens:
                    extra.append(f"({c.lens[a.id]})")
                else:
                    nm = f"len_{a.id}"
                    self.need_extra(c, nm)
                    extra.append(nm)
            else:
                self.bad(call, f"cannot supply {e}")
        return self.unpack(outs, f"{sig.name} {' '.join(extra + args)}")

    def coqty(self, t):
        return {'Z': 'Z', 'F': 'F', 'B': 'bool', 'A1': '(Z -> F)',
                'A3': '(Z -> Z -> Z -> F)',
                'T3': '((Z -> F) * (Z -> F) * (Z -> F))'}[t]

    # -------------------------------------------------------------- function
    def function(self, name, types, coqname=None):
        """Translate function `name`; `types` maps each parameter to a type.
        Returns (coq_text, FnSig)."""
        if isinstance(name, ast.FunctionDef):
            fn, name = name, name.name
        else:
            if name not in self.funcs:
                raise Untranslatable(self.path, 0, f"function {name} not found")
            fn = self.funcs[name]
        a = fn.args
        if a.vararg or a.kwarg or a.kwonlyargs or a.defaults:
            self.bad(fn, "only plain positional parameters")
        params = [p.arg for p in a.args]
        if set(params) != set(types):
            self.bad(fn, f"signature mismatch: {params} vs {sorted(types)}")
        coqname = coqname or (self.prefix + name)
        c = Ctx(self, coqname[len(self.prefix):] if coqname.startswith(self.prefix) else coqname,
                {p: types[p] for p in params})
        c.fname = name
        # returned in PARAMETER order (call sites unpack in that order)
        _as = self.assigned(fn.body)
        mutated = [n for n in params if n in _as and types[n] in ARR]
        has_ret = isinstance(fn.body[-1], ast.Return)
        if has_ret:
            body = self.block(c, fn.body, '')
            rty = ' * '.join(self.coqty(t) for t in c.ret_types)
        else:
            if not mutated:
                self.bad(fn, "function neither returns nor mutates")
            _, tup = self.tuple_pat(mutated)
            body = self.block(c, fn.body, tup)
            rty = ' * '.join(self.coqty(types[m]) for m in mutated)
        extra = ' '.join(f"({e} : Z)" for e in c.extra)
        ps = ' '.join(f"({p} : {self.coqty(types[p])})" for p in params)
        text = ''.join(c.loops)
        text += (f"Definition {coqname} {extra} {ps} : {rty} :=\n"
                 + textwrap.indent(body, '  ') + ".\n")
        sig = FnSig(coqname, params, types, list(c.extra), mutated)
        self.registry[name] = sig
        return text, sig


HEADER = """(* GENERATED by /verif/py/py2coq from {src} -- do not edit.
   Regenerated on every check run; see DESIGN.md section 2.1 (G). *)
From Coq Require Import ZArith List Bool.
From V Require Import Base.Loops Base.Arr Base.FieldSig.
Import ListNotations.

Section Gen.
Context {{F : Type}} {{O : FOps F}}.

"""

FOOTER = "\nEnd Gen.\n"


def module_text(src, defs):
    return HEADER.format(src=src) + '\n'.join(defs) + FOOTER
