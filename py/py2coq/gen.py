"""Generation jobs: which source functions become which Gen/*.v file."""
import os
import sys

from .trans import Translator, Untranslatable, module_text

REPO = os.environ.get('VERIF_REPO', '/repo')
GEN_DIR = os.path.join(os.environ.get('VERIF_COQ') or
                       os.path.join(os.path.dirname(__file__), '..', '..', 'coq'), 'Gen')

A3x10 = ['eta_x', 'eta_y', 'eta_z', 'zeta']
KERN = {n: 'A3' for n in ['ex', 'ey', 'ez', 'sx', 'sy', 'sz'] + A3x10}
KERN.update({'hx': 'A1', 'hy': 'A1', 'hz': 'A1', 'nu': 'Z'})

JOBS = {
    # file -> (source, [(function, types)])
    'CoreAmat': ('emg3d/core.py', [
        ('amat_x', dict({n: 'A3' for n in ['rx', 'ry', 'rz', 'ex', 'ey', 'ez'] + A3x10},
                        hx='A1', hy='A1', hz='A1')),
    ]),
    'CoreBand': ('emg3d/core.py', [
        ('solve', {'amat': 'A1', 'bvec': 'A1'}),
        ('blocks_to_amat', {'amat': 'A1', 'bvec': 'A1', 'middle': 'A1',
                            'left_v': 'A1', 'rhs': 'A1', 'im': 'Z', 'nc': 'Z'}),
    ]),
    'CoreGS': ('emg3d/core.py', [
        ('gauss_seidel', KERN),
        ('gauss_seidel_x', KERN),
        ('gauss_seidel_y', KERN),
        ('gauss_seidel_z', KERN),
    ]),
    'CoreRestrict': ('emg3d/core.py', [
        ('restrict_weights', {n: 'A1' for n in ['nodes', 'cell_centers', 'h',
                                                'cnodes', 'ccell_centers', 'ch']}),
        ('restrict', dict({n: 'A3' for n in ['crx', 'cry', 'crz', 'rx', 'ry', 'rz']},
                          wx='T3', wy='T3', wz='T3', sc_dir='Z')),
    ]),
}


def register(jobs):
    """Property modules may bring their own generation jobs (GEN_JOBS)."""
    JOBS.update(jobs)


# jobs whose functions call functions translated by another job
DEPS = {'CoreGS': ['CoreBand']}
# jobs translated with folded augmented stores (upd1f/upd3f)
FOLD_AUG = {'CoreGS'}


def generate(job, repo=REPO, out_dir=GEN_DIR):
    """(Re)generate Gen/<job>.v.  Returns (path, changed).  Raises
    Untranslatable if the source left the accepted subset."""
    src, fns = JOBS[job]
    tr = Translator(os.path.join(repo, src), registry={}, fold_aug=(job in FOLD_AUG))
    imports = ''
    for dep in DEPS.get(job, []):
        dsrc, dfns = JOBS[dep]
        if dsrc != src:
            raise Untranslatable(src, 0, f"dependency {dep} comes from another file")
        for name, types in dfns:      # populates the registry (signatures)
            tr.function(name, types)
        imports += f"From V Require Import Gen.{dep}.\n"
    defs = []
    for name, types in fns:
        text, _ = tr.function(name, types)
        defs.append(text)
    text = module_text(src, defs)
    if imports:
        text = text.replace("Import ListNotations.\n", "Import ListNotations.\n" + imports, 1)
    path = os.path.join(out_dir, job + '.v')
    old = open(path).read() if os.path.exists(path) else None
    if old != text:
        os.makedirs(out_dir, exist_ok=True)
        with open(path, 'w') as f:
            f.write(text)
    return path, old != text


if __name__ == '__main__':
    for j in (sys.argv[1:] or JOBS):
        try:
            print(j, generate(j))
        except Untranslatable as e:
            print(j, 'UNTRANSLATABLE', e)
