"""Regenerate coq/Gen/SolveCtl.v from the CURRENT emg3d/solver.py (property C01).

Extracted with `ast`, fail closed (anything that does not have the expected
shape raises Untranslatable, which the check reports as a broken tie):

  * `_terminate`: the four-way decision chain as a Gallina function over an
    abstract ordered number type (comparisons are the Section parameters
    `ltb`, `leb`; `np.isfinite` is `isfinite`; products are `mul`; integer
    literals in numeric context are `nofZ n`), and the raise condition;
  * `solve`: the exit-status expression, the already-good-enough test and its
    message, the zero-source test / message / what the branch does with the
    local name `efield` (rebinding to a new Field vs. zeroing in place) and
    with `var.l2`; the dispatch krylov/multigrid; the info_dict entries; the
    return chain; the dtype / frequency / PEC statements of the supplied-field
    branch (their presence, as booleans);
  * `krylov`: the exception handler (`i = -1`, message suffix), the exit-code
    mapping (i < 0 / i > 0 / else), whether `var.l2` is recomputed from the
    returned field after the scipy call, the callback bookkeeping (presence);
  * `multigrid`: textual anchors of the outer loop the hand model relies on.
"""
import ast
import os

from .trans import Untranslatable
from . import gen as G

NUM_NAMES = {'l2_last', 'l2_stag', 'var_tol', 'var_l2_refe', 'var_l2'}
Z_NAMES = {'it', 'i', 'var_maxit'}
BOOL_NAMES = {'var_sslsolver', 'finished', 'sslabort', 'var_cycle'}
STR_NAMES = {'var_exit_message'}


class Ex:
    """Typed expression translator (num / Z / bool / str), fail closed."""

    def __init__(self, path, funcs=None):
        self.path = path
        self.funcs = funcs or {}

    def inline(self, node):
        """Inline a call of a module-level pure helper `def f(a, b, ...): return <expr>` (a refactoring
        such as `_converged(l2, l2_refe, tol)`).  Every parameter must be passed EXPLICITLY: a parameter
        left to its default (e.g. a tolerance defaulting to 1e-6 instead of var.tol) fails closed."""
        fn = self.funcs[node.func.id]
        body = [st for st in fn.body
                if not (isinstance(st, ast.Expr) and isinstance(st.value, ast.Constant))]
        if len(body) != 1 or not isinstance(body[0], ast.Return) or body[0].value is None \
                or fn.args.vararg or fn.args.kwarg or fn.args.kwonlyargs:
            self.bad(node, f"helper {fn.name}() is not a single `return <expression>`")
        params = [a.arg for a in fn.args.args]
        bound = {}
        if len(node.args) > len(params) or any(isinstance(a, ast.Starred) for a in node.args):
            self.bad(node, f"call of helper {fn.name}(): arguments")
        for name, arg in zip(params, node.args):
            bound[name] = arg
        for kw in node.keywords:
            if kw.arg is None or kw.arg not in params or kw.arg in bound:
                self.bad(node, f"call of helper {fn.name}(): keyword {kw.arg}")
            bound[kw.arg] = kw.value
        missing = [q for q in params if q not in bound]
        if missing:
            self.bad(node, f"call {ast.unparse(node)} leaves parameter(s) {missing} of helper {fn.name}() to their "
                           f"defaults -- the decision no longer uses the caller's value (e.g. var.tol)")

        class Sub(ast.NodeTransformer):
            def visit_Name(self, n):
                return bound[n.id] if n.id in bound else n
        import copy
        return Sub().visit(copy.deepcopy(body[0].value))

    def bad(self, node, what):
        raise Untranslatable(self.path, getattr(node, 'lineno', 0), what)

    def name(self, node):
        if isinstance(node, ast.Name):
            return node.id
        if isinstance(node, ast.Attribute) and isinstance(node.value, ast.Name) \
                and node.value.id == 'var':
            return 'var_' + node.attr
        return None

    def expr(self, node):
        """-> (text, type) ; type in num, Z, bool, str, int (literal)"""
        nm = self.name(node)
        if nm is not None:
            if nm in NUM_NAMES:
                return nm, 'num'
            if nm in Z_NAMES:
                return nm, 'Z'
            if nm in BOOL_NAMES:
                return nm, 'bool'
            if nm in STR_NAMES:
                return nm, 'str'
            self.bad(node, f"unexpected name {nm}")
        if isinstance(node, ast.Constant):
            v = node.value
            if isinstance(v, bool):
                return ('true' if v else 'false'), 'bool'
            if isinstance(v, int):
                return str(v), 'int'
            if isinstance(v, str):
                return coq_string(v), 'str'
            self.bad(node, f"unexpected constant {v!r}")
        if isinstance(node, ast.UnaryOp) and isinstance(node.op, ast.Not):
            return f"(negb {self.as_bool(node.operand)})", 'bool'
        if isinstance(node, ast.UnaryOp) and isinstance(node.op, ast.USub) \
                and isinstance(node.operand, ast.Constant) and isinstance(node.operand.value, int):
            return str(-node.operand.value), 'int'
        if isinstance(node, ast.BoolOp):
            op = 'andb' if isinstance(node.op, ast.And) else 'orb'
            parts = [self.as_bool(v) for v in node.values]
            t = parts[0]
            for p in parts[1:]:
                t = f"({op} {t} {p})"
            return t, 'bool'
        if isinstance(node, ast.BinOp) and isinstance(node.op, ast.Mult):
            a, ta = self.expr(node.left)
            b, tb = self.expr(node.right)
            if 'num' in (ta, tb):
                return f"(mul {self.to_num(a, ta, node)} {self.to_num(b, tb, node)})", 'num'
            self.bad(node, "product outside the numeric type")
        if isinstance(node, ast.Call) and isinstance(node.func, ast.Name) and node.func.id in self.funcs:
            return self.expr(self.inline(node))
        if isinstance(node, ast.Call) and ast.unparse(node.func) == 'np.isfinite' \
                and len(node.args) == 1 and not node.keywords:
            a, ta = self.expr(node.args[0])
            return f"(isfinite {self.to_num(a, ta, node)})", 'bool'
        if isinstance(node, ast.Compare) and len(node.ops) == 1:
            a, ta = self.expr(node.left)
            b, tb = self.expr(node.comparators[0])
            op = node.ops[0]
            if 'num' in (ta, tb):
                a, b = self.to_num(a, ta, node), self.to_num(b, tb, node)
                if isinstance(op, ast.Lt):
                    return f"(ltb {a} {b})", 'bool'
                if isinstance(op, ast.Gt):
                    return f"(ltb {b} {a})", 'bool'
                if isinstance(op, ast.LtE):
                    return f"(leb {a} {b})", 'bool'
                if isinstance(op, ast.GtE):
                    return f"(leb {b} {a})", 'bool'
                self.bad(node, "float comparison other than < > <= >=")
            if ta in ('Z', 'int') and tb in ('Z', 'int'):
                a, b = self.to_z(a), self.to_z(b)
                tab = {ast.Lt: f"(Z.ltb {a} {b})", ast.Gt: f"(Z.ltb {b} {a})",
                       ast.LtE: f"(Z.leb {a} {b})", ast.GtE: f"(Z.leb {b} {a})",
                       ast.Eq: f"(Z.eqb {a} {b})", ast.NotEq: f"(negb (Z.eqb {a} {b}))"}
                if type(op) in tab:
                    return tab[type(op)], 'bool'
                self.bad(node, "integer comparison not supported")
            if ta == 'str' and tb == 'str':
                if isinstance(op, ast.Eq):
                    return f"(String.eqb {a} {b})", 'bool'
                if isinstance(op, ast.NotEq):
                    return f"(negb (String.eqb {a} {b}))", 'bool'
            self.bad(node, f"comparison of {ta} with {tb}")
        if isinstance(node, ast.JoinedStr):
            parts = []
            for v in node.values:
                if isinstance(v, ast.Constant):
                    parts.append(coq_string(v.value))
                elif isinstance(v, ast.FormattedValue) and v.format_spec is None and v.conversion == -1:
                    src = ast.unparse(v.value)
                    if src == 'var.sslsolver':
                        parts.append('ssl_name')
                    elif src == 'i':
                        parts.append('(zstr i)')
                    else:
                        self.bad(node, f"unexpected f-string field {src}")
                else:
                    self.bad(node, "unexpected f-string part")
            t = parts[-1]
            for p in reversed(parts[:-1]):
                t = f"({p} ++ {t})"
            return t, 'str'
        self.bad(node, f"unsupported expression {ast.unparse(node)}")

    def to_num(self, text, ty, node):
        if ty == 'num':
            return text
        if ty == 'int':
            return f"(nofZ ({text}))"
        self.bad(node, f"{ty} used as a float")

    @staticmethod
    def to_z(text):
        return f"({text})" if text.startswith('-') else text

    def as_bool(self, node):
        t, ty = self.expr(node)
        if ty != 'bool':
            self.bad(node, f"{ty} used as a condition")
        return t


def coq_string(s):
    if any(ord(ch) > 126 or ord(ch) < 32 for ch in s):
        raise ValueError('non-ASCII in message string')
    return '"' + s.replace('"', '""') + '"'


class Block:
    """Translate a list of simple statements over the state variables `state`
    into a Gallina expression returning the tuple of the state."""

    def __init__(self, ex, state, ignore_targets=(), ignore_calls=()):
        self.ex, self.state = ex, list(state)
        self.ignore_targets = set(ignore_targets)
        self.ignore_calls = tuple(ignore_calls)

    def tup(self):
        return '(' + ', '.join(self.state) + ')'

    def proj(self, i, v='st_'):
        n = len(self.state)
        t = v
        # nested pairs associate to the left: ((a, b), c)
        for _ in range(n - 1 - i):
            t = f"(fst {t})"
        return t if i == 0 else f"(snd {t})"

    def unpack(self):
        return ''.join(f"let {s} := {self.proj(i)} in " for i, s in enumerate(self.state))

    def stmts(self, body):
        if not body:
            return self.tup()
        s, rest = body[0], body[1:]
        if isinstance(s, ast.Expr) and isinstance(s.value, ast.Constant) and isinstance(s.value.value, str):
            return self.stmts(rest)        # docstring / comment string
        if isinstance(s, ast.Expr) and isinstance(s.value, ast.Call) \
                and ast.unparse(s.value.func) in self.ignore_calls:
            return self.stmts(rest)
        if isinstance(s, ast.Assign) and len(s.targets) == 1:
            nm = self.ex.name(s.targets[0])
            if nm in self.ignore_targets:
                return self.stmts(rest)
            if nm in self.state:
                val, ty = self.ex.expr(s.value)
                want = 'str' if nm in STR_NAMES else 'bool'
                if ty != want:
                    self.ex.bad(s, f"{nm} assigned a {ty}")
                return f"let {nm} := {val} in {self.stmts(rest)}"
            self.ex.bad(s, f"assignment to {ast.unparse(s.targets[0])}")
        if isinstance(s, ast.AugAssign) and self.ex.name(s.target) in self.ignore_targets:
            return self.stmts(rest)
        if isinstance(s, ast.If):
            test = self.ex.as_bool(s.test)
            return (f"let st_ := (if {test} then {self.stmts(s.body)} else {self.stmts(s.orelse)}) in "
                    f"{self.unpack()}{self.stmts(rest)}")
        self.ex.bad(s, f"unsupported statement {ast.unparse(s)[:60]}")


def _norm(s):
    return ''.join(s.split())


def generate(repo=None, out_dir=None):
    repo = repo or G.REPO
    out_dir = out_dir or G.GEN_DIR
    path = os.path.join(repo, 'emg3d/solver.py')
    src = open(path).read()
    tree = ast.parse(src)
    funcs = {n.name: n for n in tree.body if isinstance(n, ast.FunctionDef)}
    ex = Ex(path, funcs)

    def bad(node, what):
        raise Untranslatable(path, getattr(node, 'lineno', 0), what)

    def need(cond, node, what):
        if not cond:
            bad(node, what)

    out = []

    # ---------------------------------------------------------- _terminate
    fn = funcs.get('_terminate') or bad(tree, "_terminate missing")
    need([a.arg for a in fn.args.args] == ['var', 'l2_last', 'l2_stag', 'it'], fn,
         "_terminate: parameters changed")
    body = [s for s in fn.body
            if not (isinstance(s, ast.Expr) and isinstance(s.value, ast.Constant))]
    need(len(body) == 5, fn, "_terminate: expected init x2, decision chain, `if finished`, return")
    need(ast.unparse(body[0]) == 'finished = False' and ast.unparse(body[1]) == 'sslabort = False',
         body[0], "_terminate: initialisation changed")
    need(isinstance(body[2], ast.If), body[2], "_terminate: decision chain missing")
    need(ast.unparse(body[4]) == 'return finished', body[4], "_terminate: must return `finished`")
    blk = Block(ex, ['var_exit_message', 'finished', 'sslabort'])
    chain = blk.stmts(body[:3])
    fin = body[3]
    need(isinstance(fin, ast.If) and ast.unparse(fin.test) == 'finished' and not fin.orelse
         and len(fin.body) == 1 and isinstance(fin.body[0], ast.If), fin,
         "_terminate: `if finished:` block changed shape")
    inner = fin.body[0]
    need(len(inner.body) == 1 and isinstance(inner.body[0], ast.Raise)
         and ast.unparse(inner.body[0].exc) == '_ConvergenceError', inner,
         "_terminate: abort must be `raise _ConvergenceError`")
    raise_test = ex.as_bool(inner.test)
    # the elif part may only print
    for s in ast.walk(ast.Module(body=inner.orelse, type_ignores=[])):
        if isinstance(s, (ast.Raise, ast.Return, ast.Break)):
            bad(s, "_terminate: control flow in the print branch")
        if isinstance(s, (ast.Assign, ast.AugAssign)):
            tg = s.targets[0] if isinstance(s, ast.Assign) else s.target
            need(ast.unparse(tg) == 'add', s, "_terminate: print branch assigns state")
    out.append(
        "  (* _terminate (solver.py line %d): decision chain.  Returns (exit_message, finished, sslabort). *)\n"
        "  Definition terminate_chain (var_sslsolver : bool) (var_tol var_l2_refe : num) (var_maxit : Z)\n"
        "      (l2_last l2_stag : num) (it : Z) (var_exit_message : string) : string * bool * bool :=\n"
        "    %s.\n"
        "  Definition terminate_raises (var_sslsolver finished sslabort : bool) : bool :=\n"
        "    andb finished %s.\n" % (fn.lineno, chain, raise_test))

    # ---------------------------------------------------------------- solve
    fn = funcs.get('solve') or bad(tree, "solve missing")
    top = fn.body
    usrc = {_norm(ast.unparse(s)): s for s in top}

    def find_top(pred, what):
        for s in top:
            if pred(s):
                return s
        bad(fn, f"solve(): {what} not found")

    need(_norm('var.l2_refe = sp.linalg.norm(sfield.field, check_finite=False)') in usrc, fn,
         "solve(): reference norm no longer norm(sfield.field)")
    need(_norm('var.error_at_cycle[0] = var.l2_refe') in usrc, fn, "solve(): error_at_cycle[0]")
    freq = find_top(lambda s: isinstance(s, ast.If) and _norm(ast.unparse(s.test)) == 'sfield.frequencyisNone',
                    "frequency check")
    need(len(freq.body) == 1 and isinstance(freq.body[0], ast.Raise)
         and ast.unparse(freq.body[0].exc.func) == 'ValueError', freq, "solve(): frequency check must raise ValueError")
    need(_norm("efield = kwargs.pop('efield', None)") in usrc, fn, "solve(): efield kwarg")
    # the operator of every residual in solve()/multigrid()/krylov() is the VolumeModel built AFRESH from
    # the model passed to this call (a cached / shared construction may describe another model)
    need(_norm('vmodel = models.VolumeModel(model, sfield)') in usrc, fn,
         "solve(): the volume-averaged model is no longer constructed afresh as models.VolumeModel(model, sfield)")
    for n in ast.walk(fn):
        if isinstance(n, ast.Assign) and any(ast.unparse(t) == 'vmodel' for t in n.targets) \
                and _norm(ast.unparse(n)) != _norm('vmodel = models.VolumeModel(model, sfield)'):
            bad(n, "solve(): vmodel re-assigned")
    need(_norm("always_return = kwargs.pop('always_return', False)") in usrc, fn, "solve(): always_return kwarg")

    get = find_top(lambda s: isinstance(s, ast.If) and _norm(ast.unparse(s.test)) == 'efieldisNone',
                   "`if efield is None`")
    fresh = [_norm(ast.unparse(s)) for s in get.body]
    NEWFIELD = _norm('efield = fields.Field(model.grid, dtype=sfield.field.dtype, frequency=sfield._frequency)')
    need(fresh == [NEWFIELD, _norm('var.do_return = True')], get,
         "solve(): fresh-field branch changed (field of the source's dtype, do_return=True)")
    sup = get.orelse
    sup_txt = [_norm(ast.unparse(s)) for s in sup]
    # dtype check
    dt = [s for s in sup if isinstance(s, ast.If)
          and _norm(ast.unparse(s.test)) == 'sfield.field.dtype!=efield.field.dtype']
    need(len(dt) == 1 and isinstance(dt[0].body[0], ast.Raise)
         and ast.unparse(dt[0].body[0].exc.func) == 'ValueError' and sup.index(dt[0]) == 0, get,
         "solve(): dtype check of a supplied field (ValueError, first statement) changed")
    pec_want = [
        'efield.fx[:, 0, :] = efield.fx[:, -1, :] = 0.0', 'efield.fx[:, :, 0] = efield.fx[:, :, -1] = 0.0',
        'efield.fy[0, :, :] = efield.fy[-1, :, :] = 0.0', 'efield.fy[:, :, 0] = efield.fy[:, :, -1] = 0.0',
        'efield.fz[0, :, :] = efield.fz[-1, :, :] = 0.0', 'efield.fz[:, 0, :] = efield.fz[:, -1, :] = 0.0']
    pec_ok = all(_norm(p) in sup_txt for p in pec_want)
    need(_norm('var.do_return = always_return') in sup_txt, get, "solve(): do_return of a supplied field")
    i_l2 = sup_txt.index(_norm('var.l2 = residual(vmodel, sfield, efield, True)')) \
        if _norm('var.l2 = residual(vmodel, sfield, efield, True)') in sup_txt else -1
    need(i_l2 >= 0, get, "solve(): residual of the supplied field no longer stored in var.l2")
    if pec_ok:
        need(all(sup_txt.index(_norm(p)) < i_l2 for p in pec_want), get,
             "solve(): PEC zeroing must precede the residual of the supplied field")
    else:
        # ordering anchor: PEC statements that still exist somewhere in the supplied-field branch but
        # not as unconditional statements before the already-good-enough test (e.g. moved into an
        # else branch) change which field the early exit certifies -> fail closed
        nested = {_norm(ast.unparse(n)) for st in sup for n in ast.walk(st) if isinstance(n, ast.Assign)}
        moved = [p for p in pec_want if _norm(p) in nested and _norm(p) not in sup_txt]
        need(not moved, get, "solve(): PEC zeroing of a supplied field no longer precedes, unconditionally, "
                             "the residual / already-good-enough test: " + moved[0] if moved else '')
    ge = sup[i_l2 + 1] if i_l2 + 1 < len(sup) else None
    need(isinstance(ge, ast.If) and not ge.orelse and i_l2 + 2 == len(sup), get,
         "solve(): already-good-enough test must directly follow the residual")
    ge_test = ex.as_bool(ge.test)
    ge_body = {}
    for s in ge.body:
        need(isinstance(s, ast.Assign) and len(s.targets) == 1, s, "already-good-enough branch: statement")
        ge_body[ast.unparse(s.targets[0])] = s.value
    need(set(ge_body) == {'var.sslsolver', 'var.cycle', 'var.exit_message', 'info'}, ge,
         "already-good-enough branch: assignments changed")
    need(ast.unparse(ge_body['var.sslsolver']) == 'None' and ast.unparse(ge_body['var.cycle']) == 'None', ge,
         "already-good-enough branch must switch off sslsolver and cycle")
    ge_msg, ty = ex.expr(ge_body['var.exit_message'])
    need(ty == 'str', ge, "already-good-enough message")

    zs = find_top(lambda s: isinstance(s, ast.If) and 'var.l2_refe' in ast.unparse(s.test)
                  and 'tiny' in ast.unparse(s.test), "zero-source test")
    need(top.index(zs) == top.index(get) + 1, zs, "solve(): zero-source test must follow the efield block")
    zt = zs.test
    need(isinstance(zt, ast.Compare) and len(zt.ops) == 1 and isinstance(zt.ops[0], (ast.Lt, ast.LtE))
         and ast.unparse(zt.left) == 'var.l2_refe'
         and _norm(ast.unparse(zt.comparators[0])) == '100*np.finfo(float).tiny', zs,
         "solve(): zero-source threshold changed")
    zs_test = ('ltb' if isinstance(zt.ops[0], ast.Lt) else 'leb') + ' var_l2_refe tiny100'
    z_inplace, z_rebind, z_l2, z_msg, z_nan, z_off = False, False, False, None, False, set()
    for s in zs.body:
        u = _norm(ast.unparse(s))
        if u == NEWFIELD:
            z_rebind = True
        elif u in (_norm('efield.field = 0.0'), _norm('efield.field[:] = 0.0'),
                   _norm('efield.field = 0'), _norm('efield.field[:] = 0')):
            z_inplace = True
        elif u in (_norm('var.l2 = 0.0'), _norm('var.l2 = 0')):
            z_l2 = True
        elif u == _norm('var.l2_refe = np.nan'):
            z_nan = True
        elif u in (_norm('var.sslsolver = None'), _norm('var.cycle = None')):
            z_off.add(u)
        elif isinstance(s, ast.Assign) and ast.unparse(s.targets[0]) == 'var.exit_message':
            z_msg, ty = ex.expr(s.value)
            need(ty == 'str', s, "zero-source message")
        elif isinstance(s, ast.Assign) and ast.unparse(s.targets[0]) == 'info':
            pass
        else:
            bad(s, f"zero-source branch: unexpected statement {ast.unparse(s)[:60]}")
    need(z_nan and len(z_off) == 2 and z_msg is not None, zs,
         "zero-source branch must set l2_refe=nan, switch off both solvers, set the message")
    need(z_inplace != z_rebind, zs, "zero-source branch must either rebind efield to a new Field or zero it in place")

    disp = find_top(lambda s: isinstance(s, ast.If) and _norm(ast.unparse(s.test)) == 'var.sslsolver'
                    and any(isinstance(c, ast.Expr) and isinstance(c.value, ast.Call)
                            and ast.unparse(c.value.func) == 'krylov' for c in s.body), "solver dispatch")
    need(_norm(ast.unparse(disp)) == _norm(
        "if var.sslsolver:\n    krylov(vmodel, sfield, efield, var)\n"
        "elif var.cycle:\n    multigrid(vmodel, sfield, efield, var)"), disp, "solve(): dispatch changed")
    need(top.index(disp) > top.index(zs), disp, "solve(): dispatch must follow the zero-source test")

    es = find_top(lambda s: isinstance(s, ast.Assign) and ast.unparse(s.targets[0]) == 'exit_status', "exit status")
    need(top.index(es) > top.index(disp), es, "solve(): exit status computed before the solve")
    v = es.value
    need(isinstance(v, ast.Call) and ast.unparse(v.func) == 'int' and len(v.args) == 1, es,
         "solve(): exit status must be int(<message test>)")
    es_test = ex.as_bool(v.args[0]).replace('var_exit_message', 'm')

    idict = None
    for n in ast.walk(fn):
        if isinstance(n, ast.Assign) and ast.unparse(n.targets[0]) == 'info_dict' and isinstance(n.value, ast.Dict):
            idict = n.value
    need(idict is not None, fn, "solve(): info_dict not found")
    entries = {k.value: _norm(ast.unparse(val)) for k, val in zip(idict.keys, idict.values)}
    want = {'exit': 'exit_status', 'exit_message': 'var.exit_message', 'abs_error': 'var.l2',
            'rel_error': 'var.l2/var.l2_refe', 'ref_error': 'var.l2_refe', 'tol': 'var.tol',
            'it_mg': 'var.it', 'it_ssl': 'var.ssl_it', 'error_at_cycle': 'var.error_at_cycle'}
    for k, val in want.items():
        need(entries.get(k) == val, idict, f"solve(): info_dict[{k!r}] is no longer {val}")
    ret = top[-1]
    need(_norm(ast.unparse(ret)) == _norm(
        "if var.do_return and var.return_info:\n    return (efield, info_dict)\n"
        "elif var.do_return:\n    return efield\nelif var.return_info:\n    return info_dict"), ret,
        "solve(): return chain changed")
    # no other statement of solve() may touch var.l2 / var.exit_message / efield after the dispatch
    for s in top[top.index(disp) + 1:]:
        for n in ast.walk(s):
            if isinstance(n, (ast.Assign, ast.AugAssign)):
                tgs = n.targets if isinstance(n, ast.Assign) else [n.target]
                for tg in tgs:
                    if ast.unparse(tg).split('[')[0].split('.field')[0] in (
                            'var.l2', 'var.exit_message', 'efield', 'var.it', 'var.ssl_it', 'var.l2_refe'):
                        bad(n, "solve(): bookkeeping modified after the solve")

    # --------------------------------------------------------------- krylov
    fn = funcs.get('krylov') or bad(tree, "krylov missing")
    ktop = fn.body
    tr = [s for s in ktop if isinstance(s, ast.Try)]
    need(len(tr) == 1, fn, "krylov(): expected one try block")
    tr = tr[0]
    CALL = _norm("(efield.field, i) = getattr(sp.sparse.linalg, var.sslsolver)(A=A, b=sfield.field, "
                 "x0=efield.field, **{TOL: var.tol}, maxiter=var.ssl_maxit, atol=1e-30, M=M, callback=callback)")
    got = _norm(ast.unparse(tr.body[0])) if len(tr.body) == 1 else ''
    need(got in (CALL, CALL.replace('(efield.field,i)=', 'efield.field,i=')), tr,
         "krylov(): scipy call changed")
    need(len(tr.handlers) == 1 and ast.unparse(tr.handlers[0].type) == '_ConvergenceError'
         and not tr.orelse and not tr.finalbody, tr, "krylov(): exception handling changed")
    hb = tr.handlers[0].body
    need(len(hb) == 2 and isinstance(hb[0], ast.Assign) and ast.unparse(hb[0].targets[0]) == 'i'
         and isinstance(hb[1], ast.AugAssign) and ast.unparse(hb[1].target) == 'var.exit_message'
         and isinstance(hb[1].op, ast.Add), tr, "krylov(): handler must set i and extend the message")
    ab_code, ty = ex.expr(hb[0].value)
    need(ty == 'int', hb[0], "abort code")
    ab_suffix, ty = ex.expr(hb[1].value)
    need(ty == 'str', hb[1], "abort suffix")
    after = ktop[ktop.index(tr) + 1:]
    recompute = False
    chain_if = None
    for s in after:
        u = _norm(ast.unparse(s))
        if u == _norm('var.l2 = residual(model, sfield, efield, True)'):
            need(chain_if is None, s, "krylov(): var.l2 recomputed after the exit-code mapping")
            recompute = True
        elif isinstance(s, ast.If) and _norm(ast.unparse(s.test)) == 'i<0':
            chain_if = s
        elif isinstance(s, ast.If) and 'var.verb' in ast.unparse(s.test):
            for n in ast.walk(s):
                if isinstance(n, (ast.Assign, ast.AugAssign)):
                    tg = n.targets[0] if isinstance(n, ast.Assign) else n.target
                    need(ast.unparse(tg) == 'pre', n, "krylov(): verbosity block assigns state")
        elif isinstance(s, ast.AugAssign) and ast.unparse(s.target) == 'pre':
            pass
        elif isinstance(s, ast.Expr) and isinstance(s.value, ast.Call) \
                and ast.unparse(s.value.func) == 'var.cprint':
            pass
        else:
            bad(s, f"krylov(): unexpected statement after the scipy call: {ast.unparse(s)[:60]}")
    need(chain_if is not None, fn, "krylov(): exit-code mapping not found")
    kb = Block(ex, ['var_exit_message'], ignore_targets=['pre'])
    kchain = kb.stmts([chain_if])
    cb = [s for s in ktop if isinstance(s, ast.FunctionDef) and s.name == 'callback']
    need(len(cb) == 1, fn, "krylov(): callback missing")
    cbt = [_norm(ast.unparse(s)) for s in cb[0].body]
    for wanted in ('var.ssl_it += 1',
                   'var.l2 = residual(model, sfield, fields.Field(model.grid, x), True)',
                   'var.error_at_cycle = np.r_[var.error_at_cycle, var.l2]'):
        need(_norm(wanted) in cbt, cb[0], f"krylov(): callback no longer does `{wanted}`")
    mgm = [s for s in ktop if isinstance(s, ast.FunctionDef) and s.name == 'mg_matvec']
    need(len(mgm) == 1 and _norm('multigrid(model, sfield, efield, var)') in
         [_norm(ast.unparse(s)) for s in mgm[0].body], fn, "krylov(): preconditioner no longer multigrid(...)")

    # ------------------------------------------------------------ multigrid
    fn = funcs.get('multigrid') or bad(tree, "multigrid missing")
    msrc = _norm(ast.unparse(fn))
    for anchor in ("it = 0", "l2_last = residual(model, sfield, efield, True)",
                   "l2_stag = np.ones(var.maxcycle) * l2_last",
                   "while level == 0 or (level > 0 and it < cycmax):",
                   "l2_stag[(it - 1) % var.maxcycle] = l2_last",
                   "it += 1", "if level == 0:\n    var.it += 1",
                   "if _terminate(var, l2_last, l2_stag[(it - 1) % var.maxcycle], it):\n    break"):
        need(_norm(anchor) in msrc, fn, f"multigrid(): anchor `{anchor}` not found")
    need(_norm(ast.unparse(fn.body[-1])) == _norm('var.l2 = l2_last'), fn,
         "multigrid(): must end with var.l2 = l2_last")
    m = None
    for n in tree.body:
        if isinstance(n, ast.ClassDef) and n.name == 'MGParameters':
            for mm in n.body:
                if isinstance(mm, ast.FunctionDef) and mm.name == '_solver_and_cycle':
                    m = mm
    need(m is not None, tree, "MGParameters._solver_and_cycle missing")
    msc = _norm(ast.unparse(m))
    for anchor in ("self.maxcycle = max(len(self.raw_sc_cycle), len(self.raw_lr_cycle))",
                   "if self.sslsolver:\n    self.ssl_maxit = self.maxit\n    if self.cycle is not None:\n"
                   "        self.maxit = self.maxcycle\n        self._repr_maxit += f' ({self.maxit})'",
                   "if not self.sslsolver and (not self.cycle):"):
        need(_norm(anchor) in msc, m, f"_solver_and_cycle: anchor `{anchor[:40]}` not found")

    b = (lambda x: 'true' if x else 'false')
    text = (
        "(* GENERATED by py/py2coq/terminate_gen.py from emg3d/solver.py -- do not edit. *)\n"
        "From Coq Require Import ZArith String Bool List DecimalString.\n"
        "Import ListNotations.\n"
        "Local Open Scope Z_scope.\nLocal Open Scope string_scope.\n\n"
        "Definition zstr (z : Z) : string := NilZero.string_of_int (Z.to_int z).\n\n"
        "Section Num.\n"
        "  Variable num : Type.\n"
        "  Variables (ltb leb : num -> num -> bool) (isfinite : num -> bool)\n"
        "            (mul : num -> num -> num) (nofZ : Z -> num).\n\n"
        + out[0] +
        "\n  (* solve(): `if var.l2 < var.tol*var.l2_refe` for a supplied field *)\n"
        f"  Definition good_enough (var_tol var_l2_refe var_l2 : num) : bool := {ge_test}.\n"
        "  (* solve(): zero-source test; tiny100 stands for 100*np.finfo(float).tiny *)\n"
        f"  Definition zero_source (tiny100 var_l2_refe : num) : bool := {zs_test}.\n"
        "End Num.\n\n"
        f"Definition good_enough_message : string := {ge_msg}.\n"
        f"Definition zero_source_message : string := {z_msg}.\n"
        "(* zero-source branch: true = the field object bound to `efield` is zeroed in place;\n"
        "   false = the local name is rebound to a new zero Field (caller's object untouched) *)\n"
        f"Definition zero_branch_inplace : bool := {b(z_inplace)}.\n"
        f"Definition zero_branch_sets_l2 : bool := {b(z_l2)}.\n"
        f"Definition supplied_field_pec_zeroed : bool := {b(pec_ok)}.\n"
        "(* exit_status = int(<test>) *)\n"
        f"Definition exit_status_of (m : string) : Z := if {es_test} then 1 else 0.\n\n"
        "(* krylov(): except _ConvergenceError *)\n"
        f"Definition abort_code : Z := {ab_code}.\n"
        f"Definition abort_suffix : string := {ab_suffix}.\n"
        "(* krylov(): is var.l2 recomputed from the returned field after the scipy call? *)\n"
        f"Definition krylov_recomputes_l2 : bool := {b(recompute)}.\n"
        "(* krylov(): exit-code mapping *)\n"
        "Definition krylov_exit_message (ssl_name : string) (i : Z) (var_exit_message : string) : string :=\n"
        f"  {kchain}.\n")
    os.makedirs(out_dir, exist_ok=True)
    outp = os.path.join(out_dir, 'SolveCtl.v')
    old = open(outp).read() if os.path.exists(outp) else None
    if old != text:
        with open(outp, 'w') as f:
            f.write(text)
    return outp, old != text


if __name__ == '__main__':
    print(generate())
