"""Regenerate coq/Gen/SolverHelpers.v from emg3d/solver.py: the integer decision
logic of the multigrid control (current sc/lr direction, restriction factors,
smoother dispatch, cycmax hand-over, halving rule, clevel table, _terminate's
decision chain).  Extraction is by ast pattern + the generic translator and
fails closed: any statement that does not have the expected shape raises
Untranslatable, which the check reports as a broken tie."""
import ast
import copy
import os

from .trans import Translator, Untranslatable, module_text
from . import gen as G


class Rewrite(ast.NodeTransformer):
    """grid.shape_cells[k] -> nk ; var.x / self.x -> var_x ;
    var.clevel[var.sc_dir] -> var_clevel_sc ; np.copy(x) -> x ; clevel[k] -> ck"""

    def visit_Subscript(self, node):
        v = node.value
        if isinstance(v, ast.Attribute) and v.attr == 'shape_cells' \
                and isinstance(node.slice, ast.Constant):
            return ast.copy_location(ast.Name(f"n{node.slice.value}", ast.Load()), node)
        if isinstance(v, ast.Attribute) and v.attr == 'clevel' \
                and isinstance(v.value, ast.Name) and v.value.id in ('var', 'self'):
            return ast.copy_location(ast.Name('var_clevel_sc', ast.Load()), node)
        if isinstance(v, ast.Name) and v.id == 'clevel' \
                and isinstance(node.slice, ast.Constant):
            return ast.copy_location(ast.Name(f"c{node.slice.value}", node.ctx), node)
        return self.generic_visit(node)

    def visit_Attribute(self, node):
        if isinstance(node.value, ast.Name) and node.value.id in ('var', 'self'):
            return ast.copy_location(ast.Name('var_' + node.attr, node.ctx), node)
        return self.generic_visit(node)

    def visit_Call(self, node):
        if isinstance(node.func, ast.Attribute) and node.func.attr == 'copy' \
                and isinstance(node.func.value, ast.Name) and node.func.value.id == 'np':
            return self.visit(node.args[0])
        return self.generic_visit(node)


def mkfun(name, params, body, lineno=1):
    args = ast.arguments(posonlyargs=[], args=[ast.arg(p) for p in params],
                         kwonlyargs=[], kw_defaults=[], defaults=[])
    fn = ast.FunctionDef(name=name, args=args, body=body, decorator_list=[],
                         lineno=lineno, col_offset=0)
    return ast.fix_missing_locations(fn)


def ret(names):
    if len(names) == 1:
        return ast.Return(ast.Name(names[0], ast.Load()))
    return ast.Return(ast.Tuple([ast.Name(n, ast.Load()) for n in names], ast.Load()))


def find_class_method(tree, cls, meth):
    for n in tree.body:
        if isinstance(n, ast.ClassDef) and n.name == cls:
            for m in n.body:
                if isinstance(m, ast.FunctionDef) and m.name == meth:
                    return m
    return None


def generate(repo=None, out_dir=None):
    repo = repo or G.REPO
    out_dir = out_dir or G.GEN_DIR
    path = os.path.join(repo, 'emg3d/solver.py')
    tr = Translator(path)
    tree = tr.tree
    funcs = tr.funcs

    def bad(node, what):
        raise Untranslatable(path, getattr(node, 'lineno', 0), what)

    defs = []
    R = Rewrite()

    # 1. _current_sc_dir(sc_dir, grid), _current_lr_dir(lr_dir, grid)
    for name, first in (('_current_sc_dir', 'sc_dir'), ('_current_lr_dir', 'lr_dir')):
        if name not in funcs:
            bad(tree, f"{name} missing")
        fn = R.visit(copy.deepcopy(funcs[name]))
        if [a.arg for a in fn.args.args] != [first, 'grid']:
            bad(fn, f"{name}: unexpected parameters")
        fn.args.args = [ast.arg(first), ast.arg('n0'), ast.arg('n1'), ast.arg('n2')]
        fn.name = name.lstrip('_')
        ast.fix_missing_locations(fn)
        text, _ = tr.function(fn, {first: 'Z', 'n0': 'Z', 'n1': 'Z', 'n2': 'Z'})
        defs.append(text)

    # 2. restriction(): rx, ry, rz = 2, 2, 2 ; three `if sc_dir in [...]` statements
    fn = funcs.get('restriction') or bad(tree, "restriction missing")
    body = [s for s in fn.body if not (isinstance(s, ast.Expr) and isinstance(s.value, ast.Constant))]
    head = body[:4]
    ok = (isinstance(head[0], ast.Assign) and isinstance(head[0].targets[0], ast.Tuple)
          and [e.id for e in head[0].targets[0].elts] == ['rx', 'ry', 'rz']
          and all(isinstance(s, ast.If) and not s.orelse for s in head[1:4]))
    if not ok:
        bad(fn, "restriction(): coarsening-factor block changed shape")
    # the factors must be consumed as strides of the node vectors
    src = ast.get_source_segment(tr.src, fn) or ''
    for d, r in (('x', 'rx'), ('y', 'ry'), ('z', 'rz')):
        if f"nodes_{d}[::{r}]" not in src.replace(' ', ''):
            bad(fn, f"restriction(): coarse grid no longer nodes_{d}[::{r}]")
    f2 = mkfun('restrict_factors', ['sc_dir'], copy.deepcopy(head) + [ret(['rx', 'ry', 'rz'])],
               fn.lineno)
    text, _ = tr.function(f2, {'sc_dir': 'Z'})
    defs.append(text)

    # 3. smoothing(): which kernels run for c_lr_dir
    fn = funcs.get('smoothing') or bad(tree, "smoothing missing")
    ifs = [s for s in fn.body if isinstance(s, ast.If)]
    kern = {}
    for s in ifs:
        if len(s.body) != 1 or s.orelse or not isinstance(s.body[0], ast.Expr) \
                or not isinstance(s.body[0].value, ast.Call):
            bad(s, "smoothing(): dispatch statement changed shape")
        callee = s.body[0].value.func
        if not (isinstance(callee, ast.Attribute) and callee.attr.startswith('gauss_seidel')):
            bad(s, "smoothing(): unexpected call in dispatch")
        kern[callee.attr] = s.test
    want = ['gauss_seidel', 'gauss_seidel_x', 'gauss_seidel_y', 'gauss_seidel_z']
    if sorted(kern) != sorted(want) or len(ifs) != 4:
        bad(fn, "smoothing(): dispatch no longer four independent ifs")
    # c_lr_dir must come from _current_lr_dir(lr_dir, model.grid)
    if '_current_lr_dir(lr_dir,model.grid)' not in (ast.get_source_segment(tr.src, fn) or '').replace(' ', ''):
        bad(fn, "smoothing(): c_lr_dir no longer obtained from _current_lr_dir")
    sbody = [ast.Assign([ast.Name(f"k{i}", ast.Store())], copy.deepcopy(kern[w]))
             for i, w in enumerate(want)]
    f3 = mkfun('smoothing_kernels', ['c_lr_dir'], sbody + [ret(['k0', 'k1', 'k2', 'k3'])],
               fn.lineno)
    text, _ = tr.function(f3, {'c_lr_dir': 'Z'})
    defs.append(text)

    # 4. multigrid(): cycmax hand-over (first If that assigns cycmax)
    fn = funcs.get('multigrid') or bad(tree, "multigrid missing")
    cyc_if = None
    for s in fn.body:
        if isinstance(s, ast.If) and any(
                isinstance(t, ast.Assign) and isinstance(t.targets[0], ast.Name)
                and t.targets[0].id == 'cycmax' for t in s.body):
            cyc_if = s
            break
    if cyc_if is None:
        bad(fn, "multigrid(): cycmax decision not found")
    f4 = mkfun('mg_cycmax', ['level', 'new_cycmax', 'var_clevel_sc', 'var_cycle', 'var_cycmax'],
               [R.visit(copy.deepcopy(cyc_if)), ret(['cycmax'])], cyc_if.lineno)
    text, _ = tr.function(f4, {k: 'Z' for k in
                               ['level', 'new_cycmax', 'var_clevel_sc', 'var_cycle', 'var_cycmax']})
    defs.append(text)

    # 4a. is the level-0 cycmax re-computed inside the while loop?  (sc_dir can
    #     change between fine-grid cycles; a stale value degrades F-cycles)
    whl = [n for n in fn.body if isinstance(n, ast.While)]
    if len(whl) != 1:
        bad(fn, "multigrid(): expected exactly one top-level while loop")
    recomputed = False
    for st in whl[0].body:
        if isinstance(st, ast.If) and ast.unparse(st.test) == 'level == 0' and not st.orelse \
                and len(st.body) == 1 and ast.dump(st.body[0]) == ast.dump(cyc_if):
            recomputed = True
    # any other assignment to cycmax inside the loop is not understood
    for n in ast.walk(whl[0]):
        if isinstance(n, ast.Assign) and any(isinstance(t, ast.Name) and t.id == 'cycmax'
                                             for t in n.targets):
            if not recomputed:
                bad(n, "multigrid(): cycmax assigned inside the loop in an unexpected way")
    defs.append("Definition level0_cycmax_recomputed : bool := "
                + ("true" if recomputed else "false") + ".\n")

    # 4c. end-of-cycle block on the original grid: the directions are advanced
    #     (var.sc_dir = next(var.sc_cycle), var.lr_dir = next(var.lr_cycle)) in EVERY
    #     fine-grid cycle, i.e. unconditionally and BEFORE the `if _terminate(..): break`;
    #     otherwise the last cycle of a preconditioner call would not advance them
    end_blocks = []
    for st in whl[0].body:
        if isinstance(st, ast.If):
            for blk in (st.body, st.orelse):
                if any(isinstance(x, ast.If) and '_terminate(' in ast.unparse(x.test) for x in blk):
                    end_blocks.append(blk)
    if len(end_blocks) != 1:
        bad(fn, "multigrid(): end-of-cycle block with the _terminate test not found")
    blk = end_blocks[0]
    srcs = [ast.unparse(x) for x in blk]
    want_sc = "if var.sc_cycle:\n    var.sc_dir = next(var.sc_cycle)"
    want_lr = "if var.lr_cycle:\n    var.lr_dir = next(var.lr_cycle)"
    iterm = [i for i, x in enumerate(blk) if isinstance(x, ast.If) and '_terminate(' in ast.unparse(x.test)]
    if len(iterm) != 1 or [ast.unparse(x) for x in blk[iterm[0]].body] != ['break'] or blk[iterm[0]].orelse:
        bad(fn, "multigrid(): termination test changed shape")
    if srcs.count(want_sc) != 1 or srcs.count(want_lr) != 1:
        bad(fn, "multigrid(): direction hand-over statements changed shape")
    for n in ast.walk(fn):
        if isinstance(n, ast.Assign) and ast.unparse(n.targets[0]) in ('var.sc_dir', 'var.lr_dir') \
                and not any(n in ast.walk(x) for x in blk):
            bad(n, "multigrid(): direction assigned outside the end-of-cycle block")
    before = srcs.index(want_sc) < iterm[0] and srcs.index(want_lr) < iterm[0]
    defs.append("Definition dirs_advance_before_terminate : bool := "
                + ("true" if before else "false") + ".\n")

    # 4b. the recursive call: multigrid(..., level=level+1, new_cycmax=cycmax-cyc)
    rec = [n for n in ast.walk(fn) if isinstance(n, ast.Call) and isinstance(n.func, ast.Name)
           and n.func.id == 'multigrid']
    if len(rec) != 1:
        bad(fn, "multigrid(): expected exactly one recursive call")
    kws = {k.arg: k.value for k in rec[0].keywords}
    if sorted(kws) != ['level', 'new_cycmax']:
        bad(rec[0], "multigrid(): recursive call keywords changed")
    f4b = mkfun('mg_handover', ['level', 'cycmax', 'cyc'],
                [ast.Assign([ast.Name('nl_', ast.Store())], copy.deepcopy(kws['level'])),
                 ast.Assign([ast.Name('nc_', ast.Store())], copy.deepcopy(kws['new_cycmax'])),
                 ret(['nl_', 'nc_'])], rec[0].lineno)
    text, _ = tr.function(f4b, {'level': 'Z', 'cycmax': 'Z', 'cyc': 'Z'})
    defs.append(text)

    # 5. MGParameters._solver_and_cycle: cycmax from the cycle letter
    m = find_class_method(tree, 'MGParameters', '_solver_and_cycle') or bad(tree, "_solver_and_cycle missing")
    cm_if = None
    for s in m.body:
        if isinstance(s, ast.If) and any(
                isinstance(t, ast.Assign) and isinstance(t.targets[0], ast.Attribute)
                and t.targets[0].attr == 'cycmax' for t in s.body):
            cm_if = s
    if cm_if is None:
        bad(m, "_solver_and_cycle: cycmax assignment not found")
    f5 = mkfun('cycmax_of_cycle', ['var_cycle'], [R.visit(copy.deepcopy(cm_if)), ret(['var_cycmax'])],
               cm_if.lineno)
    text, _ = tr.function(f5, {'var_cycle': 'Z'})
    defs.append(text)

    # 6. MGParameters._max_level: halving rule, user cap, table of maxima
    m = find_class_method(tree, 'MGParameters', '_max_level') or bad(tree, "_max_level missing")
    wh = [n for n in ast.walk(m) if isinstance(n, ast.While)]
    if len(wh) != 1:
        bad(m, "_max_level: expected exactly one while loop")
    w = wh[0]
    wb = [ast.unparse(s) for s in w.body]
    if wb != ['clevel[i] += 1', 'n /= 2']:
        bad(w, f"_max_level: while body changed: {wb}")
    f6 = mkfun('halvable', ['n'], [ast.Assign([ast.Name('r_', ast.Store())], copy.deepcopy(w.test)),
                                    ret(['r_'])], w.lineno)
    text, _ = tr.function(f6, {'n': 'Z'})
    defs.append(text)
    cap = None
    for n in ast.walk(m):
        if isinstance(n, ast.If) and len(n.body) == 1 and ast.unparse(n.body[0]) == 'clevel[i] = self.clevel':
            cap = n
    if cap is None:
        bad(m, "_max_level: user cap statement not found")

    class CapRW(ast.NodeTransformer):
        def visit_Subscript(self, node):
            if isinstance(node.value, ast.Name) and node.value.id == 'clevel':
                return ast.copy_location(ast.Name('c', node.ctx), node)
            return self.generic_visit(node)

        def visit_Attribute(self, node):
            if isinstance(node.value, ast.Name) and node.value.id == 'self' and node.attr == 'clevel':
                return ast.copy_location(ast.Name('user', node.ctx), node)
            return self.generic_visit(node)
    f7 = mkfun('cap_level', ['user', 'c'], [CapRW().visit(copy.deepcopy(cap)), ret(['c'])], cap.lineno)
    text, _ = tr.function(f7, {'user': 'Z', 'c': 'Z'})
    defs.append(text)
    tab = None
    for n in ast.walk(m):
        if isinstance(n, ast.Assign) and ast.unparse(n.targets[0]) == 'self.clevel' \
                and isinstance(n.value, ast.Call) and isinstance(n.value.args[0], ast.List):
            tab = n.value.args[0]
    if tab is None or len(tab.elts) != 4:
        bad(m, "_max_level: clevel table not found")
    tb = [ast.Assign([ast.Name(f"t{i}", ast.Store())], R.visit(copy.deepcopy(e)))
          for i, e in enumerate(tab.elts)]
    f8 = mkfun('clevel_table', ['c0', 'c1', 'c2'], tb + [ret(['t0', 't1', 't2', 't3'])], m.lineno)
    text, _ = tr.function(f8, {'c0': 'Z', 'c1': 'Z', 'c2': 'Z'})
    defs.append(text)

    text = module_text('emg3d/solver.py', defs)
    out = os.path.join(out_dir, 'SolverHelpers.v')
    old = open(out).read() if os.path.exists(out) else None
    if old != text:
        with open(out, 'w') as f:
            f.write(text)
    return out, old != text


if __name__ == '__main__':
    print(generate())
