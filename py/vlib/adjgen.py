"""C07/C08: generation of coq/Gen/MapsVol.v from emg3d/maps.py.

`interp_edges_to_vol_averages` is inside the translator's subset except for its
first statement `nx, ny, nz = volumes.shape`.  The shared translator accepts
`volumes.shape[k]` only, so this hook desugars the tuple assignment into three
single assignments (a semantics-preserving AST rewrite, fail-closed on any
other form) and then runs the ordinary py2coq translation.
"""
import ast
import os

from py2coq import gen as G
from py2coq.trans import Translator, Untranslatable, module_text

SRC = 'emg3d/maps.py'
FUNC = 'interp_edges_to_vol_averages'
TYPES = dict(ex='A3', ey='A3', ez='A3', volumes='A3', ox='A3', oy='A3', oz='A3')


class _ShapeUnpack(ast.NodeTransformer):
    """`a, b, c = x.shape`  ->  `a = x.shape[0]; b = x.shape[1]; c = x.shape[2]`."""

    def visit_Assign(self, node):
        if (len(node.targets) == 1 and isinstance(node.targets[0], ast.Tuple)
                and isinstance(node.value, ast.Attribute) and node.value.attr == 'shape'
                and isinstance(node.value.value, ast.Name)):
            elts = node.targets[0].elts
            if not all(isinstance(e, ast.Name) for e in elts) or len(elts) > 3:
                return node
            out = []
            for k, e in enumerate(elts):
                sub = ast.Subscript(value=ast.Attribute(value=ast.Name(id=node.value.value.id,
                                                                       ctx=ast.Load()),
                                                        attr='shape', ctx=ast.Load()),
                                    slice=ast.Constant(value=k), ctx=ast.Load())
                new = ast.Assign(targets=[ast.Name(id=e.id, ctx=ast.Store())], value=sub)
                out.append(ast.copy_location(new, node))
            return [ast.fix_missing_locations(n) for n in out]
        return node


def generate(repo=None, out_dir=None):
    """(Re)write Gen/MapsVol.v; returns (path, changed).  Raises Untranslatable."""
    repo = repo or G.REPO
    out_dir = out_dir or G.GEN_DIR
    tr = Translator(os.path.join(repo, SRC), registry={})
    if FUNC not in tr.funcs:
        raise Untranslatable(tr.path, 0, f"function {FUNC} not found")
    fn = _ShapeUnpack().visit(tr.funcs[FUNC])
    ast.fix_missing_locations(fn)
    tr.funcs[FUNC] = fn
    text, _ = tr.function(FUNC, TYPES)
    text = module_text(SRC, [text])
    path = os.path.join(out_dir, 'MapsVol.v')
    old = open(path).read() if os.path.exists(path) else None
    if old != text:
        os.makedirs(out_dir, exist_ok=True)
        with open(path, 'w') as f:
            f.write(text)
    return path, old != text


def prebuild(ctx):
    generate()


if __name__ == '__main__':
    print(generate())
