"""Helpers for correspondence of numerical kernels: dyadic random inputs,
Coq literals for arrays, parsing of dumped arrays."""
import fractions
import itertools

import numpy as np

from . import core as V

CASE_HEADER = """From Coq Require Import ZArith QArith List.
From V Require Import Base.Loops Base.Arr Base.FieldSig Base.ExecQ.
Import ListNotations.
Set Printing Width 1000000.
Set Printing Depth 10000000.
Local Open Scope Z_scope.
"""


def dy(rng, bits=4, lo=-8, hi=8):
    """Random dyadic rational with few significant bits (exact as a float)."""
    return rng.randint(lo * 2**bits, hi * 2**bits) / 2**bits


def dy_pos(rng, bits=3):
    return rng.randint(1, 6 * 2**bits) / 2**bits


def rand_arr(rng, shape, cplx, pos=False):
    a = np.zeros(shape, dtype=complex if cplx else float)
    for idx in itertools.product(*[range(m) for m in shape]):
        re = dy_pos(rng) if pos else dy(rng)
        a[idx] = complex(re, dy(rng)) if cplx else re
    return a


def field_shapes(shape):
    nx, ny, nz = shape
    return [(nx, ny + 1, nz + 1), (nx + 1, ny, nz + 1), (nx + 1, ny + 1, nz)]


def apply_pec(f):
    fx, fy, fz = f
    fx[:, 0, :] = fx[:, -1, :] = 0
    fx[:, :, 0] = fx[:, :, -1] = 0
    fy[0, :, :] = fy[-1, :, :] = 0
    fy[:, :, 0] = fy[:, :, -1] = 0
    fz[0, :, :] = fz[-1, :, :] = 0
    fz[:, 0, :] = fz[:, -1, :] = 0
    return f


def rand_field(rng, shape, cplx, pec=True):
    f = [rand_arr(rng, s, cplx) for s in field_shapes(shape)]
    return apply_pec(f) if pec else f


def as_type(a, cplx):
    return np.asarray(a, dtype=complex if cplx else float)


def lit(x, cplx):
    if cplx:
        z = complex(x)
        a, b = V.frac(z.real), V.frac(z.imag)
        return f"(cq ({a.numerator}) {a.denominator} ({b.numerator}) {b.denominator})"
    return V.q(float(np.real(x)))


def coq_arr1(a, cplx):
    a = np.asarray(a)
    d = '(0%Q, 0%Q)' if cplx else '0%Q'
    return f"(arr_of_list {d} [" + '; '.join(lit(x, cplx) for x in a) + "])"


def coq_arr3(a, cplx):
    a = np.asarray(a)
    d = '(0%Q, 0%Q)' if cplx else '0%Q'
    rows = []
    for i in range(a.shape[0]):
        rows.append('[' + '; '.join(
            '[' + '; '.join(lit(x, cplx) for x in a[i, j]) + ']'
            for j in range(a.shape[1])) + ']')
    return f"(arr3_of {d} [" + ';\n '.join(rows) + "])"


def parse_arr(ans, cplx):
    """Dumped array -> list of python complex numbers."""
    if cplx:
        return [complex(float(a), float(b)) for a, b in V.parse_cpairs(ans)]
    return [complex(float(a), 0.0) for a in V.parse_pairs(ans)]


def parse_arr_exact(ans, cplx):
    if cplx:
        return V.parse_cpairs(ans)
    return [(a, fractions.Fraction(0)) for a in V.parse_pairs(ans)]


def brief(case):
    return {'shape': list(case['shape']), 'complex': bool(case['cplx']),
            'hx': [float(x) for x in case['hx']], 'hy': [float(x) for x in case['hy']],
            'hz': [float(x) for x in case['hz']]}
