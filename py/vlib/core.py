"""Shared machinery of the check driver: paths, Coq build/evaluation,
evidence, violation reporting, known findings."""
import fcntl
import fractions
import glob
import hashlib
import json
import os
import random
import re
import subprocess
import sys
import time

VERIF = os.path.abspath(os.path.join(os.path.dirname(__file__), '..', '..'))
COQ = os.environ.get('VERIF_COQ') or os.path.join(VERIF, 'coq')
REPO = os.environ.get('VERIF_REPO', '/repo')
NPROC = int(os.environ.get('VERIF_JOBS', '16'))

TRUSTED_BASE = [
    "Coq 8.16.1 kernel + coqc; vm_compute used for correspondence evaluation and "
    "finite-domain forallb proofs; no native_compute",
    "py2coq translator (/verif/py/py2coq): its reading of the Python subset of "
    "DESIGN.md 3.4; exercised by running generated kernels against the real ones",
    "correspondence harness and comparator (/verif/py), numpy/h5py/json for reading results",
    "exact field arithmetic instead of IEEE-754 / numba fastmath (rounding not modelled)",
]

# Standard-library axioms that may appear under Print Assumptions (named in
# DESIGN.md section 5).  Anything else fails the check.
ALLOWED_AXIOMS = {
    'ClassicalDedekindReals.sig_forall_dec',
    'ClassicalDedekindReals.sig_not_dec',
    'FunctionalExtensionality.functional_extensionality_dep',
    'Classical_Prop.classic',
    'ProofIrrelevance.proof_irrelevance',
    'ClassicalEpsilon.constructive_indefinite_description',
    'Eqdep.Eq_rect_eq.eq_rect_eq',
    'JMeq.JMeq_eq',
}


class Lock:
    def __init__(self):
        self.f = None

    def __enter__(self):
        os.makedirs(COQ, exist_ok=True)
        self.f = open(os.path.join(COQ, '.lock'), 'w')
        fcntl.flock(self.f, fcntl.LOCK_EX)
        return self

    def __exit__(self, *a):
        fcntl.flock(self.f, fcntl.LOCK_UN)
        self.f.close()


def sh(cmd, timeout=None, cwd=None, env=None):
    """Run a command, return (rc, stdout+stderr)."""
    try:
        p = subprocess.run(cmd, shell=isinstance(cmd, str), cwd=cwd, env=env,
                           stdout=subprocess.PIPE, stderr=subprocess.STDOUT,
                           timeout=timeout, text=True)
        return p.returncode, p.stdout
    except subprocess.TimeoutExpired as e:
        out = e.stdout if isinstance(e.stdout, str) else (e.stdout or b'').decode(errors='replace')
        return 124, (out or '') + f"\nTIMEOUT after {timeout}s"


# ------------------------------------------------------------------ Coq build
def write_coqproject():
    files = []
    for d in ('Base', 'Gen', 'Model', 'Proofs', 'Props'):
        files += sorted(glob.glob(os.path.join(COQ, d, '*.v')))
    rel = [os.path.relpath(f, COQ) for f in files]
    text = ("-Q . V\n-arg -w -arg -notation-overridden,-deprecated-hint-without-locality,"
            "-deprecated-instance-without-locality,-ambiguous-paths\n"
            + '\n'.join(rel) + '\n')
    p = os.path.join(COQ, '_CoqProject')
    old = open(p).read() if os.path.exists(p) else None
    if old != text or not os.path.exists(os.path.join(COQ, 'Makefile')):
        with open(p, 'w') as f:
            f.write(text)
        rc, out = sh('coq_makefile -f _CoqProject -o Makefile', cwd=COQ, timeout=120)
        if rc != 0:
            raise RuntimeError('coq_makefile failed: ' + out)


def make(targets, timeout=1500):
    """Full .vo build of the given targets (relative to coq/)."""
    write_coqproject()
    tg = ' '.join(targets)
    return sh(f'make -j{NPROC} {tg}', cwd=COQ, timeout=timeout)


def coqc(relpath, timeout=600):
    return sh(['coqc', '-Q', '.', 'V', '-w',
               '-notation-overridden,-deprecated-hint-without-locality,'
               '-deprecated-instance-without-locality,-ambiguous-paths',
               relpath], cwd=COQ, timeout=timeout)


def parse_assumptions(out):
    """Parse the output of a Props file: a sequence of Print Assumptions
    answers.  Returns list of sets of axiom names (one per theorem)."""
    res = []
    cur = None
    for line in out.splitlines():
        if line.startswith('Closed under the global context'):
            res.append(set())
            cur = None
        elif line.startswith('Axioms:'):
            cur = set()
            res.append(cur)
        elif cur is not None:
            m = re.match(r'^([A-Za-z_][\w.\']*)\s*:', line)
            if m:
                cur.add(m.group(1))
    return res


FORBIDDEN = re.compile(
    r'\b(Admitted|admit|Axiom|Axioms|Parameter|Parameters|Conjecture|Conjectures|'
    r'Unset\s+Guard|bypass_check|Admit\s+Obligations|type-in-type|impredicative-set|'
    r'Unset\s+Positivity|Unset\s+Universe)\b')


def strip_comments(text):
    out, depth, i = [], 0, 0
    while i < len(text):
        if text.startswith('(*', i):
            depth += 1
            i += 2
        elif text.startswith('*)', i) and depth:
            depth -= 1
            i += 2
        else:
            if not depth:
                out.append(text[i])
            i += 1
    return ''.join(out)


def grep_forbidden():
    bad = []
    for d in ('Base', 'Gen', 'Model', 'Proofs', 'Props'):
        for f in sorted(glob.glob(os.path.join(COQ, d, '*.v'))):
            txt = strip_comments(open(f).read())
            for m in FORBIDDEN.finditer(txt):
                bad.append(f"{os.path.relpath(f, COQ)}: {m.group(0)}")
    # variables / hypotheses outside sections are axioms too
    return bad


def count_theorems(relpath):
    txt = strip_comments(open(os.path.join(COQ, relpath)).read())
    return re.findall(r'\b(?:Theorem|Lemma|Corollary|Example|Fact)\s+([\w\']+)', txt)


# ------------------------------------------------------- Coq-side evaluation
def coq_eval(name, text, timeout=900):
    """Compile Corr/<name>.v and return its stdout."""
    d = os.path.join(COQ, 'Corr')
    os.makedirs(d, exist_ok=True)
    p = os.path.join(d, name + '.v')
    with open(p, 'w') as f:
        f.write(text)
    rc, out = sh(['coqc', '-Q', '.', 'V', '-w', 'none', os.path.join('Corr', name + '.v')],
                 cwd=COQ, timeout=timeout)
    for ext in ('.vo', '.vok', '.vos', '.glob'):
        try:
            os.remove(os.path.join(d, name + ext))
        except OSError:
            pass
    try:
        os.remove(os.path.join(d, '.' + name + '.aux'))
    except OSError:
        pass
    return rc, out


def coq_eval_many(named_texts, timeout=900, jobs=NPROC):
    """Evaluate several case files in parallel.  Returns {name: (rc, out)}."""
    from concurrent.futures import ThreadPoolExecutor
    with ThreadPoolExecutor(max_workers=jobs) as ex:
        futs = {n: ex.submit(coq_eval, n, t, timeout) for n, t in named_texts}
        return {n: f.result() for n, f in futs.items()}


def eval_answers(out):
    """Split coqc output into the answers of successive `Eval` commands
    (text after '= ' up to the type annotation)."""
    ans = []
    for chunk in re.split(r'^\s*= ', out, flags=re.M)[1:]:
        body = re.split(r'\n\s*: ', chunk)[0]
        ans.append(' '.join(body.split()))
    return ans


def frac(x):
    """Exact rational of a float / int / Fraction."""
    if isinstance(x, fractions.Fraction):
        return x
    return fractions.Fraction(x)


def q(x):
    f = frac(x)
    return f"(qz ({f.numerator}) {f.denominator})"


def qc(z):
    z = complex(z)
    return f"({q(z.real)}, {q(z.imag)})"


def parse_pairs(ans):
    """Parse '[(n, d); (n, d); ...]' into Fractions."""
    ints = [int(x) for x in re.findall(r'-?\d+', ans)]
    return [fractions.Fraction(ints[i], ints[i + 1]) for i in range(0, len(ints) - 1, 2)]


def parse_cpairs(ans):
    """Parse '[((n, d), (n, d)); ...]' into complex pairs of Fractions."""
    fl = parse_pairs(ans)
    return [(fl[i], fl[i + 1]) for i in range(0, len(fl), 2)]


def coq_list(items):
    return '[' + '; '.join(items) + ']'


def close(impl, model, scale=1.0, rtol=1e-9):
    """|impl - model| <= rtol * max(1?, |model|, scale)."""
    m = float(model)
    return abs(float(impl) - m) <= rtol * max(abs(m), scale, 1e-300)


# ------------------------------------------------------------------ evidence
class Ctx:
    def __init__(self, prop, tier, seed):
        self.prop, self.tier, self.seed = prop, tier, seed
        self.rng = random.Random(f"{prop}-{seed}")
        self.t0 = time.time()
        self.notes = []

    @property
    def thorough(self):
        return self.tier == 'thorough'


def write_evidence(ctx, coverage, assumptions, violations=0):
    level = 'proof'
    if violations:
        # a run that reports a violation does not claim proof-level coverage
        level = 'other'
        coverage = dict(coverage)
        coverage['explanation'] = ("this run reported a VIOLATION: not all proof obligations / "
                                   "correspondences were discharged; see the replay file")
    ev = {
        'property_id': ctx.prop,
        'tier': ctx.tier,
        'seed': int(ctx.seed),
        'level': level,
        'coverage': coverage,
        'assumptions': assumptions,
        'wall_s': round(time.time() - ctx.t0, 2),
        'violations': int(violations),
    }
    # runs against another source tree (mutation trials: VERIF_REPO / VERIF_COQ) never touch
    # /verif/evidence, which must describe runs of /verif against /repo itself
    evdir = os.path.join(VERIF, 'evidence')
    if os.path.realpath(REPO) != '/repo' or os.environ.get('VERIF_COQ'):
        evdir = os.path.join(COQ, 'evidence_scratch')
    os.makedirs(evdir, exist_ok=True)
    p = os.path.join(evdir, ctx.prop + '.json')
    tmp = p + f'.tmp{os.getpid()}'
    with open(tmp, 'w') as f:
        json.dump(ev, f, indent=1, default=str)
    validate_evidence(tmp)
    os.replace(tmp, p)
    return p


def validate_evidence(path):
    """Schema validation through the tooling venv (jsonschema lives there)."""
    schema = '/root/.vp/EVIDENCE.schema.json'
    if not os.path.exists(schema):
        return
    code = ("import json,sys,jsonschema;"
            "jsonschema.validate(json.load(open(sys.argv[1])), json.load(open(sys.argv[2])))")
    for py in ('python3-vt', '/opt/veriftools/pyvenv/bin/python'):
        try:
            p = subprocess.run([py, '-c', code, path, schema], capture_output=True,
                               text=True, timeout=60)
        except (OSError, subprocess.TimeoutExpired):
            continue
        if p.returncode != 0 and 'ModuleNotFoundError' not in p.stderr:
            raise RuntimeError('evidence does not validate: ' + p.stderr[-2000:])
        return


def write_replay(prop, payload):
    os.makedirs(os.path.join(VERIF, 'replay'), exist_ok=True)
    blob = json.dumps(payload, sort_keys=True, default=str)
    h = hashlib.sha1(blob.encode()).hexdigest()[:10]
    p = os.path.join(VERIF, 'replay', f"{prop}-{h}.json")
    with open(p, 'w') as f:
        json.dump(payload, f, indent=1, sort_keys=True, default=str)
    return p


def load_known():
    p = os.path.join(VERIF, 'known_findings.json')
    if not os.path.exists(p):
        return {'findings': [], 'fixed': []}
    return json.load(open(p))


def known_for(prop):
    return [k for k in load_known().get('findings', []) if k['property'] == prop]


def coq_str(s):
    """Coq string literal (String scope) for an ASCII python string."""
    if any(ord(ch) > 126 or ord(ch) < 32 for ch in s):
        raise ValueError('non-printable/non-ASCII character in a Coq string literal')
    return '"' + s.replace('"', '""') + '"%string'


def coq_bool(b):
    return 'true' if b else 'false'


def coq_z(n):
    return f"({int(n)})%Z"


class Worker:
    """A child process that evaluates `module.func(arg)` for JSON-able args.
    A mutated emg3d can corrupt memory / abort inside numba kernels; running the
    implementation in a child keeps the check alive and turns the abort into a
    reportable outcome: call() returns ('ok', result), ('crash', text) or
    ('timeout', text)."""

    BOOT = ("import sys, json, importlib\n"
            "sys.path.insert(0, {py!r}); sys.path.insert(0, {repo!r})\n"
            "m = importlib.import_module({mod!r}); f = getattr(m, {fn!r})\n"
            "out = sys.stdout; sys.stdout = sys.stderr\n"
            "for line in sys.stdin:\n"
            "    try:\n"
            "        r = ('ok', f(json.loads(line)))\n"
            "    except Exception as e:\n"
            "        r = ('exc', repr(e)[:500])\n"
            "    out.write(json.dumps(r, default=str) + '\\n'); out.flush()\n")

    def __init__(self, module, func):
        self.module, self.func = module, func
        self.p = None

    def _start(self):
        import tempfile
        code = self.BOOT.format(py=os.path.join(VERIF, 'py'), repo=REPO, mod=self.module, fn=self.func)
        self.err = tempfile.TemporaryFile(mode='w+')
        self.p = subprocess.Popen([sys.executable, '-u', '-c', code], stdin=subprocess.PIPE,
                                  stdout=subprocess.PIPE, stderr=self.err, text=True, bufsize=1)

    def call(self, arg, timeout=600):
        import select
        if self.p is None or self.p.poll() is not None:
            self._start()
        try:
            self.p.stdin.write(json.dumps(arg) + '\n')
            self.p.stdin.flush()
        except (BrokenPipeError, OSError):
            return self._dead('crash')
        r, _, _ = select.select([self.p.stdout], [], [], timeout)
        if not r:
            self.p.kill()
            return self._dead('timeout')
        line = self.p.stdout.readline()
        if not line:
            return self._dead('crash')
        kind, val = json.loads(line)
        return kind, val

    def _dead(self, kind):
        try:
            self.p.wait(timeout=10)
        except Exception:
            pass
        rc = self.p.poll()
        self.err.seek(0)
        tail = self.err.read()[-600:]
        self.p = None
        return kind, f"child exit status {rc}; stderr: {tail}"

    def close(self):
        if self.p is not None and self.p.poll() is None:
            try:
                self.p.stdin.close()
                self.p.wait(timeout=10)
            except Exception:
                self.p.kill()
        self.p = None
