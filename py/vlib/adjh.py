"""C07/C08 shared harness: tiny real Simulations (fresh object per query), a
recorder around emg3d._multiprocessing.solve (so every linear solve's source
field and result are visible: the solves are the ORACLES of the Coq model),
conversion to exact rationals, and Coq literals for the model pipelines.

Everything random derives from the `random.Random` handed in.
"""
import contextlib
import fractions
import io
import math
import os

import numpy as np

from . import core as V
from . import mapsgen

MAPS = ['Conductivity', 'LgConductivity', 'LnConductivity',
        'Resistivity', 'LgResistivity', 'LnResistivity']
CASES = ['isotropic', 'HTI', 'VTI', 'triaxial']
NCOMP = [1, 2, 2, 3]

TIGHT = dict(sslsolver=False, semicoarsening=True, linerelaxation=True,
             tol=1e-13, maxit=60, tol_gradient=1e-13, verb=0, log=-1)
LOOSE = dict(sslsolver=False, semicoarsening=True, linerelaxation=True,
             tol=1e-6, maxit=30, tol_gradient=1e-6, verb=0, log=-1)

_MAPTREES = {}


def maptrees():
    """forward/backward/chain expression trees extracted from the CURRENT
    emg3d/maps.py -- the same trees Gen/MapsMap.v is printed from."""
    repo = os.environ.get('VERIF_REPO', '/repo')
    if repo not in _MAPTREES:
        _MAPTREES[repo] = mapsgen.extract(repo)
    return _MAPTREES[repo]


def chain_model(mapping, x):
    """Gen/MapsMap.v chain_<mapping> evaluated in floats (elementwise)."""
    ent = maptrees()[mapping]
    f = np.vectorize(lambda t: mapsgen.evaluate(ent['chain'], float(t), ent), otypes=[float])
    return f(np.asarray(x, float))


def backward_own(mapping, x):
    """sigma(m), written from the documentation of the six maps (independent
    of emg3d; used by the searchers only)."""
    x = np.asarray(x, float)
    return {'Conductivity': lambda: x, 'LgConductivity': lambda: 10.0**x,
            'LnConductivity': lambda: np.exp(x), 'Resistivity': lambda: 1.0 / x,
            'LgResistivity': lambda: 10.0**(-x), 'LnResistivity': lambda: np.exp(-x)}[mapping]()


def forward_own(mapping, sig):
    sig = np.asarray(sig, float)
    return {'Conductivity': lambda: sig, 'LgConductivity': lambda: np.log10(sig),
            'LnConductivity': lambda: np.log(sig), 'Resistivity': lambda: 1.0 / sig,
            'LgResistivity': lambda: -np.log10(sig), 'LnResistivity': lambda: -np.log(sig)}[mapping]()


# --------------------------------------------------------------- generation
def _dy(rng, lo, hi, bits=3):
    return rng.randint(int(lo * 2**bits), int(hi * 2**bits)) / 2**bits


def gen_spec(rng, idx=0, big=False, n_src=None, n_rec=None, n_freq=None,
             mapping=None, aniso=None, max_pairs=4):
    """A JSON-able description of a tiny survey/model (without observed data)."""
    if big:
        shape = [rng.choice([4, 5, 6]) for _ in range(3)]
    else:
        shape = [rng.choice([4, 4, 5]) for _ in range(3)]
        if shape[0] * shape[1] * shape[2] > 100:
            shape[rng.randrange(3)] = 4
    hs = [[_dy(rng, 1, 3) * 100.0 for _ in range(n)] for n in shape]
    origin = [-sum(h) / 2 + _dy(rng, -0.5, 0.5) * 50 for h in hs]
    mapping = mapping or MAPS[idx % 6]
    aniso = ((idx // 2) % 4) if aniso is None else aniso
    ncell = shape[0] * shape[1] * shape[2]
    props = []
    for _ in range(NCOMP[aniso]):
        sig = [rng.uniform(0.3, 3.0) for _ in range(ncell)]
        props.append([float(v) for v in forward_own(mapping, np.array(sig))])
    nodes = [np.r_[0, np.cumsum(h)] + o for h, o in zip(hs, origin)]

    def inner_point(margin=0.15):
        pt = []
        for d in range(3):
            lo, hi = nodes[d][1], nodes[d][-2]
            a = lo + margin * (hi - lo)
            b = hi - margin * (hi - lo)
            pt.append(float(rng.uniform(a, b)))
        return pt

    def angles():
        k = rng.random()
        if k < 0.2:
            return [0.0, 0.0]
        if k < 0.3:
            return [90.0, 0.0]
        if k < 0.4:
            return [0.0, 90.0]
        return [float(rng.uniform(-180, 180)), float(rng.uniform(-80, 80))]

    n_src = n_src or rng.choice([1, 2, 2])
    n_rec = n_rec or rng.choice([2, 3, 4])
    n_freq = n_freq or rng.choice([1, 2])
    if n_src * n_freq > max_pairs:
        n_freq = max(1, max_pairs // n_src)
    kinds = ['edip_point', 'edip_finite', 'ewire', 'mdip', 'epoint', 'mpoint']
    sources = []
    for k in range(n_src):
        kind = kinds[(idx + 2 * k + rng.randrange(2)) % len(kinds)]
        c = inner_point(0.3)
        if kind in ('edip_point', 'mdip', 'epoint', 'mpoint'):
            sources.append({'kind': kind, 'coo': c + angles(),
                            'strength': float(rng.choice([1.0, 1.0, 2.5]))})
        elif kind == 'edip_finite':
            d = [float(rng.uniform(-40, 40)) for _ in range(3)]
            sources.append({'kind': kind, 'coo': [[c[i] - d[i] for i in range(3)],
                                                  [c[i] + d[i] for i in range(3)]],
                            'strength': 1.0})
        else:
            pts = [[c[i] + float(rng.uniform(-40, 40)) for i in range(3)] for _ in range(3)]
            sources.append({'kind': kind, 'coo': pts, 'strength': 1.0})
    centres = [np.asarray(s_.center, float) for s_ in _mk_sources({'sources': sources})]

    def inside_for_all_sources(pt):
        # a relative receiver moves with the source centre: keep it in the
        # interior (second to second-last cell, with a margin) for every source
        for c_ in centres:
            q = np.asarray(pt[:3]) - centres[0] + c_
            for d in range(3):
                lo, hi = nodes[d][1], nodes[d][-2]
                if not (lo + 0.05 * (hi - lo) <= q[d] <= hi - 0.05 * (hi - lo)):
                    return False
        return True

    receivers = []
    for k in range(n_rec):
        kind = 'm' if (idx + k) % 3 == 1 else 'e'
        rel = bool((idx + k) % 4 == 2)
        pt = inner_point(0.1)
        if rel:
            for _ in range(30):
                if inside_for_all_sources(pt):
                    break
                pt = inner_point(0.25)
            else:
                rel = False
        receivers.append({'kind': kind, 'abs': pt + angles(), 'relative': rel})
    freqs = sorted({float(rng.choice([0.5, 1.0, 2.0, 4.0])) for _ in range(n_freq)})
    noise_mode = ['scalar', 'array_nf', 'array_re', 'std', 'nf_only', 're_only'][idx % 6]
    return {'hx': hs[0], 'hy': hs[1], 'hz': hs[2], 'origin': origin, 'mapping': mapping,
            'aniso': aniso, 'props': props, 'sources': sources, 'receivers': receivers,
            'freqs': freqs, 'noise_mode': noise_mode, 'noise_seed': rng.randrange(2**31),
            'nan_frac': rng.choice([0.0, 0.2, 0.35]), 'obs': None}


def _mk_sources(spec):
    import emg3d
    out = []
    for s in spec['sources']:
        k, c, st = s['kind'], s['coo'], s['strength'] * spec.get('amp_scale', 1.0)
        if k == 'edip_point':
            out.append(emg3d.TxElectricDipole(tuple(c), strength=st, length=1.0))
        elif k == 'edip_finite':
            out.append(emg3d.TxElectricDipole(np.array(c), strength=st))
        elif k == 'ewire':
            out.append(emg3d.TxElectricWire(np.array(c), strength=st))
        elif k == 'mdip':
            out.append(emg3d.TxMagneticDipole(tuple(c), strength=st, length=1.0))
        elif k == 'epoint':
            out.append(emg3d.TxElectricPoint(tuple(c), strength=st))
        elif k == 'mpoint':
            out.append(emg3d.TxMagneticPoint(tuple(c), strength=st))
        else:
            raise ValueError(k)
    return out


def make_grid(spec):
    import emg3d
    return emg3d.TensorMesh([np.array(spec['hx']), np.array(spec['hy']), np.array(spec['hz'])],
                            np.array(spec['origin']))


def make_model(spec, grid, props=None):
    import emg3d
    props = spec['props'] if props is None else props
    shape = grid.shape_cells
    arrs = [np.asarray(p, float).reshape(shape, order='F') for p in props]
    kw = {'property_x': arrs[0], 'mapping': spec['mapping']}
    a = spec['aniso']
    if a == 1:
        kw['property_y'] = arrs[1]
    elif a == 2:
        kw['property_z'] = arrs[1]
    elif a == 3:
        kw['property_y'] = arrs[1]
        kw['property_z'] = arrs[2]
    return emg3d.Model(grid, **kw)


def make_survey(spec):
    import emg3d
    srcs = _mk_sources(spec)
    # relative receivers: offsets from the centre of the FIRST source such that
    # the absolute position (for that source) is the drawn one; for other
    # sources the position shifts with their centre (positions stay interior
    # because all centres lie in the central 40 % of the grid)
    c0 = srcs[0].center
    recs = []
    for r in spec['receivers']:
        coo = list(r['abs'])
        if r['relative']:
            coo = [coo[0] - c0[0], coo[1] - c0[1], coo[2] - c0[2], coo[3], coo[4]]
        cls = emg3d.RxElectricPoint if r['kind'] == 'e' else emg3d.RxMagneticPoint
        recs.append(cls(tuple(coo), relative=r['relative']))
    survey = emg3d.Survey(sources=emg3d.surveys.txrx_lists_to_dict(srcs),
                          receivers=emg3d.surveys.txrx_lists_to_dict(recs),
                          frequencies=list(spec['freqs']))
    return survey


def set_noise(spec, survey, amp):
    """Noise settings; amp = typical |data| per entry (array of survey.shape)."""
    npr = np.random.RandomState(spec['noise_seed'])
    mode = spec['noise_mode']
    ns, nr, nf = survey.shape
    floor = float(np.nanmedian(amp)) * 0.05
    if mode == 'scalar':
        survey.noise_floor = floor
        survey.relative_error = 0.05
    elif mode == 'array_nf':
        survey.noise_floor = floor * npr.uniform(0.5, 2.0, (1, nr, nf))
        survey.relative_error = 0.03
    elif mode == 'array_re':
        survey.noise_floor = floor
        survey.relative_error = npr.uniform(0.02, 0.1, (ns, 1, 1))
    elif mode == 'std':
        survey.standard_deviation = amp * npr.uniform(0.03, 0.2, survey.shape) + floor
    elif mode == 'nf_only':
        survey.noise_floor = floor * npr.uniform(0.5, 2.0, (ns, nr, nf))
    elif mode == 'std_ones':                       # plain unweighted least squares
        survey.standard_deviation = np.ones(survey.shape)
    elif mode == 'std_huge':
        survey.standard_deviation = np.full(survey.shape, 2.0**20)
    elif mode == 'std_decades':                    # weights spanning many decades within one survey
        survey.standard_deviation = 2.0 ** npr.choice([-30, -10, 0, 10, 20, 30], survey.shape)
    else:
        survey.relative_error = 0.07


class Recorder:
    """Context manager recording (input, output) of every in-process call of
    emg3d._multiprocessing.solve."""

    def __init__(self):
        self.calls = []

    def __enter__(self):
        from emg3d import _multiprocessing as mp
        self.mp = mp
        self.orig = mp.solve

        def wrap(inp):
            out = self.orig(inp)
            self.calls.append((inp, out))
            return out
        mp.solve = wrap
        return self

    def __exit__(self, *a):
        self.mp.solve = self.orig


@contextlib.contextmanager
def quiet():
    buf = io.StringIO()
    with contextlib.redirect_stdout(buf), contextlib.redirect_stderr(buf):
        yield


def new_sim(spec, props=None, gridding='same', solver=None, file_dir=None,
            gridding_opts=None, max_workers=1):
    """A FRESH Simulation (own Survey, Model objects) for the given spec."""
    import emg3d
    grid = make_grid(spec)
    model = make_model(spec, grid, props)
    survey = make_survey(spec)
    if spec.get('obs') is not None:
        obs = np.array([[[complex(*z) if z is not None else complex(np.nan, np.nan)
                          for z in row] for row in blk] for blk in spec['obs']])
        survey.data['observed'][...] = obs
        amp = np.abs(np.array(spec['amp']))
        set_noise(spec, survey, amp)
    kw = dict(max_workers=max_workers, gridding=gridding, receiver_interpolation='linear',
              solver_opts=dict(solver or TIGHT), verb=0, tqdm_opts=False)
    if gridding_opts is not None:
        kw['gridding_opts'] = gridding_opts
    if file_dir is not None:
        kw['file_dir'] = file_dir
    try:
        sim = emg3d.Simulation(survey, model, **kw)
    except TypeError:
        kw.pop('tqdm_opts')
        sim = emg3d.Simulation(survey, model, **kw)
    return sim


def add_observed(spec, rng):
    """Fill spec['obs'] / spec['amp']: synthetic data of a perturbed model,
    distorted, with NaN gaps (at least one finite datum per source-frequency)."""
    npr = np.random.RandomState(rng.randrange(2**31))
    true_props = [list(np.asarray(p) * npr.uniform(0.8, 1.25, len(p))
                       if spec['mapping'] in ('Conductivity', 'Resistivity')
                       else np.asarray(p) + npr.uniform(-0.2, 0.2, len(p)))
                  for p in spec['props']]
    sim = new_sim(spec, props=true_props, solver=LOOSE)
    with quiet():
        sim.compute()
    syn = np.array(sim.data.synthetic.data)
    obs = syn * (1 + 0.3 * (npr.standard_normal(syn.shape) + 1j * npr.standard_normal(syn.shape)))
    mask = npr.uniform(size=syn.shape) < spec['nan_frac']
    mask[:, 0, :] = False
    obs[mask] = np.nan + 1j * np.nan
    spec['obs'] = [[[None if np.isnan(z) else [float(z.real), float(z.imag)] for z in row]
                    for row in blk] for blk in obs]
    spec['amp'] = [[[float(abs(z)) for z in row] for row in blk] for blk in syn]
    return spec


SCALE_CLASSES = {
    # name: (amp_scale of the source strengths, noise mode or None = keep)
    'unit_std': (1.0, 'std_ones'),
    'unit_std_tiny_amp': (2.0**-20, 'std_ones'),    # data ~1e-15: weighted residuals << 1e-8
    'huge_std': (1.0, 'std_huge'),
    'tiny_amp_relative': (2.0**-17, None),          # realistic ~1e-13 amplitudes, relative noise
    'huge_amp_unit_std': (2.0**20, 'std_ones'),
    'decades': (1.0, 'std_decades'),
}


def apply_scale_class(spec, name):
    """Set the data/weight scale class of a spec (before add_observed)."""
    amp, mode = SCALE_CLASSES[name]
    spec['amp_scale'] = amp
    if mode is not None:
        spec['noise_mode'] = mode
    spec['scale_class'] = name
    return spec


def brief(spec):
    return {'shape': [len(spec['hx']), len(spec['hy']), len(spec['hz'])],
            'mapping': spec['mapping'], 'aniso': CASES[spec['aniso']],
            'sources': [s['kind'] for s in spec['sources']],
            'receivers': [r['kind'] + ('-rel' if r['relative'] else '') for r in spec['receivers']],
            'freqs': spec['freqs'], 'noise': spec['noise_mode'],
            'scale': spec.get('scale_class', 'default'),
            'nan': sum(z is None for b in (spec['obs'] or []) for r in b for z in r)}


# ----------------------------------------------------------- Coq literals
def kq(z):
    """complex rational literal for Cx Q."""
    z = complex(z)
    a, b = fractions.Fraction(z.real), fractions.Fraction(z.imag)
    return f"(cq ({a.numerator}) {a.denominator} ({b.numerator}) {b.denominator})"


def klist(vals):
    return '[' + '; '.join(kq(v) for v in vals) + ']'


def karr3(a):
    """3-D numpy array -> arr3_of literal over Cx Q."""
    a = np.asarray(a)
    rows = []
    for i in range(a.shape[0]):
        rows.append('[' + '; '.join('[' + '; '.join(kq(x) for x in a[i, j]) + ']'
                                    for j in range(a.shape[1])) + ']')
    return "(arr3_of (0%Q, 0%Q) [" + ';\n '.join(rows) + "])"


def kfield3(f):
    """emg3d Field -> triple of arr3_of literals."""
    return f"({karr3(f.fx)}, {karr3(f.fy)}, {karr3(f.fz)})"


HEADER = """From Coq Require Import ZArith QArith List Bool.
From V Require Import Base.Loops Base.Arr Base.FieldSig Base.ExecQ Base.Sums.
From V Require Import Model.FIT Gen.MapsVol Model.Adjoint.
Import ListNotations.
Set Printing Width 1000000.
Set Printing Depth 10000000.
Local Open Scope Z_scope.
Definition cj (z : Q * Q) : Q * Q := (fst z, Qopp (snd z)).
Definition lk (l : list (Q * Q)) : Z -> Q * Q := arr_of_list (0%Q, 0%Q) l.
Definition lkb (l : list bool) : Z -> bool := arr_of_list false l.
Definition lkr (l : list (list (Q * Q))) : Z -> Z -> Q * Q :=
  fun j => arr_of_list (0%Q, 0%Q) (arr_of_list [] l j).
"""


def parse_c(ans):
    return [complex(float(a), float(b)) for a, b in V.parse_cpairs(ans)]


def rel_close(impl, model, scale, rtol=1e-9):
    return abs(complex(impl) - complex(model)) <= rtol * max(scale, abs(complex(model)), 1e-300)


def unit_rows(sim, src_name, freq_name):
    """Sampling rows p_j of all receivers for one source-frequency pair: the
    unit-strength adjoint source vector divided by (-smu0).  (Oracle input of
    the model; that <p_j, e> IS the receiver response is checked numerically.)"""
    survey = sim.survey
    src = survey.sources[src_name]
    f = survey.frequencies[freq_name]
    grid = sim.get_grid(src_name, freq_name)
    rows = []
    for rec in survey.receivers.values():
        coo = rec.coordinates_abs(src)
        a = rec._adjoint_source(coo, strength=1.0).get_field(grid=grid, frequency=f)
        rows.append(np.array(a.field) / (-a.smu0))
    return rows


# -------------------------------------------- computational grid /= model grid
def comp_grid(spec, npr):
    """A tiny computational grid that differs from the model grid: its interior
    (second to second-last cell) covers the interior of the model grid (where
    all sources and receivers live), its nodes are not aligned with the model
    grid, and it extends beyond it (volume averaging extrapolates)."""
    import emg3d
    hs, org = [], []
    for h, o in zip((spec['hx'], spec['hy'], spec['hz']), spec['origin']):
        nodes = np.r_[0.0, np.cumsum(h)] + o
        a = nodes[0] + npr.uniform(0.1, 0.9) * (nodes[1] - nodes[0])
        b = nodes[-2] + npr.uniform(0.1, 0.9) * (nodes[-1] - nodes[-2])
        nin = npr.randint(2, 4)                       # 2-3 interior cells
        cuts = np.sort(npr.uniform(0.25, 0.75, nin - 1)) if nin == 2 else \
            np.array([npr.uniform(0.2, 0.45), npr.uniform(0.55, 0.8)])
        inner = a + np.r_[0.0, cuts, 1.0] * (b - a)
        p1, p2 = npr.uniform(150, 350, 2)
        nd = np.r_[a - p1, inner, b + p2]
        nd = np.round(nd * 8) / 8                      # dyadic nodes
        hs.append(np.diff(nd))
        org.append(nd[0])
    return emg3d.TensorMesh(hs, np.array(org))


def vt_entries(mgrid, cgrid):
    """Non-zero entries of discretize's volume_average(model grid, comp. grid)
    (the matrix whose transpose _interp_volume_average_adj applies), as
    ((model cell), (comp cell), weight) with 3-D F-order indices."""
    import discretize
    P = discretize.utils.volume_average(mgrid, cgrid).tocoo()
    ms, cs = mgrid.shape_cells, cgrid.shape_cells
    out = []
    for r, c, w in zip(P.row, P.col, P.data):
        if w == 0.0:
            continue
        out.append((np.unravel_index(int(c), ms, order='F'),
                    np.unravel_index(int(r), cs, order='F'), float(w)))
    return out


def kentries(ent):
    return '[' + '; '.join(
        f"(({m[0]}, {m[1]}, {m[2]}), ({c[0]}, {c[1]}, {c[2]}), {kq(w)})" for m, c, w in ent) + ']'


def np_volavg_edges(g, vol):
    """numpy mirror of interp_edges_to_vol_averages (validated against the Coq
    model in the same run): returns (3, nx, ny, nz)."""
    gx, gy, gz = g
    nx, ny, nz = vol.shape
    o = np.zeros((3, nx, ny, nz))

    def pad2(a, ax):
        # edges -> cells along axis `ax`: cell j gets edge j and j+1; boundary edges twice
        lo = np.take(a, range(0, a.shape[ax] - 1), axis=ax)
        hi = np.take(a, range(1, a.shape[ax]), axis=ax)
        s = lo + hi
        first = [slice(None)] * 3
        first[ax] = 0
        last = [slice(None)] * 3
        last[ax] = -1
        s[tuple(first)] += np.take(a, 0, axis=ax)
        s[tuple(last)] += np.take(a, a.shape[ax] - 1, axis=ax)
        return s
    o[0] = pad2(pad2(gx, 1), 2) * vol / 4
    o[1] = pad2(pad2(gy, 0), 2) * vol / 4
    o[2] = pad2(pad2(gz, 0), 1) * vol / 4
    return o


def np_pipeline(aniso, mshape, pairs, chains):
    """numpy mirror of Model/Adjoint.v gradient_pipeline_T.
    pairs: list of (smu0, efield, bfield, vol3d, entries or None)."""
    acc = np.zeros((3, *mshape))
    for smu0, e, b, vol, ent in pairs:
        g = [np.real(getattr(b, 'f' + c) * smu0 * getattr(e, 'f' + c)) for c in 'xyz']
        gc = np_volavg_edges(g, vol)
        if ent is None:
            acc += gc
        else:
            for m, c, w in ent:
                acc[:, m[0], m[1], m[2]] += w * gc[:, c[0], c[1], c[2]]
    cx, cy, cz = chains
    hy, hz = aniso in (1, 3), aniso in (2, 3)
    g0 = acc[0].copy()
    if not hy:
        g0 += acc[1]
    if not hz:
        g0 += acc[2]
    out = [g0 * cx]
    if hy:
        out.append(acc[1] * cy)
    if hz:
        out.append(acc[2] * cz)
    return np.array(out)


def np_me(w, axis):
    """Four-cell edge average (Model/FIT.v Me_x/_y/_z, lower index clamped) of a
    cell array, for the edges along `axis`; upper out-of-range cells repeat the
    last one (they only meet zero PEC field values)."""
    pads = [(1, 1)] * 3
    pads[axis] = (0, 0)
    wp = np.pad(w, pads, mode='edge')
    sl = [slice(None)] * 3
    t1, t2 = [a for a in range(3) if a != axis]

    def part(o1, o2):
        s = list(sl)
        s[t1] = slice(0, -1) if o1 == 0 else slice(1, None)
        s[t2] = slice(0, -1) if o2 == 0 else slice(1, None)
        return wp[tuple(s)]
    return (part(0, 0) + part(0, 1) + part(1, 0) + part(1, 1)) / 4


def np_jvec_source(aniso, e, smu0, vol, ent, v4, chains):
    """numpy mirror of Model/Adjoint.v jvec_source_T (ent=None: same grid):
    chain factor on the MODEL grid, then the volume-average matrix, stacking,
    -smu0 * e * Me(vol * dsigma).  Returns (fx, fy, fz)."""
    cx, cy, cz = chains
    if aniso == 0:
        cm = [v4[0] * cx]
    elif aniso == 1:
        cm = [v4[0] * cx, v4[1] * cy]
    elif aniso == 2:
        cm = [v4[0] * cx, v4[1] * cz]
    else:
        cm = [v4[0] * cx, v4[1] * cy, v4[2] * cz]
    if ent is not None:
        cc = []
        for a in cm:
            o = np.zeros(vol.shape)
            for m, c, w in ent:
                o[c[0], c[1], c[2]] += w * a[m[0], m[1], m[2]]
            cc.append(o)
    else:
        cc = cm
    if aniso == 0:
        tri = (cc[0], cc[0], cc[0])
    elif aniso == 1:
        tri = (cc[0], cc[1], cc[0])
    elif aniso == 2:
        tri = (cc[0], cc[0], cc[1])
    else:
        tri = tuple(cc)
    return tuple(-smu0 * getattr(e, 'f' + 'xyz'[a]) * np_me(vol * tri[a], a) for a in range(3))

