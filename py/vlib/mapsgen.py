"""C14: fail-closed extraction of the six Map* classes of emg3d/maps.py.

For each class the bodies of forward / backward / derivative_chain are read
with `ast` and turned into a small expression tree over ONE real variable:

    ('var',) | ('const', Fraction) | ('add'|'sub'|'mul'|'div', a, b)
    | ('neg', a) | ('sq', a) | ('powc', Fraction c, e)   -- c**e, c > 0 literal
    | ('log10', a) | ('ln', a) | ('exp', a) | ('backward', a)

The same tree is (i) printed as a Coq function over R (np.log10 x -> ln x/ln 10,
c**e -> exp (e * ln c)), (ii) printed as a function over an abstract FOps field
when it is rational (executable twin on Q), (iii) evaluated in Python with
`math` functions (evaluate) -- so the correspondence compares the
implementation against the very expression the theorems are about.

derivative_chain(self, gradient, mapped) must be `pass` (factor 1) or the single
statement `gradient *= <expr in mapped>`; the factor is the extracted function.
Anything else raises MapsUntranslatable.
"""
import ast
import fractions
import math
import os

EXPECTED = ['MapConductivity', 'MapLgConductivity', 'MapLnConductivity',
            'MapResistivity', 'MapLgResistivity', 'MapLnResistivity']
METHODS = {'forward': ['self', 'conductivity'], 'backward': ['self', 'mapped'],
           'derivative_chain': ['self', 'gradient', 'mapped']}


class MapsUntranslatable(Exception):
    pass


def _fail(node, what):
    raise MapsUntranslatable(f"maps.py:{getattr(node, 'lineno', '?')}: {what}")


def _const(node):
    if isinstance(node, ast.Constant) and type(node.value) in (int, float):
        v = node.value
        if v != v or v in (float('inf'), float('-inf')):
            _fail(node, 'non-finite literal')
        return fractions.Fraction(v)
    return None


def _expr(node, var):
    c = _const(node)
    if c is not None:
        return ('const', c)
    if isinstance(node, ast.Name):
        if node.id == var:
            return ('var',)
        _fail(node, f'name {node.id!r} (only {var!r} may occur)')
    if isinstance(node, ast.UnaryOp):
        if isinstance(node.op, ast.USub):
            return ('neg', _expr(node.operand, var))
        if isinstance(node.op, ast.UAdd):
            return _expr(node.operand, var)
        _fail(node, 'unary operator')
    if isinstance(node, ast.BinOp):
        ops = {ast.Add: 'add', ast.Sub: 'sub', ast.Mult: 'mul', ast.Div: 'div'}
        for k, v in ops.items():
            if isinstance(node.op, k):
                return (v, _expr(node.left, var), _expr(node.right, var))
        if isinstance(node.op, ast.Pow):
            base, ex = _const(node.left), _const(node.right)
            if base is not None and base > 0:
                return ('powc', base, _expr(node.right, var))
            if ex is not None and ex == 2:
                return ('sq', _expr(node.left, var))
            _fail(node, '** other than <positive literal>**e or e**2')
        _fail(node, 'binary operator')
    if isinstance(node, ast.Call):
        if node.keywords or len(node.args) != 1:
            _fail(node, 'call with keywords / not exactly one argument')
        f = node.func
        if (isinstance(f, ast.Attribute) and isinstance(f.value, ast.Name)):
            if f.value.id == 'np' and f.attr in ('log10', 'log', 'exp'):
                tag = {'log10': 'log10', 'log': 'ln', 'exp': 'exp'}[f.attr]
                return (tag, _expr(node.args[0], var))
            if f.value.id == 'self' and f.attr == 'backward':
                return ('backward', _expr(node.args[0], var))
        _fail(node, 'call (only np.log10, np.log, np.exp, self.backward)')
    _fail(node, type(node).__name__)


def _body(fn):
    """Statements of a method without docstring."""
    body = list(fn.body)
    if (body and isinstance(body[0], ast.Expr) and isinstance(body[0].value, ast.Constant)
            and isinstance(body[0].value.value, str)):
        body = body[1:]
    return body


def _method(cls, name):
    fns = [n for n in cls.body if isinstance(n, ast.FunctionDef) and n.name == name]
    if len(fns) != 1:
        _fail(cls, f'{cls.name}.{name}: expected exactly one definition')
    fn = fns[0]
    a = fn.args
    if (fn.decorator_list or a.vararg or a.kwarg or a.kwonlyargs or a.defaults
            or a.posonlyargs or [x.arg for x in a.args] != METHODS[name]):
        _fail(fn, f'{cls.name}.{name}: unexpected signature')
    return fn


def extract_class(cls):
    out = {}
    for name in ('forward', 'backward'):
        fn = _method(cls, name)
        body = _body(fn)
        if len(body) != 1 or not isinstance(body[0], ast.Return) or body[0].value is None:
            _fail(fn, f'{cls.name}.{name}: body must be a single `return <expr>`')
        out[name] = _expr(body[0].value, METHODS[name][1])
    fn = _method(cls, 'derivative_chain')
    body = _body(fn)
    if len(body) == 1 and isinstance(body[0], ast.Pass):
        out['chain'] = ('const', fractions.Fraction(1))
    elif (len(body) == 1 and isinstance(body[0], ast.AugAssign)
          and isinstance(body[0].op, ast.Mult)
          and isinstance(body[0].target, ast.Name) and body[0].target.id == 'gradient'):
        out['chain'] = _expr(body[0].value, 'mapped')
    else:
        _fail(fn, f'{cls.name}.derivative_chain: body must be `pass` or `gradient *= <expr>`')
    # other members of the class: only __init__ (description) is allowed
    for n in cls.body:
        if isinstance(n, ast.FunctionDef):
            if n.name not in ('__init__', 'forward', 'backward', 'derivative_chain'):
                _fail(n, f'{cls.name}: unexpected method {n.name}')
        elif not (isinstance(n, ast.Expr) and isinstance(n.value, ast.Constant)):
            _fail(n, f'{cls.name}: unexpected class-level statement')
    if [getattr(b, 'id', None) for b in cls.bases] != ['BaseMap']:
        _fail(cls, f'{cls.name}: base class is not BaseMap')
    return out


def extract(repo):
    """{short name: {'forward': tree, 'backward': tree, 'chain': tree}} for the
    six maps, in source order.  Raises MapsUntranslatable."""
    src = open(os.path.join(repo, 'emg3d', 'maps.py')).read()
    mod = ast.parse(src)
    classes = [n for n in mod.body if isinstance(n, ast.ClassDef) and n.name.startswith('Map')]
    names = [c.name for c in classes]
    if sorted(names) != sorted(EXPECTED):
        raise MapsUntranslatable(f"maps.py: Map classes are {names}, expected {EXPECTED}")
    return {c.name[3:]: extract_class(c) for c in classes}


# ------------------------------------------------------------------ printing
def rational(t):
    if t[0] in ('var', 'const'):
        return True
    if t[0] in ('log10', 'ln', 'exp', 'powc'):
        return False
    return all(rational(x) for x in t[1:] if isinstance(x, tuple))


def _qlit(c):
    if c.denominator == 1:
        return f"({c.numerator})" if c.numerator < 0 else f"{c.numerator}"
    return f"({c.numerator} / {c.denominator})"


def coq_R(t, name, bw_rational=None):
    k = t[0]
    r = (lambda x: coq_R(x, name))
    if k == 'var':
        return 'x'
    if k == 'const':
        return _qlit(t[1])
    if k in ('add', 'sub', 'mul', 'div'):
        op = {'add': '+', 'sub': '-', 'mul': '*', 'div': '/'}[k]
        return f"({r(t[1])} {op} {r(t[2])})"
    if k == 'neg':
        return f"(- {r(t[1])})"
    if k == 'sq':
        return f"({r(t[1])} * {r(t[1])})"
    if k == 'powc':
        return f"(exp ({r(t[2])} * ln {_qlit(t[1])}))"
    if k == 'log10':
        return f"(ln {r(t[1])} / ln 10)"
    if k == 'ln':
        return f"(ln {r(t[1])})"
    if k == 'exp':
        return f"(exp {r(t[1])})"
    if k == 'backward':
        return f"(backward_{name} {r(t[1])})"
    raise MapsUntranslatable('internal: ' + k)


def coq_F(t, name):
    k = t[0]
    r = (lambda x: coq_F(x, name))
    if k == 'var':
        return 'x'
    if k == 'const':
        return f"(Flit ({t[1].numerator}) {t[1].denominator})"
    if k in ('add', 'sub', 'mul', 'div'):
        op = {'add': '+', 'sub': '-', 'mul': '*', 'div': '/'}[k]
        return f"({r(t[1])} {op} {r(t[2])})"
    if k == 'neg':
        return f"(- {r(t[1])})"
    if k == 'sq':
        return f"({r(t[1])} * {r(t[1])})"
    if k == 'backward':
        return f"(backwardF_{name} {r(t[1])})"
    raise MapsUntranslatable('internal: not rational ' + k)


def evaluate(t, x, maps_entry):
    """Python-side evaluation of the extracted tree with math functions."""
    k = t[0]
    e = (lambda s: evaluate(s, x, maps_entry))
    if k == 'var':
        return x
    if k == 'const':
        return float(t[1])
    if k == 'add':
        return e(t[1]) + e(t[2])
    if k == 'sub':
        return e(t[1]) - e(t[2])
    if k == 'mul':
        return e(t[1]) * e(t[2])
    if k == 'div':
        return e(t[1]) / e(t[2])
    if k == 'neg':
        return -e(t[1])
    if k == 'sq':
        v = e(t[1])
        return v * v
    if k == 'powc':
        return math.exp(e(t[2]) * math.log(float(t[1])))
    if k == 'log10':
        return math.log(e(t[1])) / math.log(10.0)
    if k == 'ln':
        return math.log(e(t[1]))
    if k == 'exp':
        return math.exp(e(t[1]))
    if k == 'backward':
        return evaluate(maps_entry['backward'], e(t[1]), maps_entry)
    raise MapsUntranslatable('internal: ' + k)


def coq_text(maps):
    L = ["(* Gen/MapsMap.v -- GENERATED on every run from emg3d/maps.py by",
         "   py/vlib/mapsgen.py (do not edit).  forward / backward / chain factor of",
         "   the six Map* classes as functions over R; rational ones also over FOps. *)",
         "From Coq Require Import Reals ZArith.",
         "From V Require Import Base.FieldSig.",
         "",
         "Section MapsR.",
         "Local Open Scope R_scope.", ""]
    for name in [n[3:] for n in EXPECTED]:
        m = maps[name]
        L.append(f"Definition backward_{name} (x : R) : R := {coq_R(m['backward'], name)}.")
        L.append(f"Definition forward_{name} (x : R) : R := {coq_R(m['forward'], name)}.")
        L.append(f"Definition chain_{name} (x : R) : R := {coq_R(m['chain'], name)}.")
        L.append("")
    L += ["End MapsR.", "", "Section MapsF.", "Context {F : Type} {O : FOps F}.",
          "Local Open Scope F_scope.", ""]
    for name in [n[3:] for n in EXPECTED]:
        m = maps[name]
        if all(rational(m[k]) for k in ('forward', 'backward', 'chain')):
            L.append(f"Definition backwardF_{name} (x : F) : F := {coq_F(m['backward'], name)}.")
            L.append(f"Definition forwardF_{name} (x : F) : F := {coq_F(m['forward'], name)}.")
            L.append(f"Definition chainF_{name} (x : F) : F := {coq_F(m['chain'], name)}.")
            L.append("")
    L += ["End MapsF.", ""]
    return '\n'.join(L)


def rational_maps(maps):
    return [n for n, m in maps.items()
            if all(rational(m[k]) for k in ('forward', 'backward', 'chain'))]


def generate(repo, coq_dir):
    maps = extract(repo)
    text = coq_text(maps)
    path = os.path.join(coq_dir, 'Gen', 'MapsMap.v')
    old = open(path).read() if os.path.exists(path) else None
    if old != text:
        os.makedirs(os.path.dirname(path), exist_ok=True)
        with open(path, 'w') as f:
            f.write(text)
    return maps
