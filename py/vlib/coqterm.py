"""Reader for Coq terms printed by `Eval vm_compute` (constructor applications,
records, lists, tuples, strings, integers, options).  Result:
  "text"            -> python str
  123 / (-4)        -> int
  [a; b]            -> list
  (a, b, c)         -> tuple (flattened left-nested pairs)
  C a b             -> ('C', a, b);   a bare constructor C -> ('C',)
  {| f := a; .. |}  -> dict
"""
import re

_TOK = re.compile(r'''\s*(?:
    (?P<str>"(?:[^"]|"")*")
  | (?P<num>-?\d+)(?:%[A-Za-z]+)?
  | (?P<id>[A-Za-z_][\w.']*)
  | (?P<p>\{\||\|\}|:=|[()\[\];,])
)''', re.X)


def tokens(s):
    pos, out = 0, []
    s = s.rstrip()
    while pos < len(s):
        m = _TOK.match(s, pos)
        if not m:
            raise ValueError('cannot tokenise Coq output at: ' + s[pos:pos + 40])
        pos = m.end()
        if m.group('str') is not None:
            out.append(('s', m.group('str')[1:-1].replace('""', '"')))
        elif m.group('num') is not None:
            out.append(('n', int(m.group('num'))))
        elif m.group('id') is not None:
            out.append(('i', m.group('id')))
        else:
            out.append(('p', m.group('p')))
    return out


class _P:
    def __init__(self, toks):
        self.t, self.i = toks, 0

    def peek(self):
        return self.t[self.i] if self.i < len(self.t) else (None, None)

    def eat(self, kind=None, val=None):
        k, v = self.peek()
        if (kind and k != kind) or (val is not None and v != val):
            raise ValueError(f'expected {kind} {val}, got {k} {v}')
        self.i += 1
        return v

    def atom(self):
        k, v = self.peek()
        if k in ('s', 'n'):
            self.i += 1
            return v
        if k == 'i':
            self.i += 1
            return (v,)
        if (k, v) == ('p', '('):
            self.i += 1
            items = [self.term()]
            while self.peek() == ('p', ','):
                self.i += 1
                items.append(self.term())
            self.eat('p', ')')
            if len(items) == 1:
                return items[0]
            return tuple(items)
        if (k, v) == ('p', '['):
            self.i += 1
            items = []
            if self.peek() != ('p', ']'):
                items.append(self.term())
                while self.peek() == ('p', ';'):
                    self.i += 1
                    items.append(self.term())
            self.eat('p', ']')
            return items
        if (k, v) == ('p', '{|'):
            self.i += 1
            d = {}
            while self.peek() != ('p', '|}'):
                name = self.eat('i')
                self.eat('p', ':=')
                d[name] = self.term()
                if self.peek() == ('p', ';'):
                    self.i += 1
            self.eat('p', '|}')
            return d
        raise ValueError(f'unexpected token {k} {v}')

    def term(self):
        k, v = self.peek()
        if k == 'i':
            self.i += 1
            args = []
            while True:
                k2, v2 = self.peek()
                if k2 in ('s', 'n', 'i') or (k2 == 'p' and v2 in ('(', '[', '{|')):
                    args.append(self.atom())
                else:
                    break
            return (v, *args)
        return self.atom()


def parse(s):
    p = _P(tokens(s))
    t = p.term()
    if p.i != len(p.t):
        raise ValueError('trailing tokens in Coq output')
    return t
