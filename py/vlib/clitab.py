"""Option tables of the emg3d command-line front end, extracted from the CURRENT
sources (property C18).  Everything here reads source text with `ast`/regular
expressions or asks `inspect` for a signature; nothing is hard-coded except the
shapes that are recognised.  Unknown shapes raise (fail closed).

  parser.py  -> parser_table, defaults, term overrides, rejecting sections,
                 dict nesting, section order, files keys
  cli.rst    -> documented sections / keys / types / "Also via" flags
  main.py    -> argparse arguments (flags, dest)
  run.py     -> which parsed dict is routed to which API call, which [files] /
                 [data] keys are read, key translations applied before the call
  emg3d API  -> accepted keyword sets (inspect.signature + explicit key lists)
"""
import ast
import os
import re

TY = ('TBool', 'TInt', 'TFloat', 'TStr', 'TFloatList', 'TLoL', 'TStrList')


class Shape(Exception):
    """The source no longer has the shape the extractor understands."""


def _src(repo, rel):
    with open(os.path.join(repo, rel)) as f:
        return f.read()


def _func(tree, name, cls=None):
    body = tree.body
    if cls:
        for n in body:
            if isinstance(n, ast.ClassDef) and n.name == cls:
                body = n.body
                break
        else:
            raise Shape(f'class {cls} not found')
    for n in body:
        if isinstance(n, ast.FunctionDef) and n.name == name:
            return n
    raise Shape(f'function {name} not found')


def _const_str(n):
    return n.value if isinstance(n, ast.Constant) and isinstance(n.value, str) else None


def _str_list(n):
    if isinstance(n, (ast.List, ast.Tuple)) and all(_const_str(e) is not None for e in n.elts):
        return [e.value for e in n.elts]
    return None


# ---------------------------------------------------------------- parser.py
def _is_cfg_call(n, meth=None):
    return (isinstance(n, ast.Call) and isinstance(n.func, ast.Attribute)
            and isinstance(n.func.value, ast.Name) and n.func.value.id == 'cfg'
            and (meth is None or n.func.attr == meth))


def _cfg_get_calls(expr):
    return [n for n in ast.walk(expr)
            if _is_cfg_call(n) and n.func.attr in ('get', 'getint', 'getfloat', 'getboolean')]


def _classify(value, body_stmts):
    """Type of the reader in `D[key] = value`."""
    calls = _cfg_get_calls(value)
    if _is_cfg_call(value, 'getboolean'):
        return 'TBool'
    if _is_cfg_call(value, 'getint'):
        return 'TInt'
    if _is_cfg_call(value, 'getfloat'):
        return 'TFloat'
    if _is_cfg_call(value, 'get'):
        return 'TStr'
    if (isinstance(value, ast.Call) and isinstance(value.func, ast.Name)
            and value.func.id == 'float' and len(value.args) == 1
            and _is_cfg_call(value.args[0], 'get')):
        return 'TFloat'
    if isinstance(value, ast.ListComp) and calls:
        elt = value.elt
        if (isinstance(elt, ast.Call) and isinstance(elt.func, ast.Name)
                and elt.func.id == 'float'):
            src = ast.unparse(value.generators[0].iter)
            if src.endswith(".split(',')"):
                return 'TFloatList'
    raise Shape('unrecognised reader: ' + ast.unparse(value))


class _ParserWalk:
    def __init__(self, fn):
        self.fn = fn
        self.entries = []        # (sec, key, ty, dictvar)
        self.defaults = []       # (dictvar, key, text, when)
        self.term_over = []      # (dest, dictvar, key)
        self.rejecting = []      # sections with `if all_X: raise TypeError`
        self.allvar = {}         # all_X -> section
        self.lists = {}          # name -> [str]
        self.parent = {}         # dictvar -> (parentvar, key)
        self.roots = {}          # dictvar -> top-level key of the result
        self.term_popped = []    # terminal keys the parser consumes
        self.files_keys = None   # ordered keys of the files default dict
        self.files_defaults = {}
        self.files_removed = []
        self.files_added = []
        self.section_order = []
        self.walk(fn.body, keys=None, guard=None)

    # guard: (sec, has_option?) context
    def walk(self, stmts, keys, guard, in_else_of=None, when=None):
        for st in stmts:
            self.stmt(st, keys, guard, in_else_of, when)
            if (isinstance(st, ast.Assign) and len(st.targets) == 1
                    and isinstance(st.targets[0], ast.Name) and st.targets[0].id == 'key'):
                k = _const_str(st.value)
                if k is None:
                    raise Shape('key = <non-constant>')
                keys = [k]

    def stmt(self, st, keys, guard, in_else_of, when):
        if isinstance(st, ast.Assign) and len(st.targets) == 1:
            t, v = st.targets[0], st.value
            if isinstance(t, ast.Name):
                sl = _str_list(v)
                if sl is not None:
                    self.lists[t.id] = sl
                # all_X = dict(cfg.items('sec'))
                if (isinstance(v, ast.Call) and isinstance(v.func, ast.Name) and v.func.id == 'dict'
                        and v.args and _is_cfg_call(v.args[0], 'items')):
                    sec = _const_str(v.args[0].args[0])
                    self.allvar[t.id] = sec
                    if sec not in self.section_order:
                        self.section_order.append(sec)
                if t.id == 'files' and isinstance(v, ast.Dict):
                    self.files_keys = [_const_str(k) for k in v.keys]
                    for k, val in zip(v.keys, v.values):
                        if not isinstance(val, ast.Constant):
                            raise Shape('files default not constant')
                        self.files_defaults[k.value] = val.value
                if t.id == 'out' and isinstance(v, ast.Dict) and not self.roots:
                    for k, val in zip(v.keys, v.values):
                        if isinstance(val, ast.Name):
                            self.roots[val.id] = _const_str(k)
                # path = term.pop('path') ; cache = files.pop('cache')
                self._pops(v)
                return
            if isinstance(t, ast.Subscript) and isinstance(t.value, ast.Name):
                d = t.value.id
                sub = t.slice
                if isinstance(sub, ast.Name) and sub.id == 'key':
                    self.assign_key(d, v, keys, st, when)
                    return
                ks = _const_str(sub)
                if ks is not None:
                    if isinstance(v, ast.Name) and d not in ('term', 'files'):
                        self.parent[v.id] = (d, ks)      # simulation['solver_opts'] = solver
                    if d == 'files' and ks not in (self.files_keys or []):
                        self.files_added.append(ks)
                    if d == 'files' and isinstance(v, ast.Name) and v.id == 'cache':
                        pass
                    return
            self._pops(v)
            return
        if isinstance(st, ast.For):
            it = st.iter
            ks = _str_list(it)
            if ks is None and isinstance(it, ast.Name):
                ks = self.lists.get(it.id)
            if isinstance(st.target, ast.Name) and st.target.id == 'key':
                if ks is None:
                    raise Shape('for key in <unknown list>')
                # terminal keys: term[key] = args_dict.pop(key)
                src = ast.unparse(st)
                if 'args_dict.pop(key)' in src:
                    self.term_popped += ks
                self.walk(st.body, ks, (guard or []) + ['for key in ...'], None, when)
                return
            if (isinstance(st.target, ast.Tuple) and isinstance(it, ast.Call)
                    and ast.unparse(it) == 'files.items()'):
                if self.files_keys is None:
                    raise Shape('files loop before files dict')
                src = ast.unparse(st)
                if 'fname = term.pop(key)' not in src or 'all_files.pop(key, value)' not in src:
                    raise Shape('files loop changed')
                for k in self.files_keys:
                    self.term_over.append((k, 'files', k))
                return
            if 'cfg.get' in ast.unparse(st.iter):
                return                        # inner loop of the list-of-lists reader
            raise Shape('unrecognised for loop: ' + ast.unparse(st)[:80])
        if isinstance(st, ast.If):
            test = st.test
            tsrc = ast.unparse(test)
            # unknown-key rejection
            if isinstance(test, ast.Name) and test.id in self.allvar or tsrc == 'all_files':
                if any(isinstance(b, ast.Raise) and 'TypeError' in ast.unparse(b) for b in st.body):
                    sec = 'files' if tsrc == 'all_files' else self.allvar[test.id]
                    # The model (Model/Cli.v parse_section) rejects a section with leftover keys
                    # UNCONDITIONALLY.  A rejection that only runs under some other condition
                    # (e.g. `if solver: if all_solver: raise ..`: skipped when no documented option
                    # was recognised) is not that behaviour: fail closed.
                    if guard:
                        raise Shape(f'unknown-key rejection of [{sec}] is only executed under '
                                    f'the condition(s) {guard}')
                    if not isinstance(st.body[0], ast.Raise) or st.orelse:
                        raise Shape(f'unknown-key rejection of [{sec}]: unexpected shape')
                    self.rejecting.append(sec)
                    return
            # conditions a rejection below would depend on; `'sec' in cfg.sections()` is the
            # section guard itself (no section, no keys) and does not count
            if re.fullmatch(r"'\w+' in cfg\.sections\(\)", tsrc):
                g_body = g_else = guard
            else:
                g_body = (guard or []) + [tsrc[:60]]
                g_else = (guard or []) + ['not (' + tsrc[:60] + ')']
            m = re.fullmatch(r"term\['function'\] == '(\w+)'", tsrc)
            if m:
                self.walk(st.body, keys, g_body, in_else_of, m.group(1))
                self.walk(st.orelse, keys, g_else, in_else_of, when)
                return
            self.walk(st.body, keys, g_body, in_else_of, when)
            self.walk(st.orelse, keys, g_else, in_else_of, when)
            return
        if isinstance(st, (ast.With,)):
            self.walk(st.body, keys, guard, in_else_of, when)
            return
        if isinstance(st, ast.Expr):
            self._pops(st.value)
            return
        if isinstance(st, ast.Return):
            # an early return would skip the unknown-key checks of the sections below it
            if guard or st is not self.fn.body[-1]:
                raise Shape('parse_config_file returns before its last statement')
            return
        if isinstance(st, (ast.Raise, ast.Delete, ast.Continue, ast.Pass)):
            return
        raise Shape('unrecognised statement: ' + ast.unparse(st)[:80])

    def _pops(self, v):
        for n in ast.walk(v):
            if (isinstance(n, ast.Call) and isinstance(n.func, ast.Attribute)
                    and n.func.attr == 'pop' and isinstance(n.func.value, ast.Name)):
                who = n.func.value.id
                k = _const_str(n.args[0]) if n.args else None
                if who == 'args_dict' and k:
                    self.term_popped.append(k)
                if who == 'files' and k:
                    self.files_removed.append(k)
                if who == 'term' and k == 'path':
                    self.term_over.append(('path', 'files', 'path'))

    def assign_key(self, d, v, keys, st, when):
        if keys is None:
            raise Shape('D[key] = ... without a known key')
        calls = _cfg_get_calls(v)
        if calls:
            sec = _const_str(calls[0].args[0])
            ty = _classify(v, None)
            for k in keys:
                self.entries.append((sec, k, ty, d))
            return
        if isinstance(v, ast.Name) and v.id == 'out':
            # list-of-lists reader: grid[key] = out
            for k in keys:
                self.entries.append((self._lol_sec, k, 'TLoL', d))
            return
        if isinstance(v, ast.ListComp) and "value.split(',')" in ast.unparse(v) \
                and 'strip()' in ast.unparse(v):
            for k in keys:
                self.entries.append((self._cur_all_sec, k, 'TStrList', d))
            return
        c = _const_str(v)
        if c is not None:
            for k in keys:
                self.defaults.append((d, k, c, when))
            return
        src = ast.unparse(v)
        m = re.fullmatch(r"term\['(\w+)'\]", src)
        if m:
            for k in keys:
                self.term_over.append((m.group(1), d, k))
            return
        if src == 'term[key]':
            for k in keys:
                self.term_over.append((k, d, k))
            return
        if d == 'term':
            return
        raise Shape(f'unrecognised value for {d}[key]: {src[:80]}')


def parser_tables(repo):
    tree = ast.parse(_src(repo, 'emg3d/cli/parser.py'))
    fn = _func(tree, 'parse_config_file')
    # two readers need the section from context: find it textually first
    w = _ParserWalk.__new__(_ParserWalk)
    src = ast.unparse(fn)
    m = re.search(r"for p in cfg\.get\('(\w+)', key\)\.split\(';'\)", src)
    w._lol_sec = m.group(1) if m else None
    m = re.search(r"value = (all_\w+)\.pop\(key, False\)", src)
    w._cur_all_var = m.group(1) if m else None
    m2 = re.search(r"%s = dict\(cfg\.items\('(\w+)'\)\)" % (w._cur_all_var or 'all_data'), src)
    w._cur_all_sec = m2.group(1) if m2 else None
    _ParserWalk.__init__(w, fn)
    if not w.entries or not w.roots or w.files_keys is None:
        raise Shape('parser tables empty')

    def path(d):
        if d in w.roots:
            return w.roots[d]
        if d in w.parent:
            p, k = w.parent[d]
            return path(p) + '.' + k
        raise Shape(f'dict {d} is not part of the result')

    entries = [(s, k, t, path(d)) for (s, k, t, d) in w.entries]
    # the [simulation] section is added when missing -> always present
    defaults = [(path(d), k, c, wh) for (d, k, c, wh) in w.defaults]
    sec_of_dict = {}
    for (s, k, t, d) in w.entries:
        sec_of_dict.setdefault(d, s)
    term_over = []
    for (dest, d, k) in w.term_over:
        if d == 'files':
            term_over.append((dest, 'files', k))
        else:
            term_over.append((dest, sec_of_dict.get(d, d), k))
    order = [s for s in w.section_order if s != 'files']
    files_emitted = [k for k in w.files_keys if k not in w.files_removed] + w.files_added
    return dict(entries=entries, defaults=defaults, term_over=term_over,
                rejecting=w.rejecting, section_order=order,
                term_popped=w.term_popped, files_keys=w.files_keys,
                files_defaults=w.files_defaults, files_emitted=files_emitted)


# ------------------------------------------------------------------ cli.rst
_DOC_TY = [('list of lists', 'TLoL'), ('list', 'TFloatList'), ('bool', 'TBool'),
           ('string', 'TStr'), ('str', 'TStr'), ('float', 'TFloat'), ('int', 'TInt')]


def doc_tables(repo):
    text = _src(repo, 'docs/manual/cli.rst')
    lines = text.splitlines()
    try:
        start = next(i for i, l in enumerate(lines) if l.strip() == '``emg3d.cfg``::')
    except StopIteration:
        raise Shape('cli.rst: literal block not found')
    sec = None
    doc, flags = [], []
    for l in lines[start + 1:]:
        if l.strip() == '':
            continue
        if not l.startswith('  '):
            break
        s = l.strip()
        m = re.fullmatch(r'\[(\w+)\]', s)
        if m:
            sec = m.group(1)
            continue
        m = re.fullmatch(r'#\s([a-z_]+)\s*=\s*(.*)', s)
        if not m or sec is None:
            continue
        key, rest = m.group(1), m.group(2)
        if '#' in rest:
            val, com = rest.split('#', 1)
        else:
            val, com = rest, ''
        val, com = val.strip(), com.strip()
        ty = None
        for word, t in _DOC_TY:
            if re.match(word + r'\b', com):
                ty = t
                break
        if ty is None:                       # infer from the example value
            if val in ('True', 'False'):
                ty = 'TBool'
            elif re.fullmatch(r'[+-]?\d+', val):
                ty = 'TInt'
            elif re.fullmatch(r'[+-]?(\d+\.\d*|\.\d+)([eE][+-]?\d+)?|np\.inf', val):
                ty = 'TFloat'
            elif ',' in val:
                ty = 'TStrList'
            else:
                ty = 'TStr'
        doc.append((sec, key, ty))
        for f in re.findall(r'`(-{1,2}[a-z][a-z-]*)`', com):
            flags.append((sec, key, f))
    if len(doc) < 10:
        raise Shape('cli.rst: too few documented options found')
    return dict(doc=doc, flags=flags)


# ------------------------------------------------------------------ main.py
def term_tables(repo):
    tree = ast.parse(_src(repo, 'emg3d/cli/main.py'))
    fn = _func(tree, 'main')
    args = []
    for n in ast.walk(fn):
        if (isinstance(n, ast.Call) and isinstance(n.func, ast.Attribute)
                and n.func.attr == 'add_argument'):
            fl = [_const_str(a) for a in n.args]
            if None in fl:
                raise Shape('add_argument with non-constant flag')
            kw = {k.arg: k.value for k in n.keywords}
            if 'dest' in kw:
                dest = _const_str(kw['dest'])
            else:
                longs = [f for f in fl if f.startswith('--')]
                dest = (longs[0][2:] if longs else fl[0].lstrip('-')).replace('-', '_')
            act = _const_str(kw['action']) if 'action' in kw else 'store'
            for f in fl:
                args.append((f, dest, act))
    if not args:
        raise Shape('main.py: no argparse arguments found')
    src = ast.unparse(fn)
    popped = re.findall(r"args_dict\.pop\('(\w+)'\)", src)
    return dict(args=args, popped_in_main=popped)


# ------------------------------------------------------------------- run.py
def run_tables(repo):
    tree = ast.parse(_src(repo, 'emg3d/cli/run.py'))
    fn = _func(tree, 'simulation')
    routes, data_keys, files_read, trans = [], [], [], []
    sim_call_line = None
    alias = {}            # local name -> dotted path of cfg it is bound to

    def cfg_path(n):
        """cfg['a']['b'] / cfg['a'].get('b', ..) / alias -> 'a.b'"""
        if isinstance(n, ast.Name) and n.id in alias:
            return alias[n.id]
        if isinstance(n, ast.Subscript):
            k = _const_str(n.slice)
            if k is None:
                return None
            if isinstance(n.value, ast.Name) and n.value.id == 'cfg':
                return k
            b = cfg_path(n.value)
            return b + '.' + k if b else None
        if (isinstance(n, ast.Call) and isinstance(n.func, ast.Attribute)
                and n.func.attr == 'get' and n.args):
            k = _const_str(n.args[0])
            b = cfg_path(n.func.value)
            return b + '.' + k if b and k else None
        return None

    for n in ast.walk(fn):
        if isinstance(n, ast.Assign) and len(n.targets) == 1 and isinstance(n.targets[0], ast.Name):
            p = cfg_path(n.value)
            if p:
                alias[n.targets[0].id] = p
    for n in ast.walk(fn):
        if isinstance(n, ast.Call):
            fname = ast.unparse(n.func)
            for k in n.keywords:
                if k.arg is None:
                    p = cfg_path(k.value)
                    if p:
                        routes.append((p, fname.split('.')[-1]))
                        if fname.endswith('Simulation'):
                            sim_call_line = n.lineno
            if fname.endswith('.select'):
                for k in n.keywords:
                    v = k.value
                    if (isinstance(v, ast.Call) and isinstance(v.func, ast.Attribute)
                            and v.func.attr == 'get' and cfg_path(v.func.value) == 'data'
                            and _const_str(v.args[0]) == k.arg):
                        data_keys.append(k.arg)
        if isinstance(n, ast.Subscript):
            p = cfg_path(n)
            if p and p.startswith('files.'):
                f = p.split('.', 1)[1]
                if f not in files_read:
                    files_read.append(f)
        # key translation:  X['new'] = X.pop('old')   (X bound to a cfg path)
        if (isinstance(n, ast.Assign) and len(n.targets) == 1
                and isinstance(n.targets[0], ast.Subscript)):
            t, v = n.targets[0], n.value
            new = _const_str(t.slice)
            if (new and isinstance(v, ast.Call) and isinstance(v.func, ast.Attribute)
                    and v.func.attr == 'pop' and v.args and _const_str(v.args[0])
                    and ast.unparse(v.func.value) == ast.unparse(t.value)):
                p = cfg_path(t.value)
                if p:
                    trans.append((p, _const_str(v.args[0]), new, n.lineno))
    if sim_call_line is None:
        raise Shape('run.py: Simulation(**cfg[..]) call not found')
    # a translation only counts when it is executed before the Simulation is built
    trans = [(p, o, nw) for (p, o, nw, ln) in trans if ln < sim_call_line]
    # check_files reads more files keys
    cf = _func(tree, 'check_files')
    for n in ast.walk(cf):
        if isinstance(n, ast.Subscript):
            s = ast.unparse(n)
            m = re.fullmatch(r"cfg\['files'\]\['(\w+)'\]", s)
            if m and m.group(1) not in files_read:
                files_read.append(m.group(1))
        if isinstance(n, ast.Dict):
            for v in n.values:
                if _const_str(v) and _const_str(v) not in files_read:
                    files_read.append(v.value)
    return dict(routes=sorted(set(routes)), data_keys=data_keys, files_read=files_read,
                translations=trans, clean_mode=_clean_mode(fn))


def _clean_mode(fn):
    """The `what` of the single `sim.clean(..)` call of the --clean branch of
    cli/run.py ('' = called without argument -> the default of Simulation.clean).
    Fail closed on any other shape."""
    found = []

    def visit(node, in_clean):
        for ch in ast.iter_child_nodes(node):
            inside = in_clean
            if isinstance(node, ast.If) and ch in node.body \
                    and ast.unparse(node.test) == "term['clean']":
                inside = True
            if (isinstance(ch, ast.Call) and isinstance(ch.func, ast.Attribute)
                    and ch.func.attr == 'clean'):
                found.append((ch, inside))
            visit(ch, inside)
    visit(fn, False)
    if len(found) != 1:
        raise Shape(f'run.py: expected exactly one .clean(..) call, found {len(found)}')
    call, inside = found[0]
    if not inside or ast.unparse(call.func) != 'sim.clean':
        raise Shape("run.py: sim.clean(..) is not inside `if term['clean']:`")
    if call.keywords and not (len(call.keywords) == 1 and call.keywords[0].arg == 'what'
                              and not call.args):
        raise Shape('run.py: sim.clean called with unexpected keywords')
    args = list(call.args) + [k.value for k in call.keywords]
    if not args:
        return ''
    if len(args) != 1 or _const_str(args[0]) is None:
        raise Shape('run.py: sim.clean(..) argument is not a string constant')
    return args[0].value


def clean_tables(repo):
    """What each mode of Simulation.clean resets: {mode: [state names]}, and
    the default mode.  State names: attributes (`_misfit`), `_computed`,
    `data.<key>` for data variables deleted or re-initialised."""
    tree = ast.parse(_src(repo, 'emg3d/simulations.py'))
    fn = _func(tree, 'clean', 'Simulation')
    if [a.arg for a in fn.args.args] != ['self', 'what'] or len(fn.args.defaults) != 1 \
            or _const_str(fn.args.defaults[0]) is None:
        raise Shape('Simulation.clean signature changed')
    default = fn.args.defaults[0].value
    modes, resets = None, {}
    for st in fn.body:
        if isinstance(st, ast.Expr) and isinstance(st.value, ast.Constant):
            continue                                            # docstring
        if not isinstance(st, ast.If):
            raise Shape('Simulation.clean: unexpected statement ' + ast.unparse(st)[:60])
        t = st.test
        if (isinstance(t, ast.Compare) and len(t.ops) == 1 and ast.unparse(t.left) == 'what'
                and _str_list(t.comparators[0]) is not None):
            lst = _str_list(t.comparators[0])
            if isinstance(t.ops[0], ast.NotIn):
                if not any(isinstance(b, ast.Raise) for b in st.body):
                    raise Shape('Simulation.clean: mode check does not raise')
                modes = lst
                continue
            if isinstance(t.ops[0], ast.In) and not st.orelse:
                names = _clean_block_names(st.body)
                for m in lst:
                    resets.setdefault(m, [])
                    resets[m] += [n for n in names if n not in resets[m]]
                continue
        raise Shape('Simulation.clean: unexpected condition ' + ast.unparse(t)[:60])
    if not modes or any(m not in modes for m in resets):
        raise Shape('Simulation.clean: modes not recognised')
    for m in modes:
        resets.setdefault(m, [])
    return dict(default=default, resets=resets)


def _clean_block_names(stmts):
    names = []
    for st in stmts:
        if isinstance(st, ast.For) and isinstance(st.target, ast.Name):
            lst = _str_list(st.iter)
            if lst is None:
                if 'unlink' in ast.unparse(st):
                    continue                                    # removing field files
                raise Shape('Simulation.clean: loop over unknown list')
            body = ast.unparse(st)
            v = st.target.id
            if f'delattr(self, {v})' in body:
                names += lst
            elif f'del self.data[{v}]' in body:
                names += ['data.' + k for k in lst]
            else:
                raise Shape('Simulation.clean: unrecognised loop body')
        elif isinstance(st, ast.Assign) and len(st.targets) == 1:
            t = st.targets[0]
            src = ast.unparse(t)
            m = re.fullmatch(r"self\.data\['(\w+)'\]", src)
            if m:
                names.append('data.' + m.group(1))
            elif re.fullmatch(r'self\.(\w+)', src):
                names.append(src.split('.', 1)[1])
            else:
                raise Shape('Simulation.clean: unrecognised assignment ' + src)
        elif isinstance(st, ast.If):
            if 'unlink' in ast.unparse(st) or 'file_dir' in ast.unparse(st.test):
                continue
            names += _clean_block_names(st.body)
        else:
            raise Shape('Simulation.clean: unrecognised statement ' + ast.unparse(st)[:60])
    return names


# ---------------------------------------------------------------------- API
def _pops_of(fn_node, var):
    out = []
    for n in ast.walk(fn_node):
        if (isinstance(n, ast.Call) and isinstance(n.func, ast.Attribute)
                and n.func.attr in ('pop', 'get') and ast.unparse(n.func.value) == var and n.args):
            k = _const_str(n.args[0])
            if k and n.func.attr == 'pop' and k not in out:
                out.append(k)
    return out


def _gridding_accepts(tree):
    fn = _func(tree, 'estimate_gridding_opts')
    keys = _pops_of(fn, 'gridding_opts')
    for n in ast.walk(fn):
        if isinstance(n, ast.For) and isinstance(n.target, ast.Name):
            ks = _str_list(n.iter)
            body = ast.unparse(n)
            if ks and f'gridding_opts.pop({n.target.id})' in body:
                keys += [k for k in ks if k not in keys]
    src = ast.unparse(fn)
    if 'if gridding_opts:' not in src or 'Unexpected gridding_opts' not in src:
        raise Shape('estimate_gridding_opts no longer rejects unknown keys')
    if not keys:
        raise Shape('estimate_gridding_opts: no keys found')
    return keys


def api_tables(repo):
    import inspect
    import importlib
    sims = importlib.import_module('emg3d.simulations')
    solver = importlib.import_module('emg3d.solver')
    surveys = importlib.import_module('emg3d.surveys')
    models = importlib.import_module('emg3d.models')
    maps = importlib.import_module('emg3d.maps')
    for m in (sims, solver, surveys, models, maps):
        if not os.path.abspath(m.__file__).startswith(os.path.abspath(repo)):
            raise Shape(f'{m.__name__} imported from {m.__file__}, not from {repo}')

    def params(f, drop=()):
        return [p for p, v in inspect.signature(f).parameters.items()
                if p not in drop and v.kind in (v.POSITIONAL_OR_KEYWORD, v.KEYWORD_ONLY)]

    sim_tree = ast.parse(_src(repo, 'emg3d/simulations.py'))
    init = _func(sim_tree, '__init__', 'Simulation')
    setm = _func(sim_tree, '_set_model', 'Simulation')
    comp = _func(sim_tree, 'compute', 'Simulation')
    acc = {}
    acc['simulation_options'] = (params(sims.Simulation.__init__, ('self', 'survey', 'model'))
                                 + _pops_of(init, 'kwargs') + _pops_of(setm, 'kwargs'))
    sol_tree = ast.parse(_src(repo, 'emg3d/solver.py'))
    solve = _func(sol_tree, 'solve')
    explicit = []
    for n in ast.walk(solve):
        if isinstance(n, ast.Call) and ast.unparse(n.func) == 'MGParameters':
            explicit = [k.arg for k in n.keywords if k.arg]
            if not any(k.arg is None for k in n.keywords):
                raise Shape('solve no longer forwards **kwargs to MGParameters')
    fields = list(solver.MGParameters.__dataclass_fields__)
    acc['simulation_options.solver_opts'] = (
        params(solver.solve, ('model', 'sfield')) + _pops_of(solve, 'kwargs')
        + [f for f in fields if f not in explicit]
        + _pops_of(init, 'self.solver_opts'))
    acc['simulation_options.gridding_opts'] = (
        _gridding_accepts(ast.parse(_src(repo, 'emg3d/meshes.py'))) + _pops_of(setm, 'g_opts'))
    mp_tree = ast.parse(_src(repo, 'emg3d/_multiprocessing.py'))
    lay = _func(mp_tree, 'layered')
    acc['simulation_options.layered_opts'] = (
        _pops_of(lay, 'lopts') + params(models.Model.extract_1d,
                                        ('self', 'method', 'p0', 'p1', 'return_imat')))
    acc['simulation_options.layered_opts.ellipse'] = params(maps.ellipse_indices,
                                                            ('coo', 'p0', 'p1'))
    addn = _func(ast.parse(_src(repo, 'emg3d/surveys.py')), 'add_noise', 'Survey')
    acc['noise_kwargs'] = (_pops_of(comp, 'kwargs') + params(surveys.Survey.add_noise, ('self',))
                           + _pops_of(addn, 'kwargs')
                           + params(surveys.random_noise, ('standard_deviation',)))
    acc['select'] = params(surveys.Survey.select, ('self',))
    return {k: list(dict.fromkeys(v)) for k, v in acc.items()}


# ------------------------------------------------------------------ Coq text
def _s(x):
    return '"' + x.replace('"', '""') + '"'


def _sl(xs):
    return '[' + '; '.join(_s(x) for x in xs) + ']'


def tables(repo):
    p = parser_tables(repo)
    d = doc_tables(repo)
    t = term_tables(repo)
    r = run_tables(repo)
    a = api_tables(repo)
    acc = dict(a)
    sel = acc.pop('select')
    acc['data'] = [k for k in r['data_keys'] if k in sel]
    acc['files'] = list(r['files_read'])
    c = clean_tables(repo)
    if r['clean_mode'] == '':
        r['clean_mode'] = c['default']
    if r['clean_mode'] not in c['resets']:
        raise Shape(f"run.py cleans with unknown mode {r['clean_mode']!r}")
    return dict(parser=p, doc=d, term=t, run=r, api=acc, clean=c)


def coq_text(T):
    p, d, t, r, acc = T['parser'], T['doc'], T['term'], T['run'], T['api']
    L = ["(* GENERATED by py/vlib/clitab.py from the current emg3d sources -- do not edit. *)",
         "From Coq Require Import String List ZArith.",
         "From V Require Import Model.CliTypes.",
         "Import ListNotations.",
         "Local Open Scope string_scope.", ""]

    def deflist(name, typ, items):
        L.append(f"Definition {name} : list {typ} :=")
        L.append("  [" + ";\n   ".join(items) + "].")
        L.append("")

    deflist('parser_table', 'pentry',
            [f"PE {_s(s)} {_s(k)} {ty} {_s(pa)}" for (s, k, ty, pa) in p['entries']])
    deflist('parser_defaults', 'pdefault',
            [f"PD {_s(pa)} {_s(k)} {_s(c)} {'(Some ' + _s(w) + ')' if w else 'None'}"
             for (pa, k, c, w) in p['defaults']])
    deflist('term_overrides', 'toverride',
            [f"TO {_s(de)} {_s(s)} {_s(k)}" for (de, s, k) in p['term_over']])
    L.append(f"Definition rejecting_sections : list string := {_sl(p['rejecting'])}.")
    L.append(f"Definition section_order : list string := {_sl(p['section_order'])}.")
    L.append(f"Definition term_consumed : list string := {_sl(p['term_popped'])}.")
    L.append(f"Definition files_keys : list string := {_sl(p['files_keys'])}.")
    L.append(f"Definition files_emitted : list string := {_sl(p['files_emitted'])}.")
    deflist('files_defaults', '(string * option string)',
            [f"({_s(k)}, {'Some ' + _s(v) if isinstance(v, str) else 'None'})"
             for k, v in p['files_defaults'].items()])
    deflist('doc_table', '(string * string * ty)',
            [f"({_s(s)}, {_s(k)}, {ty})" for (s, k, ty) in d['doc']])
    deflist('doc_flags', '(string * string * string)',
            [f"({_s(s)}, {_s(k)}, {_s(f)})" for (s, k, f) in d['flags']])
    deflist('term_args', '(string * string)',
            [f"({_s(f)}, {_s(de)})" for (f, de, act) in t['args']])
    L.append(f"Definition term_popped_in_main : list string := {_sl(t['popped_in_main'])}.")
    deflist('api_accepts', '(string * list string)',
            [f"({_s(k)}, {_sl(v)})" for k, v in acc.items()])
    deflist('key_translation', '(string * string * string)',
            [f"({_s(pa)}, {_s(o)}, {_s(n)})" for (pa, o, n) in r['translations']])
    deflist('routes', '(string * string)',
            [f"({_s(pa)}, {_s(f)})" for (pa, f) in r['routes']])
    L.append(f"Definition clean_mode : string := {_s(r['clean_mode'])}.")
    deflist('clean_resets', '(string * list string)',
            [f"({_s(k)}, {_sl(v)})" for k, v in T['clean']['resets'].items()])
    return '\n'.join(L) + '\n'
