"""C05 data-flow stream: ties Model/MGSem.v (what every event of a multigrid cycle does
to the data) to solver.multigrid.

Model/MGSem.v interprets the event list of Model/Hierarchy.v as a stack machine over
(efield, sfield) frames.  This stream runs the REAL solver with wrapped module-level functions
and checks, call by call, that the arrays handed around are the ones the stack machine says:

  smoothing(model, sfield, efield, ..): (efield, sfield) is the top frame; the source is not written
  restriction(model, sfield, res, ..) : sfield is the top frame's source; res is bit-identical to
                                        residual(model, top.sfield, top.efield) recomputed here;
                                        the returned cefield is all zero
  multigrid(cmodel, csfield, cefield) : (cefield, csfield) are the objects the restriction returned
                                        (a new frame is pushed)
  prolongation(efield, cefield, ..)   : efield is the frame below, cefield the popped frame's field;
                                        efield_after == efield_before + P(cefield) with P(cefield)
                                        obtained by prolongating onto a zero field (additive), and no
                                        tangential boundary value changes
and, as an instance check of the contracts under which Proofs/MGSem.v proves the cycle fixed point,
that ONE real multigrid cycle started from the exact discrete solution (dense direct solve of the
operator assembled from solver.residual) returns it unchanged up to rounding.
"""
import numpy as np

from vlib import core as V

CASES = [
    # shape, widths kind, anisotropy, cfg
    ((4, 4, 4), 'unit', 'iso', dict(cycle='V', semicoarsening=0, linerelaxation=0)),
    ((8, 4, 4), 'stretch', 'tri', dict(cycle='F', semicoarsening=True, linerelaxation=0)),
    ((4, 8, 2), 'stretch', 'vti', dict(cycle='W', semicoarsening=2, linerelaxation=4)),
    ((4, 4, 8), 'stretch', 'hti', dict(cycle='F', semicoarsening=13, linerelaxation=7, nu_pre=0)),
    ((6, 4, 4), 'unit', 'iso', dict(cycle='W', semicoarsening=0, linerelaxation=True, nu_post=0)),
    ((8, 8, 4), 'stretch', 'iso', dict(cycle='F', semicoarsening=0, linerelaxation=0, clevel=1,
                                       nu_init=2)),
]


def _problem(shape, wk, aniso, laplace, rng):
    import emg3d
    if wk == 'unit':
        hs = [np.ones(n) for n in shape]
    else:
        hs = [np.array([2.0 ** rng.choice([-1, 0, 0, 1]) for _ in range(n)]) for n in shape]
    grid = emg3d.TensorMesh(hs, (0, 0, 0))
    nc = grid.n_cells
    def prop():
        return np.array([2.0 ** rng.choice([-2, -1, 0, 1, 2]) for _ in range(nc)]).reshape(
            grid.shape_cells, order='F')
    kw = {}
    if aniso in ('hti', 'tri'):
        kw['property_y'] = prop()
    if aniso in ('vti', 'tri'):
        kw['property_z'] = prop()
    model = emg3d.Model(grid, property_x=prop(), mapping='Conductivity', **kw)
    mid = [float(np.sum(h)) / 2.0 + 0.25 * float(h[0]) for h in hs]
    # |s mu0 sigma h^2| ~ 1: the discrete system is well conditioned (at 1 Hz the curl-curl part
    # dominates by 1e5 and a direct solve loses that many digits)
    freq = -1.0e5 if laplace else 1.0e5
    sfield = emg3d.get_source_field(grid, [mid[0], mid[1], mid[2], 30, 20], freq)
    # no source on PEC edges (their equations are not part of the system)
    sfield.field[~_interior_masks(grid)] = 0
    return grid, model, sfield


def _interior_masks(grid):
    nx, ny, nz = grid.shape_cells
    mx = np.zeros((nx, ny + 1, nz + 1), bool); mx[:, 1:-1, 1:-1] = True
    my = np.zeros((nx + 1, ny, nz + 1), bool); my[1:-1, :, 1:-1] = True
    mz = np.zeros((nx + 1, ny + 1, nz), bool); mz[1:-1, 1:-1, :] = True
    return np.r_[mx.ravel('F'), my.ravel('F'), mz.ravel('F')]


def exact_solution(model, sfield):
    """Dense direct solve of A e = s on the interior edges (PEC), A assembled column by column
    from solver.residual (A e = -residual(0-source, e))."""
    import emg3d
    import emg3d.solver as S
    vm = emg3d.models.VolumeModel(model, sfield)
    grid = model.grid
    mask = _interior_masks(grid)
    idx = np.flatnonzero(mask)
    zs = emg3d.Field(grid, dtype=sfield.field.dtype, frequency=sfield._frequency)
    A = np.zeros((idx.size, idx.size), dtype=sfield.field.dtype)
    for c, j in enumerate(idx):
        e = emg3d.Field(grid, dtype=sfield.field.dtype, frequency=sfield._frequency)
        e.field[j] = 1.0
        A[:, c] = -S.residual(vm, zs, e).field[idx]
    x = np.linalg.solve(A, sfield.field[idx])
    e = emg3d.Field(grid, dtype=sfield.field.dtype, frequency=sfield._frequency)
    e.field[idx] = x
    return e, vm


def flow_case(shape, wk, aniso, cfg, laplace, seed):
    """Returns a list of problem strings (empty = data flow as modelled)."""
    import random
    import emg3d
    import emg3d.solver as S
    rng = random.Random(seed)
    grid, model, sfield = _problem(shape, wk, aniso, laplace, rng)
    probs = []
    stack = []           # frames: dict(e=Field, s=Field, level=int)
    last_restr = {}      # level -> (cefield, csfield) returned by restriction at that level
    orig = {n: getattr(S, n) for n in ('multigrid', 'smoothing', 'restriction', 'prolongation')}
    counts = dict(S=0, R=0, P=0, M=0)

    def bad(msg):
        if len(probs) < 5:
            probs.append(msg)

    def mg(model_, sfield_, efield_, var, **kw):
        level = kw.get('level', 0)
        counts['M'] += 1
        if level > 0:
            lr = last_restr.get(level - 1)
            if lr is None or efield_ is not lr[0] or sfield_ is not lr[1]:
                bad(f"multigrid(level={level}) was not handed the (cefield, csfield) returned by the "
                    f"restriction at level {level - 1}")
            if np.any(efield_.field != 0):
                bad(f"multigrid(level={level}) starts from a non-zero coarse field")
        stack.append(dict(e=efield_, s=sfield_, level=level))
        try:
            return orig['multigrid'](model_, sfield_, efield_, var, **kw)
        finally:
            stack.pop()

    def sm(model_, sfield_, efield_, nu, lr_dir):
        counts['S'] += 1
        top = stack[-1]
        if efield_ is not top['e'] or sfield_ is not top['s']:
            bad(f"smoothing at level {top['level']} does not act on the current (efield, sfield)")
        s0 = sfield_.field.copy()
        r = orig['smoothing'](model_, sfield_, efield_, nu, lr_dir)
        if not np.array_equal(s0, sfield_.field):
            bad(f"smoothing at level {top['level']} wrote the source field")
        return r

    def re_(model_, sfield_, res, sc_dir):
        counts['R'] += 1
        top = stack[-1]
        if sfield_ is not top['s']:
            bad(f"restriction at level {top['level']} does not get the current source")
        want = S.residual(model_, top['s'], top['e'])
        if not np.array_equal(want.field, res.field):
            bad(f"restriction at level {top['level']} is not given residual(model, sfield, efield) "
                f"of the current field (max diff {np.max(np.abs(want.field - res.field)):.3e})")
        out = orig['restriction'](model_, sfield_, res, sc_dir)
        cmodel, csfield, cefield = out
        if np.any(cefield.field != 0):
            bad(f"restriction at level {top['level']} returns a non-zero coarse field")
        last_restr[top['level']] = (cefield, csfield)
        return out

    def pr(efield_, cefield, sc_dir):
        counts['P'] += 1
        top = stack[-1]
        if efield_ is not top['e']:
            bad(f"prolongation at level {top['level']} does not add to the current field")
        lr = last_restr.get(top['level'])
        if lr is None or cefield is not lr[0]:
            bad(f"prolongation at level {top['level']} is not given the coarse field of its own "
                f"coarse-grid correction")
        before = efield_.field.copy()
        zf = emg3d.Field(efield_.grid, dtype=efield_.field.dtype, frequency=efield_._frequency)
        orig['prolongation'](zf, cefield, sc_dir)
        r = orig['prolongation'](efield_, cefield, sc_dir)
        d = efield_.field - (before + zf.field)
        sc = max(1e-300, float(np.max(np.abs(efield_.field))))
        if np.max(np.abs(d)) > 1e-12 * sc:
            bad(f"prolongation at level {top['level']} is not 'efield += P cefield' "
                f"(max dev {np.max(np.abs(d)):.3e})")
        mask = _interior_masks(efield_.grid)
        if np.any(efield_.field[~mask] != before[~mask]):
            bad(f"prolongation at level {top['level']} changed a tangential boundary value")
        return r

    S.multigrid, S.smoothing, S.restriction, S.prolongation = mg, sm, re_, pr
    try:
        kw = dict(clevel=-1, nu_init=0, nu_pre=1, nu_coarse=1, nu_post=1, maxit=2, tol=1e-30)
        kw.update(cfg)
        emg3d.solve(model, sfield, sslsolver=False, verb=1, plain=False, **kw)
    finally:
        for n, f in orig.items():
            setattr(S, n, f)
    if stack:
        bad("frame stack not empty after the solve")
    if counts['R'] != counts['P']:
        bad(f"{counts['R']} restrictions but {counts['P']} prolongations")

    # instance of the fixed-point theorem on the real code
    fx = None
    if int(np.prod(shape)) <= 300:
        e, vm = exact_solution(model, sfield)
        r0 = float(np.linalg.norm(S.residual(vm, sfield, e).field))
        sn = float(np.linalg.norm(sfield.field))
        e0 = e.field.copy()
        kw1 = dict(kw, maxit=1)
        emg3d.solve(model, sfield, efield=e, sslsolver=False, verb=1, plain=False, **kw1)
        dev = float(np.max(np.abs(e.field - e0)) / max(1e-300, np.max(np.abs(e0))))
        fx = dict(resid0=r0 / sn, dev=dev)
        if r0 <= 1e-9 * sn and dev > 1e-7:
            bad(f"one multigrid cycle moved the exact discrete solution by {dev:.3e} (relative); "
                f"its residual was {r0 / sn:.1e} |s|")
    return dict(problems=probs, counts=counts, fixed_point=fx)


def worker_flow(arg):
    shape, wk, aniso, cfg, laplace, seed = arg
    return flow_case(tuple(shape), wk, aniso, cfg, laplace, seed)


_W = None


def run_case(arg):
    global _W
    if _W is None:
        _W = V.Worker('props.c05_flow', 'worker_flow')
    return _W.call(arg, timeout=900)


def cases(ctx):
    out = []
    for k, (shape, wk, aniso, cfg) in enumerate(CASES):
        out.append([list(shape), wk, aniso, cfg, bool(k % 2), 100 + k])
    if ctx.thorough:
        rng = ctx.rng
        for k in range(24):
            shape = [rng.choice([2, 3, 4, 6, 8]) for _ in range(3)]
            cfg = dict(cycle=rng.choice(['F', 'V', 'W']),
                       semicoarsening=rng.choice([0, 1, 2, 3, True, 12, 231]),
                       linerelaxation=rng.choice([0, 1, 2, 3, 4, 5, 6, 7, True, 56]),
                       clevel=rng.choice([-1, -1, 1, 2]), nu_pre=rng.choice([0, 1, 2]),
                       nu_post=rng.choice([0, 1, 2]), nu_init=rng.choice([0, 2]),
                       nu_coarse=rng.choice([1, 2]))
            out.append([shape, rng.choice(['unit', 'stretch']),
                        rng.choice(['iso', 'vti', 'hti', 'tri']), cfg, bool(k % 2), 1000 + k])
    return out


def dataflow_correspondence(ctx, dis):
    """Returns (number of cases, number of wrapped calls checked, summary)."""
    n, calls, devs = 0, 0, []
    for arg in cases(ctx):
        kind, val = run_case(arg)
        n += 1
        if kind != 'ok':
            dis.append({'what': 'data-flow case could not run', 'case': arg, 'impl': f'{kind}: {val}',
                        'model': 'Model/MGSem.v run'})
            continue
        calls += sum(val['counts'].values())
        if val.get('fixed_point'):
            devs.append(val['fixed_point']['dev'])
        for p in val['problems']:
            dis.append({'what': 'multigrid data flow differs from Model/MGSem.v: ' + p,
                        'signature': 'mg data flow: ' + p.split(' (')[0][:80],
                        'case': {'shape': arg[0], 'widths': arg[1], 'anisotropy': arg[2], 'cfg': arg[3],
                                 'laplace': arg[4], 'seed': arg[5]},
                        'impl': p, 'model': 'stack machine of Model/MGSem.v'})
    return n, calls, {'cases': n, 'wrapped_calls_checked': calls,
                      'max_fixed_point_dev': max(devs) if devs else None,
                      'fixed_point_cases': len(devs)}


def search_flow(ctx):
    """Concrete failing input for the searcher: a data-flow / fixed-point problem on real code."""
    dis = []
    dataflow_correspondence(ctx, dis)
    hits = []
    for d in dis:
        if 'signature' in d:
            hits.append(dict(signature=d['signature'], what=d['impl'], **d['case']))
    return hits[:1]
