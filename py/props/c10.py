"""C10 -- sources inject exactly their nominal moment in their nominal direction.

Theorems: coq/Props/C10.v (about the hand model coq/Model/Source.v).
Correspondence: the model executed on exact rationals (Eval vm_compute) against
emg3d.fields._dipole_vector / _point_vector / get_source_field and
emg3d.electrodes rotation / point_to_dipole / dipole_to_point /
point_to_square_loop / Tx* construction on generated grids and electrodes
(dyadic coordinates: floats are exact and unaffected by the 9-decimal rounding).
Searcher: independent oracle written from the property text (component sums vs
nominal moment with the normalisation warning turned into a failure, support in
touched cells, round trips, loop geometry) in exact Fraction arithmetic.
"""
import fractions
import itertools
import math
import warnings

import numpy as np

from vlib import core as V
from vlib import kernels as K

Fr = fractions.Fraction

ID = 'C10'
LEVEL_TEXT = (
    "Theorems (Props/C10.v) about a hand model of fields._dipole_vector/_point_vector/get_source_field and "
    "electrodes.rotation/point_to_dipole/dipole_to_point/point_to_square_loop/Dipole.__init__, for ALL "
    "stretched grids of any size (widths > 0), all segments inside the grid (endpoints on nodes, faces, edges, "
    "axis-aligned, oblique, either orientation) and wires with any number of electrodes, over the reals: every "
    "cell spreads exactly its length fraction on each component; the clipped fractions of the visited cells "
    "sum to 1 (1-D interval-partition lemma by induction over the node vector, nested three times); hence each "
    "component of the vector sums to p1 - p0 (wire: last - first electrode), the run-time re-normalisation never "
    "fires, only edges of cells met by the segment are written; a point source sums to rotation(az, el), which "
    "has unit length; get_source_field multiplies by strength and by -s mu0 (s = 2 pi i f, Laplace s = -f, "
    "nothing for frequency=None); electrodes -> (centre, azimuth, elevation, length) -> electrodes is the "
    "identity under the angle contract; the magnetic dipole is a closed planar square loop of area = length "
    "with right-handed normal rotation(az, el). Request histories on ONE source instance (Model/SourceHist.v, "
    "a machine with an explicit heap of arrays: fresh unit vector per request, Field(data=...) aliases it for "
    "real-valued requests and copies it for complex ones, in-place scaling, in-place edits of returned arrays "
    "by the caller): for ALL histories every request returns scale f (vecof grid) -- a function of (grid, "
    "source, frequency) only --, returned arrays are pairwise distinct and hold what was returned changed only "
    "by the caller's own edits, nothing is kept with the instance (induction over the history with an "
    "invariant); the same holds for a variant that keeps the vector with the instance but hands out copies, "
    "and is refuted (vm_compute witness 3, 9, 27) for the variant that hands out the stored array.")
LEVEL_NOTE = (
    "Hand model tied to the source by correspondence only (not generated). Not proved / not modelled: "
    "np.round(., 9) of nodes and electrodes (inputs are generated so that it is the identity; asserted), IEEE "
    "rounding (x_len = ||xmax-xmin||/||p1-p0|| is modelled by its exact value |ar-al|), scipy cosdg/sindg, "
    "np.sqrt, np.angle (oracles; contracts: sin^2+cos^2=1, quarter-turn shifts, r cos(angle)=x, r sin(angle)=y, "
    "sqrt(x)^2=x), the identical-electrodes test of Dipole.__init__ (modelled as EQUALITY of the two electrodes; "
    "the pinned np.allclose with its default relative tolerance refuses valid short dipoles in projected "
    "coordinates: reported through known_checks, signature 'C10: Dipole.__init__ rejects distinct electrodes "
    "...'), TxMagneticPoint (discretize). The history machine's shape (no per-instance / module state, fresh "
    "arrays, only sfield.field updated in place) is read off fields.py by an ast anchor on every run (fails "
    "closed) and exercised by the history stream; Vec / vecof / scale of the machine are abstract in the "
    "theorems and instantiated with dipole_vector / source_scale by the correspondence. "
    "The pinned code violates the moment clause for a segment lying in the UPPER boundary plane of the grid "
    "(zero extent in a direction whose coordinate equals the last node): no cell is visited, the vector is "
    "NaN; theorem dipole_on_upper_boundary_refuted; reported through known_checks until repaired.")
TECHNIQUE = ("Coq proof (lra/nra/field/induction over the node vector) about a hand model + differential "
             "correspondence (Eval vm_compute on exact rationals vs the implementation)")
DESIGN_REF = "DESIGN.md section 6 C10"
PROPS = 'Props/C10.v'
GEN = []
TRUSTED = [
    "Model/Source.v is a faithful reading of fields._dipole_vector/_point_vector/get_source_field and of the "
    "electrodes conversion functions (validated by the correspondence on every run)",
    "oracle contracts for scipy.special.cosdg/sindg, np.sqrt, np.angle (validated numerically by the searcher)",
]
ASSUMES = [
    "grid nodes and electrode coordinates are unchanged by np.round(., 9) (true for the generated dyadic inputs)",
    "segment lengths are either 0 or >= 1e-15 (the `length < 1e-15` test is modelled as `length == 0`)",
    "exact arithmetic: rounding of intermediate results not modelled (comparator tolerance 1e-9 relative)",
]

SIG_UPPER = "C10: _dipole_vector segment in the upper boundary plane (zero extent, coordinate == last node)"
WHAT_UPPER = ("[grid h=[1,1]^3, origin 0; dipole (0.5,2,0.5)->(1.5,2,0.5): vector NaN, required sum (1,0,0)] "
              "fields._dipole_vector: a dipole/wire segment with zero extent in a direction whose coordinate "
              "equals the LAST node of that direction (inside the grid by the function's own test) visits no "
              "cell (min_max_ind returns n, the loop is range(n, n)); all three components are then 0/0 = NaN "
              "after the 'Normalizing Source' warning; the same segment on the FIRST node is handled correctly")

# Output of the case files: Coq's printer needs ~5-10 ms per numeral (number notations), which dominated the
# run time of the streams (measured: computing a dump 0.06 s, printing it 0.3-0.7 s).  All numbers are therefore
# rounded down to the 2^-100 lattice (absolute error < 1e-30, comparator tolerances are >= 1e-18 absolute) and
# written as ONE decimal string per answer; an entry the model calls an error is the token E.
FXBITS = 100
SIG_CLOSE = ("C10: Dipole.__init__ rejects distinct electrodes as identical (np.allclose relative to the "
             "absolute coordinates)")
WHAT_CLOSE = ("[emg3d.TxElectricDipole((500000., 500000., 6000000., 6000050., -100., -100.)): ValueError 'The two "
              "electrodes are identical ...' although the electrodes are 50 m apart; required: a dipole whose source "
              "vector sums to (0, 50, 0) and whose electrodes -> (centre, azimuth, elevation, length) -> electrodes "
              "round trip returns the same electrodes] electrodes.Dipole.__init__ tests np.allclose(points[0], "
              "points[1]) with the default rtol=1e-5 RELATIVE to the coordinates: in projected coordinates "
              "(x ~ 5e5, y ~ 6e6) every dipole with |dx| <= ~5 m, |dy| <= ~60 m, |dz| <= 1e-5 |z| is refused (also "
              "TxMagneticDipole given by two electrodes, whose loop corners are compared); Wire.__eq__ uses the same "
              "relative test, so two sources 50 m apart at such coordinates compare equal")


HEADER = "From Coq Require Import String DecimalString Decimal.\nFrom Coq Require Import Qabs Qround.\n" \
    + K.CASE_HEADER + """From V Require Import Model.Source Model.SourceHist.
Definition fx (q : Q) : Z := Qfloor (q * (1267650600228229401496703205376 # 1))%Q.
Definition zstr (z : Z) : string := NilEmpty.string_of_int (Z.to_int z).
Definition sjoin (l : list string) : string := String.concat " " l.
Definition qstr (q : Q) : string := zstr (fx q).
Definition cstr (o : option (Q * Q)) : string :=
  match o with Some c => (qstr (fst c) ++ " " ++ qstr (snd c))%string | None => "E E"%string end.
Definition pstr (p : P3 Q) : string := sjoin [qstr (px p); qstr (py p); qstr (pz p)].
Definition res_head (r : SrcRes Q) : list Z :=
  match r with
  | SErr c => [c]
  | SOk _ st => 0%Z :: flat_map (fun t => [fst (fst t); snd (fst t); snd t]) st
  end.
Definition res_dump {B} (o : Q -> B) (r : SrcRes Q) (c n1 n2 n3 : Z) : list B :=
  match r with SErr _ => [] | SOk l _ => dump3 o n1 n2 n3 (cfield l c) end.
Definition near (a b : Q) : bool := Qle_bool (Qabs (a - b)%Q) (1 # 1000000000)%Q.
Definition lookup1 (tab : list (Q * Q)) (a : Q) : Q :=
  match find (fun kv => near a (fst kv)) tab with Some kv => snd kv | None => (-777 # 1)%Q end.
Definition lookup2 (tab : list (Q * Q * Q)) (a b : Q) : Q :=
  match find (fun kv => near a (fst (fst kv)) && near b (snd (fst kv)))%bool tab with
  | Some kv => snd kv | None => (-777 # 1)%Q end.
(* execution aid only: snap a model point to the 2^-40 lattice (identity on the dyadic inputs;
   keeps the rationals of oracle-derived loop points small) *)
Definition qsnap (q : Q) : Q := Qred (Qmake (Qfloor (q * (1099511627776 # 1))%Q) 1099511627776).
Definition psnap (p : P3 Q) : P3 Q := mkP3 (qsnap (px p)) (qsnap (py p)) (qsnap (pz p)).
Definition out_p (p : P3 Q) : list (Z * Z) := [out_q (px p); out_q (py p); out_q (pz p)].
Definition out_sc (o : option (Q * Q)) : (Z * Z) * (Z * Z) :=
  match o with Some c => out_c c | None => ((-999, 1), (-999, 1)) end.
"""


# ------------------------------------------------------------------ generators
def gen_grid(rng, big=False, large=False):
    """Stretched grid.  large=True: projected/UTM-like absolute coordinates
    (origin x ~1e5..8e5, y ~1e6..8e6, multiples of 1/4, still exact floats and
    unaffected by the 9-decimal rounding); cells of a few metres."""
    shape = [rng.randint(2, 5 if big else 4) for _ in range(3)]
    if rng.random() < 0.2 and not large:
        shape[rng.randrange(3)] = 1 if rng.random() < 0.3 else 2
    hs = [[rng.randint(1, 12) / 4 for _ in range(n)] for n in shape]
    org = [rng.randint(-16, 16) / 4 for _ in range(3)]
    if large:
        org[0] = rng.randint(100000, 800000) + rng.randint(0, 3) / 4
        org[1] = rng.randint(1000000, 8000000) + rng.randint(0, 3) / 4
        if rng.random() < 0.3:
            org[2] = -rng.randint(1000, 4000) + rng.randint(0, 3) / 4
    nodes = []
    for o, h in zip(org, hs):
        nd = [o]
        for w in h:
            nd.append(nd[-1] + w)
        nodes.append(nd)
    return {'h': hs, 'origin': org, 'nodes': nodes, 'shape': shape, 'large': large}


def val_scale(pts):
    """Scale for comparing vector entries: segment extents plus the rounding
    of coordinates of this magnitude (1e-9*scale ~ 1e-9*extent + 1e-14*|coord|)."""
    dmax = max([abs(b - a) for p, q in zip(pts[:-1], pts[1:]) for a, b in zip(p, q)] + [1.0])
    cmax = max(abs(x) for p in pts for x in p)
    return dmax + 1e-5 * cmax


def mesh(g):
    import emg3d
    return emg3d.TensorMesh([np.array(h, float) for h in g['h']], np.array(g['origin'], float))


def coord(rng, nd, mode):
    """One coordinate inside [nd[0], nd[-1]] (multiples of 1/16)."""
    if mode == 'node':
        return rng.choice(nd)
    if mode == 'first':
        return nd[0]
    if mode == 'last':
        return nd[-1]
    if mode == 'centre':
        i = rng.randrange(len(nd) - 1)
        return (nd[i] + nd[i + 1]) / 2
    span = int(round((nd[-1] - nd[0]) * 16))
    return nd[0] + rng.randint(0, span) / 16


def point(rng, g, modes):
    return [coord(rng, g['nodes'][d], modes[d]) for d in range(3)]


def gen_points(rng, g, kind, allow_upper=True):
    """Electrodes of one dipole/wire case of the given kind."""
    nd = g['nodes']

    def pick_modes(p_node, p_bnd):
        ms = []
        for _ in range(3):
            u = rng.random()
            ms.append('node' if u < p_node else
                      rng.choice(['first', 'last']) if u < p_node + p_bnd else 'generic')
        return ms
    if kind == 'generic':
        pts = [point(rng, g, ['generic'] * 3) for _ in range(2)]
    elif kind == 'nodes':
        pts = [point(rng, g, pick_modes(0.6, 0.1)) for _ in range(2)]
    elif kind == 'boundary':
        pts = [point(rng, g, pick_modes(0.2, 0.5)) for _ in range(2)]
    elif kind == 'axis':
        p0 = point(rng, g, pick_modes(0.4, 0.2))
        p1 = point(rng, g, pick_modes(0.4, 0.2))
        keep = rng.sample(range(3), rng.choice([1, 1, 2]))
        for d in range(3):
            if d not in keep:
                p1[d] = p0[d]
        pts = [p0, p1]
    elif kind == 'onecell':
        idx = [rng.randrange(len(nd[d]) - 1) for d in range(3)]
        pts = []
        for _ in range(2):
            p = []
            for d in range(3):
                lo, hi = nd[d][idx[d]], nd[d][idx[d] + 1]
                u = rng.random()
                p.append(lo if u < 0.2 else hi if u < 0.4 else
                         lo + rng.randint(0, int(round((hi - lo) * 16))) / 16)
            pts.append(p)
    elif kind == 'wire':
        n = rng.randint(3, 8)
        pts = []
        for _ in range(n):
            p = point(rng, g, pick_modes(0.3, 0.15))
            if pts and rng.random() < 0.35:      # axis-aligned piece
                keep = rng.randrange(3)
                p = [p[d] if d == keep else pts[-1][d] for d in range(3)]
            pts.append(p)
    elif kind == 'cable':
        # roughly horizontal cable digitised in short pieces: constant z,
        # 3..8 electrodes, steps of at most 2 m in x and y
        n = rng.randint(3, 8)
        z = coord(rng, nd[2], rng.choice(['generic', 'node', 'first']))
        p = point(rng, g, pick_modes(0.3, 0.1))
        p[2] = z
        pts = [p]
        for _ in range(n - 1):
            q = list(pts[-1])
            for d in (0, 1):
                if rng.random() < 0.7:
                    q[d] = min(nd[d][-1], max(nd[d][0], q[d] + rng.randint(-32, 32) / 16))
            pts.append(q)
    elif kind == 'outside':
        pts = [point(rng, g, ['generic'] * 3) for _ in range(rng.choice([2, 2, 3, 4]))]
        d = rng.randrange(3)
        k = rng.randrange(len(pts))
        pts[k][d] = (nd[d][0] - rng.randint(1, 8) / 16) if rng.random() < 0.5 \
            else (nd[d][-1] + rng.randint(1, 8) / 16)
    elif kind == 'nolength':
        pts = [point(rng, g, pick_modes(0.3, 0.1)) for _ in range(rng.choice([2, 2, 3, 5]))]
        k = rng.randrange(len(pts) - 1)
        pts[k + 1] = list(pts[k])
    else:
        raise ValueError(kind)
    # repair accidental zero-length segments in the valid kinds
    if kind not in ('nolength', 'outside'):
        for a in range(len(pts) - 1):
            tries = 0
            while pts[a] == pts[a + 1]:
                pts[a + 1] = point(rng, g, ['generic'] * 3)
                tries += 1
                if tries > 50:
                    break
    if not allow_upper:
        for a in range(len(pts) - 1):
            for d in range(3):
                if pts[a][d] == pts[a + 1][d] == nd[d][-1]:
                    return gen_points(rng, g, kind, allow_upper)
    return pts


DIP_KINDS = (['generic'] * 8 + ['nodes'] * 3 + ['boundary'] * 2 + ['axis'] * 2 + ['onecell'] * 1
             + ['wire'] * 3 + ['outside'] * 1 + ['nolength'] * 1)        # 21: 8 generic = 38 %
# every fourth dipole/wire case lives in large absolute (projected/UTM-like) coordinates
LARGE_KINDS = ['wire', 'cable', 'cable', 'wire', 'generic', 'axis', 'nodes', 'nolength']


def upper_plane(g, pts):
    """Does a segment lie in an upper boundary plane (the defect's trigger)?"""
    for a in range(len(pts) - 1):
        for d in range(3):
            if pts[a][d] == pts[a + 1][d] == g['nodes'][d][-1]:
                return True
    return False


# ------------------------------------------------------------ implementation
def run_dipole_impl(g, pts):
    from emg3d import fields
    gr = mesh(g)
    with warnings.catch_warnings(record=True) as w:
        warnings.simplefilter('always')
        try:
            vf = fields._dipole_vector(gr, np.array(pts, float))
        except ValueError as e:
            s = str(e)
            return {'err': 1 if 'outside grid' in s else 2 if 'no length' in s else 9, 'msg': s[:80]}
        except Exception as e:      # noqa
            return {'err': 99, 'msg': f"{type(e).__name__}: {e}"[:120]}
    nwarn = sum('Normalizing Source' in str(x.message) for x in w)
    return {'err': 0, 'f': [np.array(vf.fx), np.array(vf.fy), np.array(vf.fz)], 'nwarn': nwarn}


def impl_variant():
    """Which of the two modelled variants of min_max_ind is the current code?
    False: pinned (upper-plane segments visit no cell -> NaN); True: clamped."""
    g = {'h': [[1.0, 1.0]] * 3, 'origin': [0.0] * 3, 'nodes': [[0.0, 1.0, 2.0]] * 3, 'shape': [2, 2, 2]}
    r = run_dipole_impl(g, [[0.5, 2.0, 0.5], [1.5, 2.0, 0.5]])
    if r['err'] == 0 and all(np.all(np.isfinite(a)) for a in r['f']):
        return True
    return False


# ------------------------------------------------------------------- Coq text
def coq_axis(n, nodes, h):
    ql = (lambda xs: '[' + '; '.join(V.q(x) for x in xs) + ']')
    return f"(mkAxis {n} (arr_of_list 0%Q {ql(nodes)}) (arr_of_list 0%Q {ql(h)}))"


def coq_grid(g):
    return "(mkGrid " + ' '.join(coq_axis(g['shape'][d], g['nodes'][d], g['h'][d]) for d in range(3)) + ")"


def coq_p3(p):
    return f"(mkP3 {V.q(p[0])} {V.q(p[1])} {V.q(p[2])})"


def fshape(shape, c):
    nx, ny, nz = shape
    return [(nx, ny + 1, nz + 1), (nx + 1, ny, nz + 1), (nx + 1, ny + 1, nz)][c]


def coq_dipole_case(k, g, pts, clamp):
    L = [f"Definition G{k} := {coq_grid(g)}.",
         f"Definition R{k} := Eval vm_compute in dipole_vector Qle_bool {V.coq_bool(clamp)} G{k} "
         f"[{'; '.join(coq_p3(p) for p in pts)}].",
         f"Eval vm_compute in sjoin (map zstr (res_head R{k}))."]
    for c in range(3):
        s = fshape(g['shape'], c)
        L.append(f"Eval vm_compute in sjoin (res_dump qstr R{k} {c} {s[0]} {s[1]} {s[2]}).")
    return '\n'.join(L)


def ints(ans):
    import re
    return [int(x) for x in re.findall(r'-?\d+', ans)]


def toks(ans):
    """Tokens of a string answer ("..."%string)."""
    return ans.replace('%string', '').replace('"', ' ').split()


def fx_vals(ans):
    """Fixed-point string answer -> list of floats (None for the error token)."""
    return [None if t == 'E' else float(Fr(int(t), 2 ** FXBITS)) for t in toks(ans)]


def fx_cvals(ans):
    """Fixed-point string answer of complex entries -> list of complex (None = error entry)."""
    v = fx_vals(ans)
    return [None if v[i] is None else complex(v[i], v[i + 1]) for i in range(0, len(v) - 1, 2)]


def cmp_arrays(impl, model, scale):
    iv = np.asarray(impl).ravel()
    if len(iv) != len(model):
        return f"size {len(iv)} vs {len(model)}"
    for k in range(len(iv)):
        m = complex(model[k])
        if not (abs(complex(iv[k]) - m) <= 1e-9 * max(1.0, scale)):
            return f"flat index {k}: impl {iv[k]!r} model {m!r}"
    return None


def batches(items, per):
    return [items[i:i + per] for i in range(0, len(items), per)]


# cases per generated Coq file.  Every file pays a fixed cost (loading the libraries and the first vm_compute:
# measured 3-9 s CPU depending on load), so few, equally loaded files; all streams' files are evaluated in ONE
# parallel batch (run_streams).
PER_FILE = {'dip': 15, 'pt': 40, 'gsf': 20, 'cv': 75, 'fm': 8, 'hs': 4}


# ------------------------------------------------------ part 1: dipole vector
def corr_dipole(ctx, n, dis, hist, samples, clamp):
    rng = ctx.rng
    cases = []
    for i in range(n):
        large = (i % 4 == 3)
        if large:
            kind = LARGE_KINDS[(i // 4) % len(LARGE_KINDS)] if i < 8 * len(LARGE_KINDS) \
                else rng.choice(LARGE_KINDS)
        else:
            kind = DIP_KINDS[i % len(DIP_KINDS)] if i < 2 * len(DIP_KINDS) else rng.choice(DIP_KINDS)
        g = gen_grid(rng, ctx.thorough, large)
        pts = gen_points(rng, g, kind)
        allv = [x for p in pts for x in p] + [x for nd in g['nodes'] for x in nd]
        assert all(float(np.round(x, 9)) == x for x in allv), "input affected by the 9-decimal rounding"
        cases.append({'kind': kind, 'grid': g, 'pts': pts})
    texts = []
    for b, chunk in enumerate(batches(list(enumerate(cases)), PER_FILE['dip'])):
        texts.append((f"c10_dip_{b}", HEADER + '\n'.join(
            coq_dipole_case(k, c['grid'], c['pts'], clamp) for k, c in chunk) + '\n'))
    res = yield texts
    nontriv = set()
    for b, chunk in enumerate(batches(list(enumerate(cases)), PER_FILE['dip'])):
        rc, out = res[f"c10_dip_{b}"]
        if rc != 0:
            dis.append({'what': 'Source model does not evaluate (dipole cases)', 'log': out[-1500:]})
            continue
        ans = V.eval_answers(out)
        for j, (k, c) in enumerate(chunk):
            head = ints(ans[4 * j])
            impl = run_dipole_impl(c['grid'], c['pts'])
            brief = {'kind': c['kind'], 'h': c['grid']['h'], 'origin': c['grid']['origin'], 'points': c['pts']}
            hk = ('large/' if c['grid'].get('large') else '') + c['kind']
            hist[hk] = hist.get(hk, 0) + 1
            hist[f"electrodes={len(c['pts'])}"] = hist.get(f"electrodes={len(c['pts'])}", 0) + 1
            if len(samples) < 4 and k % 5 == 0:
                samples.append(brief)
            merr = head[0]
            if merr != impl['err']:
                dis.append({'what': '_dipole_vector error behaviour differs from the model', 'case': brief,
                            'impl': impl.get('msg', impl['err']), 'model': merr})
                continue
            if merr:
                hist['error'] = hist.get('error', 0) + 1
                nontriv.add(('err', merr, len(c['pts'])))
                continue
            stats = head[1:]
            mwarn = sum(1 for s in stats if s)
            if mwarn != impl['nwarn']:
                dis.append({'what': "number of 'Normalizing Source' warnings differs from the model",
                            'case': brief, 'impl': impl['nwarn'], 'model': mwarn})
                continue
            if mwarn:
                hist['normalisation_fired'] = hist.get('normalisation_fired', 0) + 1
            scale = val_scale(c['pts'])
            for comp in range(3):
                nan_model = any(stats[3 * s + comp] == 2 for s in range(len(stats) // 3))
                iv = impl['f'][comp]
                if nan_model:
                    if not np.all(np.isnan(iv)):
                        dis.append({'what': 'model predicts 0/0 (NaN) component, implementation is finite',
                                    'case': brief, 'component': 'xyz'[comp]})
                    continue
                mv = fx_vals(ans[4 * j + 1 + comp])
                bad = cmp_arrays(iv, mv, scale)
                if bad:
                    dis.append({'what': '_dipole_vector differs from Model.Source.dipole_vector',
                                'case': brief, 'component': 'xyz'[comp], 'detail': bad})
                    break
            zero_dirs = tuple(sum(1 for d in range(3) if a[d] == b_[d])
                              for a, b_ in zip(c['pts'][:-1], c['pts'][1:]))
            on_nodes = sum(1 for p in c['pts'] for d in range(3) if p[d] in c['grid']['nodes'][d])
            if on_nodes or any(zero_dirs) or len(c['pts']) > 2:
                nontriv.add((c['kind'], bool(c['grid'].get('large')), tuple(c['grid']['shape']), zero_dirs,
                             on_nodes))
    return len(cases), len(nontriv)


# ------------------------------------------------------- part 2: point vector
ANGLES = [0.0, 90.0, -90.0, 180.0, -180.0, 45.0, -45.0, 30.0, 60.0, -135.0, 135.0, 120.0, -60.0]


def gen_angle(rng, elev):
    u = rng.random()
    if u < 0.6:
        a = rng.choice(ANGLES)
    else:
        a = rng.randint(-180 * 4, 180 * 4) / 4
    if elev:
        a = max(-90.0, min(90.0, a if abs(a) <= 90 else a / 2))
    elif a == -180.0 and rng.random() < 0.5:
        a = 180.0
    return a


def trig_tab(angles):
    from scipy.special import cosdg, sindg
    ct = '[' + '; '.join(f"({V.q(a)}, {V.q(float(cosdg(a)))})" for a in angles) + ']'
    st = '[' + '; '.join(f"({V.q(a)}, {V.q(float(sindg(a)))})" for a in angles) + ']'
    return ct, st


def run_point_impl(g, coo):
    from emg3d import fields
    try:
        vf = fields._point_vector(mesh(g), tuple(coo))
    except ValueError as e:
        return {'err': 1, 'msg': str(e)[:80]}
    except Exception as e:      # noqa
        return {'err': 99, 'msg': f"{type(e).__name__}: {e}"[:120]}
    return {'err': 0, 'f': [np.array(vf.fx), np.array(vf.fy), np.array(vf.fz)]}


def coq_point_case(k, g, coo):
    ct, st = trig_tab([coo[3], coo[4]])
    L = [f"Definition G{k} := {coq_grid(g)}.",
         f"Definition R{k} := point_vector Qle_bool (lookup1 {ct}) (lookup1 {st}) G{k} "
         f"{coq_p3(coo[:3])} {V.q(coo[3])} {V.q(coo[4])}.",
         f"Eval vm_compute in match R{k} with None => [1] | Some _ => [0] end."]
    for c in range(3):
        s = fshape(g['shape'], c)
        sel = ['fst (fst t)', 'snd (fst t)', 'snd t'][c]
        L.append(f"Eval vm_compute in match R{k} with None => EmptyString | Some t => "
                 f"sjoin (dump3 qstr {s[0]} {s[1]} {s[2]} ({sel})) end.")
    return '\n'.join(L)


def corr_point(ctx, n, dis, hist, samples):
    rng = ctx.rng
    cases = []
    for i in range(n):
        g = gen_grid(rng, ctx.thorough)
        u = rng.random()
        kind = ('generic' if u < 0.4 else 'node' if u < 0.6 else 'centre' if u < 0.75
                else 'boundary' if u < 0.92 else 'outside')
        modes = {'generic': ['generic'] * 3,
                 'node': [rng.choice(['node', 'generic']) for _ in range(3)],
                 'centre': [rng.choice(['centre', 'node', 'generic']) for _ in range(3)],
                 'boundary': [rng.choice(['first', 'last', 'generic', 'node']) for _ in range(3)],
                 'outside': ['generic'] * 3}[kind]
        p = point(rng, g, modes)
        if kind == 'outside':
            d = rng.randrange(3)
            nd = g['nodes'][d]
            p[d] = nd[0] - 0.25 if rng.random() < 0.5 else nd[-1] + 0.25
        coo = p + [gen_angle(rng, False), gen_angle(rng, True)]
        cases.append({'kind': kind, 'grid': g, 'coo': coo})
    texts = []
    for b, chunk in enumerate(batches(list(enumerate(cases)), PER_FILE['pt'])):
        texts.append((f"c10_pt_{b}", HEADER + '\n'.join(
            coq_point_case(k, c['grid'], c['coo']) for k, c in chunk) + '\n'))
    res = yield texts
    nontriv = set()
    for b, chunk in enumerate(batches(list(enumerate(cases)), PER_FILE['pt'])):
        rc, out = res[f"c10_pt_{b}"]
        if rc != 0:
            dis.append({'what': 'Source model does not evaluate (point cases)', 'log': out[-1500:]})
            continue
        ans = V.eval_answers(out)
        for j, (k, c) in enumerate(chunk):
            brief = {'kind': 'point/' + c['kind'], 'h': c['grid']['h'], 'origin': c['grid']['origin'],
                     'coordinates': c['coo']}
            hist['point/' + c['kind']] = hist.get('point/' + c['kind'], 0) + 1
            if len(samples) < 6 and k % 7 == 0:
                samples.append(brief)
            impl = run_point_impl(c['grid'], c['coo'])
            merr = ints(ans[4 * j])[0]
            if merr != impl['err']:
                dis.append({'what': '_point_vector error behaviour differs from the model', 'case': brief,
                            'impl': impl.get('msg', impl['err']), 'model': merr})
                continue
            if merr:
                nontriv.add(('pt-err',))
                continue
            for comp in range(3):
                mv = fx_vals(ans[4 * j + 1 + comp])
                bad = cmp_arrays(impl['f'][comp], mv, 1.0)
                if bad:
                    dis.append({'what': '_point_vector differs from Model.Source.point_vector',
                                'case': brief, 'component': 'xyz'[comp], 'detail': bad})
                    break
            if c['kind'] != 'generic' or c['coo'][3] in ANGLES or c['coo'][4] in ANGLES:
                nontriv.add((c['kind'], tuple(c['grid']['shape']), c['coo'][3], c['coo'][4]))
    return len(cases), len(nontriv)


# ------------------------------------------------- part 3: get_source_field
def gen_strength(rng):
    u = rng.random()
    if u < 0.45:
        return rng.randint(-40, 40) / 4 or 1.0
    if u < 0.6:
        return rng.randint(1, 9)
    return complex(rng.randint(-20, 20) / 4, rng.randint(-20, 20) / 4 or 0.5)


def gen_freq(rng):
    u = rng.random()
    if u < 0.45:
        return rng.randint(1, 64) / 8
    if u < 0.75:
        return -rng.randint(1, 64) / 8
    if u < 0.95:
        return None
    return 0.0


def run_gsf_impl(g, src, freq):
    import emg3d
    with warnings.catch_warnings(record=True) as w:
        warnings.simplefilter('always')
        try:
            if src['type'] == 'point':
                s = emg3d.TxElectricPoint(tuple(src['coo']), strength=src['strength'])
            elif src['type'] == 'mag':
                s = emg3d.TxMagneticDipole(tuple(src['coo']), strength=src['strength'],
                                           length=src['area'])
            elif src['type'] == 'wire':
                s = emg3d.TxElectricWire(np.array(src['pts'], float), strength=src['strength'])
            elif src['type'] == 'flat':
                p0, p1 = src['pts']
                s = emg3d.TxElectricDipole((p0[0], p1[0], p0[1], p1[1], p0[2], p1[2]),
                                           strength=src['strength'])
            else:
                s = emg3d.TxElectricDipole(np.array(src['pts'], float), strength=src['strength'])
            sf = emg3d.get_source_field(mesh(g), s, freq)
        except Exception as e:      # noqa
            return {'err': 1, 'msg': f"{type(e).__name__}: {e}"[:100]}
    return {'err': 0, 'f': [np.array(sf.fx), np.array(sf.fy), np.array(sf.fz)],
            'dtype': str(sf.field.dtype), 'nwarn': len([x for x in w if 'Normalizing' in str(x.message)])}


def coq_gsf_case(k, g, src, freq, clamp):
    import scipy.constants as sc
    st = complex(src['strength'])
    stc = isinstance(src['strength'], complex)
    fq = 'None' if freq is None else f"(Some {V.q(freq)})"
    scale = (f"(fun v : Q => cstr (source_scale Qle_bool {V.q(math.pi)} {V.q(sc.mu_0)} {fq} "
             f"({V.q(st.real)}, {V.q(st.imag)}) {V.coq_bool(stc)} v))")
    L = [f"Definition G{k} := {coq_grid(g)}."]
    if src['type'] == 'point':
        coo = src['coo']
        ct, stt = trig_tab([coo[3], coo[4]])
        L.append(f"Definition R{k} := point_vector Qle_bool (lookup1 {ct}) (lookup1 {stt}) G{k} "
                 f"{coq_p3(coo[:3])} {V.q(coo[3])} {V.q(coo[4])}.")
        for c in range(3):
            s = fshape(g['shape'], c)
            sel = ['fst (fst t)', 'snd (fst t)', 'snd t'][c]
            L.append(f"Eval vm_compute in match R{k} with None => EmptyString | Some t => "
                     f"sjoin (dump3 {scale} {s[0]} {s[1]} {s[2]} ({sel})) end.")
    else:
        pts = src['loop'] if src['type'] == 'mag' else src['pts']
        L.append(f"Definition R{k} := Eval vm_compute in dipole_vector Qle_bool {V.coq_bool(clamp)} G{k} "
                 f"[{'; '.join(coq_p3(p) for p in pts)}].")
        for c in range(3):
            s = fshape(g['shape'], c)
            L.append(f"Eval vm_compute in sjoin (res_dump {scale} R{k} {c} {s[0]} {s[1]} {s[2]}).")
    return '\n'.join(L)


def gen_mag(rng, g):
    """Magnetic dipole (x, y, z, az, el) + area whose square loop stays inside
    the grid; returns (coo, area, loop points as the code rounds them)."""
    from emg3d import electrodes as E
    nd = g['nodes']
    ext = min(n[-1] - n[0] for n in nd)
    hd = min(1.0, ext / 4)
    area = 2 * hd * hd * rng.choice([1.0, 0.25, 0.5])
    coo = []
    for d in range(3):
        lo, hi = nd[d][0] + hd, nd[d][-1] - hd
        c0 = lo + rng.randint(0, max(0, int((hi - lo) * 16))) / 16
        coo.append(c0)
    coo += [gen_angle(rng, False), gen_angle(rng, True)]
    loop = np.round(np.asarray(E.TxMagneticDipole(tuple(coo), length=area).points, float), 9)
    return coo, area, [[float(x) for x in p] for p in loop]


def corr_gsf(ctx, n, dis, hist, samples, clamp):
    rng = ctx.rng
    cases = []
    for i in range(n):
        large = (i % 3 == 2)
        g = gen_grid(rng, False, large)
        t = rng.choice(['wire', 'wire', 'mag']) if large else \
            rng.choice(['pair', 'pair', 'flat', 'wire', 'point', 'mag'])
        if t == 'mag':
            coo, area, loop = gen_mag(rng, g)
            src = {'type': t, 'coo': coo, 'area': area, 'loop': loop}
        elif t == 'point':
            src = {'type': t, 'coo': point(rng, g, [rng.choice(['generic', 'node', 'centre'])
                                                      for _ in range(3)])
                   + [gen_angle(rng, False), gen_angle(rng, True)]}
        else:
            kind = (rng.choice(['wire', 'cable']) if t == 'wire'
                    else rng.choice(['generic', 'nodes', 'axis', 'boundary']))
            src = {'type': t, 'pts': gen_points(rng, g, kind, allow_upper=False)}
        src['strength'] = gen_strength(rng)
        cases.append({'grid': g, 'src': src, 'freq': gen_freq(rng)})
    texts = []
    for b, chunk in enumerate(batches(list(enumerate(cases)), PER_FILE['gsf'])):
        texts.append((f"c10_gsf_{b}", HEADER + '\n'.join(
            coq_gsf_case(k, c['grid'], c['src'], c['freq'], clamp) for k, c in chunk) + '\n'))
    res = yield texts
    nontriv = set()
    for b, chunk in enumerate(batches(list(enumerate(cases)), PER_FILE['gsf'])):
        rc, out = res[f"c10_gsf_{b}"]
        if rc != 0:
            dis.append({'what': 'Source model does not evaluate (get_source_field cases)',
                        'log': out[-1500:]})
            continue
        ans = V.eval_answers(out)
        for j, (k, c) in enumerate(chunk):
            src, freq = c['src'], c['freq']
            mode = 'none' if freq is None else 'zero' if freq == 0 else 'laplace' if freq < 0 else 'freq'
            skind = type(src['strength']).__name__
            hk = f"gsf/{'large/' if c['grid'].get('large') else ''}{src['type']}/{mode}/{skind}"
            hist[hk] = hist.get(hk, 0) + 1
            brief = {'kind': 'get_source_field', 'h': c['grid']['h'], 'origin': c['grid']['origin'],
                     'source': {kk: str(vv) if isinstance(vv, complex) else vv for kk, vv in src.items()},
                     'frequency': freq}
            if len(samples) < 8 and k % 9 == 0:
                samples.append(brief)
            impl = run_gsf_impl(c['grid'], src, freq)
            vals = [fx_cvals(ans[3 * j + comp]) for comp in range(3)]
            merr = any(v and v[0] is None for v in vals)
            if merr != bool(impl['err']):
                dis.append({'what': 'get_source_field error behaviour differs from the model',
                            'case': brief, 'impl': impl.get('msg', 'ok'), 'model': 'error' if merr else 'ok'})
                continue
            nontriv.add((src['type'], bool(c['grid'].get('large')), mode, skind))
            if merr:
                continue
            if impl['nwarn']:
                dis.append({'what': "get_source_field raised the 'Normalizing Source' warning",
                            'case': brief})
                continue
            mvs = vals
            scale = max(max(float(np.max(np.abs(a))) if a.size else 0.0 for a in impl['f']),
                        max([abs(x) for m_ in mvs for x in m_] + [0.0]), 1e-300)
            # floor: entries of single segments (a wire that returns on itself cancels to ~1e-22)
            spts = src.get('loop') or src.get('pts')
            seg = max([abs(b_ - a) for p_, q_ in zip(spts[:-1], spts[1:]) for a, b_ in zip(p_, q_)]
                      + [0.05]) if spts else 1.0
            scale = max(scale, abs(scale_factor(src['strength'], freq)) * seg * 0.05)
            if c['grid'].get('large'):
                scale *= 1000.0         # coordinates ~1e6: entries carry ~1e-9 absolute rounding
            for comp in range(3):
                mv = mvs[comp]
                iv = impl['f'][comp].ravel()
                bad = None
                if len(iv) != len(mv):
                    bad = f"size {len(iv)} vs {len(mv)}"
                else:
                    for q in range(len(iv)):
                        if not abs(complex(iv[q]) - mv[q]) <= 1e-9 * scale:
                            bad = f"flat index {q}: impl {iv[q]!r} model {mv[q]!r}"
                            break
                    if mode in ('laplace', 'none') and impl['dtype'] != 'float64':
                        bad = f"dtype {impl['dtype']} for a real-valued call"
                if bad:
                    dis.append({'what': 'get_source_field differs from dipole/point vector * strength * (-s mu0)',
                                'case': brief, 'component': 'xyz'[comp], 'detail': bad})
                    break
    return len(cases), len(nontriv)


# --------------------------------------------- part 4: electrode conversions
def fr_p(p):
    return [Fr(x) for x in p]


def conv_oracles(recs):
    """Coq tables for the recorded oracle calls."""
    def tab1(d):
        return '[' + '; '.join(f"({V.q(a)}, {V.q(v)})" for a, v in d) + ']'

    def tab2(d):
        return '[' + '; '.join(f"({V.q(a)}, {V.q(b)}, {V.q(v)})" for a, b, v in d) + ']'
    return (f"(lookup1 {tab1(recs['cos'])}) (lookup1 {tab1(recs['sin'])}) "
            f"(lookup1 {tab1(recs['sqrt'])}) (lookup2 {tab2(recs['angle'])})")


class Rec:
    """Replays the oracle calls the model will make, on the implementation's
    own primitives, and records (argument, value) pairs."""

    def __init__(self):
        self.r = {'cos': [], 'sin': [], 'sqrt': [], 'angle': []}

    def trig(self, a):
        from scipy.special import cosdg, sindg
        a = float(a)
        self.r['cos'].append((a, float(cosdg(a))))
        self.r['sin'].append((a, float(sindg(a))))

    def sqrt(self, a):
        v = float(np.sqrt(float(a)))
        self.r['sqrt'].append((Fr(a), v))
        return v

    def angle(self, x, y):
        v = float(np.angle(float(x) + 1j * float(y), deg=True))
        self.r['angle'].append((Fr(x), Fr(y), v))
        return v

    def d2p(self, p0, p1):
        d = [Fr(b) - Fr(a) for a, b in zip(p0, p1)]
        az = self.angle(d[0], d[1])
        rho = self.sqrt(d[0] * d[0] + d[1] * d[1])
        el = self.angle(rho, d[2])
        ln = self.sqrt(d[0] * d[0] + d[1] * d[1] + d[2] * d[2])
        return az, el, ln

    def loop(self, az, el, area):
        self.sqrt(Fr(area) / 2)
        for a in (Fr(az) + 90, 0, az, Fr(el) + 90):
            self.trig(a)


def gen_conv_case(rng, proj=False):
    """proj=True: projected (UTM-like) absolute coordinates, x 1e5..8e5, y 1e6..8e6, z -4000..0 (multiples of
    1/8: exact floats), electrodes a few metres to 50 m apart -- the coordinates real surveys come in."""
    t = rng.choice(['p2d', 'd2p', 'd2p', 'loop', 'loop', 'tx_point', 'tx_point', 'tx_flat', 'tx_flat',
                    'tx_pair', 'tx_pair', 'tx_same'])
    mag = rng.random() < 0.5
    off = [0.0, 0.0, 0.0]
    if proj:
        off = [float(rng.randint(100000, 800000)), float(rng.randint(1000000, 8000000)),
               -float(rng.randint(0, 4000))]
    c = [o + rng.randint(-64, 64) / 8 for o in off]
    az, el = gen_angle(rng, False), gen_angle(rng, True)
    ln = rng.randint(1, 64) / 8
    p0 = [o + rng.randint(-64, 64) / 8 for o in off]
    if proj:
        k = 400 if rng.random() < 0.3 else 64           # up to 50 m / up to 8 m per direction
        p1 = [a + rng.randint(-k, k) / 8 for a in p0]
        if rng.random() < 0.5:
            p1[2] = p0[2]               # towed / sea-bottom sources are horizontal
    else:
        p1 = [rng.randint(-64, 64) / 8 for _ in range(3)]
    u = rng.random()
    if u < 0.45:                      # axis-aligned / planar / vertical pairs
        for d in rng.sample(range(3), rng.choice([1, 2])):
            p1[d] = p0[d]
    if p0 == p1:
        p1[rng.randrange(3)] += 1.0
    if t == 'tx_same':
        p1 = list(p0)
    return {'t': t, 'mag': mag, 'c': c, 'az': az, 'el': el, 'len': ln, 'p0': p0, 'p1': p1, 'proj': proj}


def conv_tol(c, vals):
    """Absolute tolerance for electrode coordinates / angles / lengths of a conversion case: 1e-9 of the
    dipole's own size plus a few ulp of the absolute coordinates (NOT 1e-9 of the coordinates, which would be
    millimetres in projected coordinates)."""
    ext = max([abs(b - a) for a, b in zip(c['p0'], c['p1'])] + [c['len'], 1.0])
    big = max([abs(x) for x in vals] + [1.0])
    return 1e-9 * ext + 16 * 2.3e-16 * big


def run_conv_impl(c):
    from emg3d import electrodes as E
    t = c['t']
    try:
        if t == 'p2d':
            return [list(map(float, r)) for r in E.point_to_dipole(np.array(c['c'] + [c['az'], c['el']]), c['len'])]
        if t == 'd2p':
            return [[float(x) for x in E.dipole_to_point(np.array([c['p0'], c['p1']], float))]]
        if t == 'loop':
            return [list(map(float, r)) for r in
                    E.point_to_square_loop(np.array(c['c'] + [c['az'], c['el']]), c['len'])]
        cls = E.TxMagneticDipole if c['mag'] else E.TxElectricDipole
        if t == 'tx_point':
            s = cls(tuple(c['c'] + [c['az'], c['el']]), strength=1.0, length=c['len'])
        elif t == 'tx_flat':
            p0, p1 = c['p0'], c['p1']
            s = cls((p0[0], p1[0], p0[1], p1[1], p0[2], p1[2]))
        else:
            s = cls(np.array([c['p0'], c['p1']], float))
        return [list(map(float, r)) for r in s.points]
    except ValueError as e:
        c['_msg'] = str(e)[:60]
        return 'ValueError'
    except Exception as e:      # noqa
        return f"{type(e).__name__}: {e}"[:100]


def coq_conv_case(k, c):
    t = c['t']
    rec = Rec()
    if t == 'p2d':
        rec.trig(c['az']), rec.trig(c['el'])
        body = (f"let r := point_to_dipole ORA {coq_p3(c['c'])} {V.q(c['az'])} {V.q(c['el'])} {V.q(c['len'])} "
                f"in sjoin [pstr (fst r); pstr (snd r)]")
        body = body.replace('ORA', '(lookup1 COS) (lookup1 SIN)')
        ct = '[' + '; '.join(f"({V.q(a)}, {V.q(v)})" for a, v in rec.r['cos']) + ']'
        st = '[' + '; '.join(f"({V.q(a)}, {V.q(v)})" for a, v in rec.r['sin']) + ']'
        body = body.replace('COS', ct).replace('SIN', st)
    elif t == 'd2p':
        rec.d2p(c['p0'], c['p1'])
        sq = '[' + '; '.join(f"({V.q(a)}, {V.q(v)})" for a, v in rec.r['sqrt']) + ']'
        an = '[' + '; '.join(f"({V.q(a)}, {V.q(b)}, {V.q(v)})" for a, b, v in rec.r['angle']) + ']'
        body = (f"let r := dipole_to_point (lookup1 {sq}) (lookup2 {an}) {coq_p3(c['p0'])} {coq_p3(c['p1'])} "
                f"in sjoin [qstr (fst (fst r)); qstr (snd (fst r)); qstr (snd r)]")
    elif t == 'loop':
        rec.loop(c['az'], c['el'], c['len'])
        ct = '[' + '; '.join(f"({V.q(a)}, {V.q(v)})" for a, v in rec.r['cos']) + ']'
        st = '[' + '; '.join(f"({V.q(a)}, {V.q(v)})" for a, v in rec.r['sin']) + ']'
        sq = '[' + '; '.join(f"({V.q(a)}, {V.q(v)})" for a, v in rec.r['sqrt']) + ']'
        body = (f"sjoin (map pstr (point_to_square_loop (lookup1 {ct}) (lookup1 {st}) (lookup1 {sq}) "
                f"{coq_p3(c['c'])} {V.q(c['az'])} {V.q(c['el'])} {V.q(c['len'])}))")
    else:
        if t == 'tx_point':
            rec.trig(c['az']), rec.trig(c['el'])
            if c['mag']:
                rec.loop(c['az'], c['el'], c['len'])
            inp = f"(DPoint {coq_p3(c['c'])} {V.q(c['az'])} {V.q(c['el'])})"
        else:
            if c['mag']:
                az, el, ln = rec.d2p(c['p0'], c['p1'])
                rec.loop(az, el, ln)
            p0, p1 = c['p0'], c['p1']
            if t == 'tx_flat':
                inp = (f"(DFlat {V.q(p0[0])} {V.q(p1[0])} {V.q(p0[1])} {V.q(p1[1])} "
                       f"{V.q(p0[2])} {V.q(p1[2])})")
            else:
                inp = f"(DPair {coq_p3(p0)} {coq_p3(p1)})"
        if not rec.r['cos']:
            rec.trig(0.0)
        if not rec.r['sqrt']:
            rec.r['sqrt'].append((Fr(0), 0.0))
        if not rec.r['angle']:
            rec.r['angle'].append((Fr(0), Fr(0), 0.0))
        body = (f"match dipole_points Qle_bool {conv_oracles(rec.r)} {V.coq_bool(c['mag'])} {inp} "
                f"{V.q(c['len'])} with None => EmptyString | Some l => sjoin (map pstr l) end")
    return f"Eval vm_compute in ({body})."


def corr_conv(ctx, n, dis, hist, samples):
    rng = ctx.rng
    cases = [gen_conv_case(rng, proj=(i % 3 == 2)) for i in range(n)]
    texts = []
    for b, chunk in enumerate(batches(list(enumerate(cases)), PER_FILE['cv'])):
        texts.append((f"c10_cv_{b}", HEADER + '\n'.join(coq_conv_case(k, c) for k, c in chunk) + '\n'))
    res = yield texts
    nontriv = set()
    for b, chunk in enumerate(batches(list(enumerate(cases)), PER_FILE['cv'])):
        rc, out = res[f"c10_cv_{b}"]
        if rc != 0:
            dis.append({'what': 'Source model does not evaluate (conversion cases)', 'log': out[-1500:]})
            continue
        ans = V.eval_answers(out)
        for j, (k, c) in enumerate(chunk):
            key = f"conv/{'proj/' if c['proj'] else ''}{c['t']}" + (
                '/magnetic' if c['mag'] and c['t'].startswith('tx') else '')
            hist[key] = hist.get(key, 0) + 1
            if len(samples) < 10 and k % 11 == 0:
                samples.append(c)
            impl = run_conv_impl(c)
            mv = fx_vals(ans[j])
            if isinstance(impl, str):
                if impl == 'ValueError' and mv and 'identical' in c.get('_msg', '') and c['p0'] != c['p1']:
                    dis.append({'what': 'Dipole.__init__ rejects DISTINCT electrodes as identical (the model '
                                        'compares the electrodes for equality)', 'signature': SIG_CLOSE,
                                'case': c, 'impl': 'ValueError: ' + c['_msg'], 'model': mv[:6]})
                elif not (impl == 'ValueError' and not mv):
                    dis.append({'what': 'electrode conversion raised where the model returns points',
                                'case': c, 'impl': impl, 'model': mv[:6]})
                else:
                    nontriv.add(('identical', c['mag']))
                continue
            iv = [x for r in impl for x in r]
            if len(iv) != len(mv):
                dis.append({'what': 'electrode conversion: number of values differs', 'case': c,
                            'impl': iv, 'model': mv})
                continue
            tol = conv_tol(c, iv)
            bad = [q for q in range(len(iv)) if not abs(iv[q] - mv[q]) <= tol]
            if bad:
                dis.append({'what': f"electrodes.{c['t']} differs from the model", 'case': c,
                            'index': bad[0], 'impl': iv[bad[0]], 'model': mv[bad[0]]})
            nontriv.add((c['t'], c['mag'], c['proj'], c['az'] in ANGLES, c['el'] in ANGLES,
                         sum(1 for d in range(3) if c['p0'][d] == c['p1'][d])))
    return len(cases), len(nontriv)


# ------------------------------------- part 5: input forms of get_source_field
FORM_KINDS = ['m_point', 'e_point', 'm_pair', 'e_pair', 'wire', 'm_point', 'm_flat', 'e_flat',
              'e_point', 'm_point', 'wire', 'm_pair']
REAL_STRENGTHS = [2.5, -3.0, 7, 0.25, -1.5, 4]


KW_VARIANTS = ['given', 'st0', 'given', 'st0.0', 'st_missing', 'st0j', 'given', 'len_missing', 'stFalse',
               'st_none', 'el_int', 'len_zero', 'given', 'el_none', 'len_none', 'st0']


def gen_form_case(rng, kind, large=False, variant='given'):
    """One source, to be requested through every documented input form."""
    while True:     # loops / point-format dipoles need room around their centre
        g = gen_grid(rng, True, large)
        nd = g['nodes']
        m = min(1.0, min(n[-1] - n[0] for n in nd) / 4)
        if kind in ('wire', 'e_pair', 'e_flat') or m >= 0.75:
            break

    def centre(mm):
        return [nd[d][0] + mm + rng.randint(0, max(0, int((nd[d][-1] - nd[d][0] - 2 * mm) * 16))) / 16
                for d in range(3)]
    c = {'kind': kind, 'grid': g, 'electric': kind[0] != 'm'}
    if kind == 'wire':
        c['pts'] = gen_points(rng, g, rng.choice(['wire', 'cable']), allow_upper=False)
        c['electric'] = rng.random() < 0.5          # ignored by the code for (n,3) input
        c['length'] = rng.choice([1.0, 2.0, 0.5])   # ignored
    elif kind.endswith('point'):
        if kind == 'm_point':
            hd = rng.choice([h_ for h_ in (0.25, 0.5, 0.75, 1.0) if h_ <= m] or [m])
            c['length'] = 2 * hd * hd               # loop area; never the default 1.0
            if variant in ('len_missing', 'len_none'):
                c['length'], hd = 1.0, 0.75         # the default applies: area 1
            c['coo'] = centre(hd)
        else:
            c['length'] = rng.choice([l_ for l_ in (0.5, 0.75, 1.5, 2.0) if l_ / 2 <= m] or [m])
            if variant in ('len_missing', 'len_none'):
                c['length'] = 1.0
            c['coo'] = centre(c['length'] / 2)
        c['coo'] += [gen_angle(rng, False), gen_angle(rng, True)]
    else:
        dmax = m if c['electric'] else min(m, m * m / 1.8)
        k = max(1, int(dmax * 16))
        while True:
            dl = [rng.randint(-k, k) / 16 for _ in range(3)]
            if rng.random() < 0.4:
                dl[rng.randrange(3)] = 0.0
            # a magnetic pair becomes a loop of half-diagonal sqrt(|p1-p0|/2): keep it inside
            if any(dl) and (c['electric'] or (2 * math.sqrt(sum(x * x for x in dl)) / 2) ** 0.5 <= m):
                break
        ctr = centre(m)
        c['p0'] = [a - b for a, b in zip(ctr, dl)]
        c['p1'] = [a + b for a, b in zip(ctr, dl)]
        c['length'] = rng.choice([2.0, 0.5, 3.0])   # must be ignored for electrode formats
    u = rng.random()
    if u < 0.4:
        c['strength'] = complex(rng.randint(-12, 12) / 4 or 1.0, rng.randint(-12, 12) / 4 or 0.5)
        c['freq'] = rng.randint(1, 64) / 8
    else:
        c['strength'] = rng.choice(REAL_STRENGTHS)
        c['freq'] = rng.choice([rng.randint(1, 64) / 8, -rng.randint(1, 64) / 8, None])
    # keyword variants: what is PASSED ('val', x) / ('missing',) / ('none',); c['strength'],
    # c['length'], c['electric'] stay the EFFECTIVE values the documentation prescribes
    c['variant'] = variant
    kw = {'strength': ('val', c['strength']), 'length': ('val', c['length']),
          'electric': ('val', c['electric'])}
    if variant in ('st0', 'st0.0', 'st0j', 'stFalse'):
        z = {'st0': 0, 'st0.0': 0.0, 'st0j': 0j, 'stFalse': False}[variant]
        kw['strength'] = ('val', z)
        c['strength'] = z
        if variant == 'st0j':
            c['freq'] = rng.randint(1, 64) / 8
    elif variant == 'st_missing':
        kw['strength'] = ('missing',)
        c['strength'] = 1.0
    elif variant == 'st_none':
        kw['strength'] = ('none',)
        c['expect_error'] = True
    elif variant == 'len_missing':
        kw['length'] = ('missing',)
        if 'coo' not in c:
            c['length'] = 1.0
    elif variant == 'len_none':
        kw['length'] = ('none',)
        c['expect_error'] = 'coo' in c           # read (and fatal) only for the point format
    elif variant == 'len_zero':
        kw['length'] = ('val', 0.0)
        if 'coo' in c:
            c['length'] = 0.0
            c['expect_error'] = True             # 'Provided finite dipole has no length'
    elif variant == 'el_int':
        kw['electric'] = ('val', int(c['electric']))
    elif variant == 'el_none':
        if c['kind'] == 'wire' or not c['electric']:
            kw['electric'] = ('none',)           # only tested for truth: magnetic
        elif c['electric']:
            kw['electric'] = ('missing',)        # default: electric
    c['kw'] = kw
    return c


def form_kwargs(c):
    out = {}
    for k_, v_ in c['kw'].items():
        if v_[0] == 'val':
            out[k_] = v_[1]
        elif v_[0] == 'none':
            out[k_] = None
    return out


def fac_floor(c):
    """Magnitude below which source-field entries are rounding noise."""
    return 0.05 * max(abs(scale_factor(c['strength'], c['freq'])),
                      1e-3 * abs(scale_factor(1.0, c['freq'])))


def form_objects(c):
    """[(name, is_instance, object, fmt)]: every documented way of passing the source."""
    import emg3d
    kw = {'strength': c['strength']}
    out = []
    noinst = bool(c.get('expect_error'))

    def three(tag, seq, fmt, nested):
        if nested:
            return [(f'{tag}/ndarray', False, np.array(seq, float), fmt),
                    (f'{tag}/list', False, [list(p) for p in seq], fmt),
                    (f'{tag}/tuple', False, tuple(tuple(p) for p in seq), fmt)]
        return [(f'{tag}/ndarray', False, np.array(seq, float), fmt),
                (f'{tag}/list', False, list(seq), fmt), (f'{tag}/tuple', False, tuple(seq), fmt)]
    if c['kind'] == 'wire':
        if not noinst:
            out.append(('Tx(n,3)', True, emg3d.TxElectricWire(np.array(c['pts'], float), **kw), 'wire'))
        out += three('(n,3)', c['pts'], 'wire', True)
        return out
    cls = emg3d.TxElectricDipole if c['electric'] else emg3d.TxMagneticDipole
    if 'coo' in c:
        if not noinst:
            out.append(('Tx(point5)', True, cls(tuple(c['coo']), length=c['length'], **kw), 'point'))
        out += three('point5', c['coo'], 'point', False)
        return out
    p0, p1 = c['p0'], c['p1']
    flat = (p0[0], p1[0], p0[1], p1[1], p0[2], p1[2])
    if not noinst:
        out.append(('Tx(2,3)', True, cls(np.array([p0, p1], float), **kw), 'pair'))
        out.append(('Tx(flat6)', True, cls(flat, **kw), 'flat'))
    out += three('(2,3)', [p0, p1], 'pair', True)
    out += three('flat6', flat, 'flat', False)
    return out


def run_forms_impl(c):
    import emg3d
    gr = mesh(c['grid'])
    res = {}
    for name, inst, obj, fmt in form_objects(c):
        with warnings.catch_warnings(record=True) as w:
            warnings.simplefilter('always')
            try:
                if inst:
                    sf = emg3d.get_source_field(gr, obj, c['freq'])
                else:
                    sf = emg3d.get_source_field(gr, obj, c['freq'], **form_kwargs(c))
                res[name] = {'f': [np.array(sf.fx), np.array(sf.fy), np.array(sf.fz)], 'fmt': fmt,
                             'nwarn': sum('Normalizing' in str(x.message) for x in w)}
            except Exception as e:      # noqa
                res[name] = {'err': f"{type(e).__name__}: {e}"[:120], 'fmt': fmt}
    return res


def scale_factor(strength, freq):
    import scipy.constants as sc
    if freq is None:
        return complex(strength)
    if freq < 0:
        return -complex(strength) * (-freq) * sc.mu_0
    return -complex(strength) * 2j * np.pi * freq * sc.mu_0


def disc_moment(g, f):
    """1/2 sum r x j over the edges of a source field (position of an edge:
    its centre; only the transverse coordinates matter)."""
    nd = [np.array(n, float) for n in g['nodes']]
    cc = [(n[1:] + n[:-1]) / 2 for n in nd]
    fx, fy, fz = f
    Y, Z = np.meshgrid(nd[1], nd[2], indexing='ij')
    mx = np.array([0, np.sum(fx * Z[None]), -np.sum(fx * Y[None])])
    X, Z = np.meshgrid(nd[0], nd[2], indexing='ij')
    my = np.array([-np.sum(fy * Z[:, None, :]), 0, np.sum(fy * X[:, None, :])])
    X, Y = np.meshgrid(nd[0], nd[1], indexing='ij')
    mz = np.array([np.sum(fz * Y[:, :, None]), -np.sum(fz * X[:, :, None]), 0])
    return (mx + my + mz) / 2


def nominal_of(c):
    """('sum' | 'moment', vector): what the property requires, from the inputs only."""
    from scipy.special import cosdg, sindg
    fac = scale_factor(c['strength'], c['freq'])
    if c['kind'] == 'wire':
        return 'sum', fac * (np.array(c['pts'][-1]) - np.array(c['pts'][0]))
    if 'coo' in c:
        az, el = c['coo'][3], c['coo'][4]
        rot = np.array([cosdg(az) * cosdg(el), sindg(az) * cosdg(el), sindg(el)])
        return ('sum' if c['electric'] else 'moment'), fac * c['length'] * rot
    d = np.array(c['p1']) - np.array(c['p0'])
    return ('sum' if c['electric'] else 'moment'), fac * d


def check_forms_property(c, res=None):
    """Independent oracle: every form gives the nominal moment and the same
    field as the Tx-instance form.  Returns a hit dict or None."""
    if c.get('expect_error'):
        return None     # raising inputs: behaviour compared with the model by the correspondence
    res = res or run_forms_impl(c)
    what, want = nominal_of(c)
    ref = None
    wscale = max(float(np.max(np.abs(want))), fac_floor(c))
    base = {'kind': c['kind'], 'h': c['grid']['h'], 'origin': c['grid']['origin'],
            'strength': str(c['strength']), 'length': c['length'], 'electric': c['electric'],
            'frequency': c['freq'], 'keywords_passed': {k_: repr(v_) for k_, v_ in form_kwargs(c).items()},
            'source': c.get('coo') or c.get('pts') or [c['p0'], c['p1']]}
    for name, r in res.items():
        if 'err' in r:
            return dict(base, signature='get_source_field rejects a documented input form',
                        form=name, observed=r['err'])
        if r['nwarn']:
            return dict(base, signature='dipole vector needed the run-time re-normalisation', form=name)
        f = r['f']
        got = (np.array([a.sum() for a in f]) if what == 'sum' else disc_moment(c['grid'], f))
        if what == 'moment' and max(abs(a.sum()) for a in f) > 1e-9 * wscale:
            return dict(base, signature='magnetic dipole loop is not closed (non-zero total moment)',
                        form=name, observed=[str(a.sum()) for a in f])
        if not np.max(np.abs(got - want)) <= 1e-7 * wscale:
            sig = ('source field component sums differ from strength*(-s mu0)*electrode vector'
                   if what == 'sum' else
                   'magnetic moment of the source field differs from strength*length*direction*(-s mu0)')
            return dict(base, signature=sig, form=name, observed=[str(x) for x in got],
                        required=[str(x) for x in want])
        if ref is None:
            ref = (name, f)
        else:
            tol = 1e-9 * max(max(float(np.max(np.abs(a))) if a.size else 0 for a in ref[1]),
                             fac_floor(c)) \
                * (1000.0 if r['fmt'] != res[ref[0]]['fmt'] else 1.0)
            err = max(float(np.max(np.abs(a - b))) if a.size else 0.0 for a, b in zip(f, ref[1]))
            if not err <= tol:
                return dict(base, signature='input forms of the same source give different source fields',
                            form=name, reference_form=ref[0], observed_max_abs_difference=err)
    return None


def coq_form_case(k, c, fmt, clamp):
    import scipy.constants as sc
    g = c['grid']
    rec = Rec()
    mag = not c['electric']
    if fmt == 'wire':
        inp = "(PI_wire [" + '; '.join(coq_p3(p) for p in c['pts']) + "])"
    elif fmt == 'point':
        coo = c['coo']
        rec.trig(coo[3]), rec.trig(coo[4])
        if mag:
            rec.loop(coo[3], coo[4], c['length'])
        inp = f"(PI_dip (DPoint {coq_p3(coo[:3])} {V.q(coo[3])} {V.q(coo[4])}))"
    else:
        p0, p1 = c['p0'], c['p1']
        if mag:
            az, el, ln = rec.d2p(p0, p1)
            rec.loop(az, el, ln)
        inp = (f"(PI_dip (DPair {coq_p3(p0)} {coq_p3(p1)}))" if fmt == 'pair' else
               f"(PI_dip (DFlat {V.q(p0[0])} {V.q(p1[0])} {V.q(p0[1])} {V.q(p1[1])} "
               f"{V.q(p0[2])} {V.q(p1[2])}))")
    if not rec.r['cos']:
        rec.trig(0.0)
    if not rec.r['sqrt']:
        rec.r['sqrt'].append((Fr(0), 0.0))
    if not rec.r['angle']:
        rec.r['angle'].append((Fr(0), Fr(0), 0.0))
    stc = isinstance(c['strength'], complex)
    fq = 'None' if c['freq'] is None else f"(Some {V.q(c['freq'])})"

    def kwq(v, f):
        return 'KwMissing' if v[0] == 'missing' else 'KwNone' if v[0] == 'none' else f"(KwVal {f(v[1])})"
    kst = kwq(c['kw']['strength'], lambda x: f"({V.q(complex(x).real)}, {V.q(complex(x).imag)})")
    klen = kwq(c['kw']['length'], lambda x: V.q(float(x)))
    kel = kwq(c['kw']['electric'], lambda x: V.coq_bool(bool(x)))     # python truth value
    scale = (f"(fun v : Q => cstr (source_scale Qle_bool {V.q(math.pi)} {V.q(sc.mu_0)} {fq} "
             f"S{k} {V.coq_bool(stc)} v))")
    L = [f"Definition G{k} := {coq_grid(g)}.",
         f"Definition P{k} := gsf_plain Qle_bool {conv_oracles(rec.r)} {kst} {klen} {kel} {inp}.",
         f"Definition S{k} : Q * Q := match P{k} with Some ps => snd ps | None => (0%Q, 0%Q) end.",
         f"Definition R{k} := Eval vm_compute in match P{k} with Some ps => dipole_vector Qle_bool "
         f"{V.coq_bool(clamp)} G{k} (map psnap (fst ps)) | None => SErr 7 end."]
    for comp in range(3):
        sh = fshape(g['shape'], comp)
        L.append(f"Eval vm_compute in sjoin (res_dump {scale} R{k} {comp} {sh[0]} {sh[1]} {sh[2]}).")
    return '\n'.join(L)


def case_formats(c):
    return ['wire'] if c['kind'] == 'wire' else ['point'] if 'coo' in c else ['pair', 'flat']


def corr_forms(ctx, n, dis, hist, samples, clamp):
    rng = ctx.rng
    cases = [gen_form_case(rng, FORM_KINDS[i % len(FORM_KINDS)], large=(i % 6 == 5 and
                           FORM_KINDS[i % len(FORM_KINDS)] in ('wire', 'm_point')),
                           variant=KW_VARIANTS[i % len(KW_VARIANTS)])
             for i in range(n)]
    jobs = [(i, fmt) for i, c in enumerate(cases) for fmt in case_formats(c)]
    texts = []
    for b, chunk in enumerate(batches(list(enumerate(jobs)), PER_FILE['fm'])):
        texts.append((f"c10_fm_{b}", HEADER + '\n'.join(
            coq_form_case(k, cases[i], fmt, clamp) for k, (i, fmt) in chunk) + '\n'))
    res = yield texts
    model = {}
    for b, chunk in enumerate(batches(list(enumerate(jobs)), PER_FILE['fm'])):
        rc, out = res[f"c10_fm_{b}"]
        if rc != 0:
            dis.append({'what': 'Source model does not evaluate (input-form cases)', 'log': out[-1500:]})
            continue
        ans = V.eval_answers(out)
        for j, (k, (i, fmt)) in enumerate(chunk):
            model[(i, fmt)] = [fx_cvals(ans[3 * j + comp]) for comp in range(3)]
    nforms, nontriv = 0, set()
    for i, c in enumerate(cases):
        impl = run_forms_impl(c)
        brief = {'kind': 'forms/' + c['kind'], 'h': c['grid']['h'], 'origin': c['grid']['origin'],
                 'source': c.get('coo') or c.get('pts') or [c['p0'], c['p1']],
                 'strength': str(c['strength']), 'length': c['length'], 'electric': c['electric'],
                 'frequency': c['freq'], 'variant': c['variant'],
                 'keywords_passed': {k_: repr(v_) for k_, v_ in form_kwargs(c).items()}}
        if len(samples) < 12 and i % 5 == 0:
            samples.append(brief)
        hit = check_forms_property(c, impl)
        if hit:
            dis.append({'what': 'input-form stream: ' + hit['signature'], 'case': brief,
                        'form': hit.get('form'), 'impl': hit.get('observed'), 'model': hit.get('required')})
        exact = c['electric'] and 'coo' not in c or c['kind'] == 'wire'
        for name, r in impl.items():
            nforms += 1
            hk = f"forms/{'large/' if c['grid'].get('large') else ''}{c['kind']}/{name}"
            hist[hk] = hist.get(hk, 0) + 1
            hv = 'forms/keywords/' + c['variant']
            hist[hv] = hist.get(hv, 0) + 1
            mv = model.get((i, r['fmt']))
            if mv is None:
                continue
            # model: the call raises (all dumps empty, or entries the scaling rejects)
            merr = not any(mv) or any(x is None for m_ in mv for x in m_)
            if merr or 'err' in r:
                if merr != ('err' in r):
                    dis.append({'what': 'get_source_field error behaviour for these keywords differs '
                                        'from the model (gsf_plain)',
                                'case': brief, 'form': name, 'impl': r.get('err', 'returns a field'),
                                'model': 'raises' if merr else 'returns a field'})
                continue
            mscale = max([abs(x) for m_ in mv for x in m_] + [fac_floor(c)])
            rtol = (1e-9 if exact else 1e-6) * (1000.0 if c['grid'].get('large') else 1.0)
            for comp in range(3):
                iv = r['f'][comp].ravel()
                bad = None
                if len(iv) != len(mv[comp]):
                    bad = f"size {len(iv)} vs {len(mv[comp])}"
                else:
                    for q in range(len(iv)):
                        if not abs(complex(iv[q]) - mv[comp][q]) <= rtol * mscale:
                            bad = f"flat index {q}: impl {iv[q]!r} model {mv[comp][q]!r}"
                            break
                if bad:
                    dis.append({'what': 'get_source_field(coordinates + keywords) differs from the model '
                                        '(plain_points -> dipole_vector -> source_scale)',
                                'case': brief, 'form': name, 'component': 'xyz'[comp], 'detail': bad})
                    break
        nontriv.add((c['kind'], c['variant'], type(c['strength']).__name__,
                     'none' if c['freq'] is None else 'laplace' if c['freq'] < 0 else 'freq',
                     bool(c['grid'].get('large'))))
    return nforms, len(nontriv)


# ------------------------- part 6: request histories on ONE source instance
# Class: results of get_source_field must be a function of (grid, source, frequency) for EVERY history of
# requests on one source instance, and returned arrays must not alias internal state (a memo on the instance
# handed out without a copy and scaled in place by a real-valued request poisons all later requests).
HIST_EDITS = ['times2', 'fill7', 'zero']


def anchor_stateless():
    """ast anchor (fails closed): get_source_field / _dipole_vector / _point_vector keep no per-instance or
    module state and return fresh arrays.  Returns a list of problems (empty = the shape Model/SourceHist.v
    describes with memo = false)."""
    import ast
    import os
    import emg3d
    path = os.path.join(os.path.dirname(emg3d.__file__), 'fields.py')
    tree = ast.parse(open(path).read())
    probs = []
    funcs = {n.name: n for n in tree.body if isinstance(n, ast.FunctionDef)}
    # module-level names that are NOT functions / classes / imports (possible mutable module state)
    modvars = set()
    for n in tree.body:
        if isinstance(n, (ast.Assign, ast.AnnAssign, ast.AugAssign)):
            for t_ in (n.targets if isinstance(n, ast.Assign) else [n.target]):
                for q in ast.walk(t_):
                    if isinstance(q, ast.Name):
                        modvars.add(q.id)
    modvars.discard('__all__')
    for fn in ('get_source_field', '_dipole_vector', '_point_vector'):
        f = funcs.get(fn)
        if f is None:
            probs.append(f"fields.{fn} not found")
            continue
        if f.decorator_list:
            probs.append(f"fields.{fn} is decorated (possible cache)")
        for d in f.args.defaults + [d for d in f.args.kw_defaults if d is not None]:
            if not isinstance(d, ast.Constant):
                probs.append(f"fields.{fn} has a non-constant default argument (possible state)")
        for n in ast.walk(f):
            if isinstance(n, (ast.Global, ast.Nonlocal)):
                probs.append(f"fields.{fn} uses global/nonlocal")
            if isinstance(n, ast.Name) and n.id in modvars:
                probs.append(f"fields.{fn} uses the module variable {n.id}")
            if isinstance(n, ast.Call) and isinstance(n.func, ast.Name) and \
                    n.func.id in ('setattr', 'getattr', 'hasattr', 'vars', 'id', 'delattr'):
                probs.append(f"fields.{fn} calls {n.func.id}(...)")
            if isinstance(n, ast.Attribute) and n.attr == '__dict__':
                probs.append(f"fields.{fn} touches __dict__")
    g = funcs.get('get_source_field')
    if g is not None:
        parents = {}
        for n in ast.walk(g):
            for ch in ast.iter_child_nodes(n):
                parents[ch] = n
        ok_attrs = {'size', 'coordinates', 'points', 'strength'}
        tx = {'TxElectricWire', 'TxElectricDipole', 'TxMagneticDipole'}

        def callee(c):
            fu = c.func
            return fu.attr if isinstance(fu, ast.Attribute) else fu.id if isinstance(fu, ast.Name) else '?'
        for n in ast.walk(g):
            if not (isinstance(n, ast.Name) and n.id == 'source'):
                continue
            par = parents.get(n)
            if isinstance(n.ctx, ast.Store):
                if not (isinstance(par, ast.Assign) and isinstance(par.value, ast.Call)
                        and callee(par.value) in tx | {'asarray'}):
                    probs.append("get_source_field rebinds `source` to something else than np.asarray / Tx*")
                continue
            if isinstance(par, ast.Attribute) and par.value is n:
                if not isinstance(par.ctx, ast.Load) or par.attr not in ok_attrs:
                    probs.append(f"get_source_field uses source.{par.attr} "
                                 f"({'store' if not isinstance(par.ctx, ast.Load) else 'read'})")
                continue
            if isinstance(par, ast.Call) and n in par.args and par.args[0] is n and \
                    callee(par) in tx | {'isinstance', 'asarray'}:
                continue
            probs.append("get_source_field hands the source instance itself to other code: "
                         + ast.unparse(par)[:80])
        # the scaled array: sfield = Field(grid, data=vfield.field, frequency=frequency); only sfield.field is
        # updated in place; vfield comes from one of the three vector functions
        for n in ast.walk(g):
            if isinstance(n, ast.AugAssign):
                if ast.unparse(n.target) != 'sfield.field':
                    probs.append("get_source_field updates in place: " + ast.unparse(n.target))
            if isinstance(n, ast.Assign) and ast.unparse(n.targets[0]) == 'vfield':
                if not (isinstance(n.value, ast.Call) and callee(n.value) in
                        ('_point_vector', '_point_vector_magnetic', '_dipole_vector')):
                    probs.append("get_source_field: vfield = " + ast.unparse(n.value)[:60])
            if isinstance(n, ast.Assign) and ast.unparse(n.targets[0]) == 'sfield':
                if ast.unparse(n.value) != 'Field(grid, data=vfield.field, frequency=frequency)':
                    probs.append("get_source_field: sfield = " + ast.unparse(n.value)[:80])
            if isinstance(n, ast.Return) and ast.unparse(n.value) != 'sfield':
                probs.append("get_source_field returns " + ast.unparse(n.value)[:60])
    for fn in ('_dipole_vector', '_point_vector'):
        f = funcs.get(fn)
        if f is None:
            continue
        fresh = [n for n in ast.walk(f) if isinstance(n, ast.Assign) and ast.unparse(n.targets[0]) == 'vfield']
        if len(fresh) != 1 or not ast.unparse(fresh[0].value).startswith('Field(grid'):
            probs.append(f"{fn}: vfield is not created as one fresh Field(grid, ...)")
        elif 'data' in ast.unparse(fresh[0].value):
            probs.append(f"{fn}: vfield is created from existing data")
        for n in ast.walk(f):
            if isinstance(n, ast.Return) and n.value is not None and ast.unparse(n.value) != 'vfield' \
                    and not (isinstance(n.value, (ast.List, ast.Tuple, ast.Name, ast.Constant))
                             and fn == '_dipole_vector' and ast.unparse(n.value) in ('[vmin, vmax]',)):
                # inner helper functions of _dipole_vector return index pairs
                inner = any(isinstance(q, ast.FunctionDef) and q is not f and n in list(ast.walk(q))
                            for q in ast.walk(f))
                if not inner:
                    probs.append(f"{fn} returns {ast.unparse(n.value)[:60]}")
    return sorted(set(probs))


def hist_grid2(g):
    """Second grid of the same extent: widths reversed, first cell split in two."""
    hs = []
    for h in g['h']:
        r = list(reversed(h))
        hs.append([r[0] / 2, r[0] / 2] + r[1:])
    nodes = []
    for o, h in zip(g['origin'], hs):
        nd = [o]
        for w in h:
            nd.append(nd[-1] + w)
        nodes.append(nd)
    return {'h': hs, 'origin': list(g['origin']), 'nodes': nodes, 'shape': [len(h) for h in hs],
            'large': g.get('large', False)}


def gen_hist_case(rng, i):
    kind = ['dipole', 'mag', 'wire'][i % 3]
    large = (i % 4 == 3) and (kind != 'dipole' or not close_defect_reproduces())
    g1 = gen_grid(rng, False, large)
    g2 = hist_grid2(g1)
    c = {'kind': kind, 'grids': [g1, g2]}
    if kind == 'mag':
        c['coo'], c['area'], c['pts'] = gen_mag(rng, g1)
    elif kind == 'wire':
        c['pts'] = gen_points(rng, g1, rng.choice(['wire', 'cable']), allow_upper=False)
    else:
        c['pts'] = gen_points(rng, g1, rng.choice(['generic', 'nodes', 'axis']), allow_upper=False)
    cplx = (i % 5 == 4)
    st = rng.choice(REAL_STRENGTHS)
    c['strength'] = [float(st), rng.choice([2.0, -0.5, 1.25]) if cplx else 0.0]
    c['cplx'] = cplx
    fa, fa2, fb, fb2 = (-rng.randint(1, 64) / 8, -rng.randint(65, 128) / 8, rng.randint(1, 64) / 8,
                        rng.randint(65, 128) / 8)
    R, Ed = (lambda g, f: ['req', g, f]), (lambda k, e: ['edit', k, e])
    if cplx:        # real-valued requests raise (numpy cast); the instance must stay usable
        ops = [R(0, None), R(0, fb), R(0, fa), R(0, fb), Ed(1, 'times2'), R(1, fb), R(0, fb), R(0, fb2)]
    else:
        ops = [
            [R(0, None), R(0, None), R(0, fb), R(1, None), R(0, fa), Ed(0, 'times2'), R(0, None), R(0, fb)],
            [R(0, fa), R(0, fb), R(0, fa), Ed(2, 'fill7'), R(0, None), R(1, fa), R(0, fa), R(0, fa2)],
            [R(0, fb), R(0, None), Ed(1, 'times2'), R(0, None), R(1, fb), R(0, fb), R(0, fa), R(0, fa)],
            [R(1, None), R(0, None), R(1, None), R(0, fa), Ed(3, 'zero'), R(0, fa), R(0, fb), R(1, fa)],
        ][i % 4]
    nreq = sum(1 for o in ops if o[0] == 'req')
    for _ in range(rng.randint(1, 3)):          # random tail
        if rng.random() < 0.3 and not cplx:
            ops.append(Ed(rng.randrange(nreq), rng.choice(HIST_EDITS)))
        else:
            ops.append(R(rng.randrange(2), rng.choice([None, fa, fa2, fb] if not cplx else [fb, fb2, fa])))
            nreq += 1
    c['ops'] = ops
    c['via'] = [rng.choice(['method', 'function']) for _ in ops]
    return c


def hist_source(c):
    import emg3d
    st = complex(*c['strength']) if c['cplx'] else c['strength'][0]
    if c['kind'] == 'mag':
        return emg3d.TxMagneticDipole(tuple(c['coo']), strength=st, length=c['area'])
    if c['kind'] == 'wire':
        return emg3d.TxElectricWire(np.array(c['pts'], float), strength=st)
    return emg3d.TxElectricDipole(np.array(c['pts'], float), strength=st)


def reachable_arrays(obj, depth=4, seen=None):
    """All ndarrays reachable from an object's attributes (generic: no attribute names assumed)."""
    seen = seen if seen is not None else set()
    out = []
    if id(obj) in seen or depth < 0:
        return out
    seen.add(id(obj))
    if isinstance(obj, np.ndarray):
        return [obj]
    if isinstance(obj, dict):
        items = list(obj.values())
    elif isinstance(obj, (list, tuple, set)):
        items = list(obj)
    elif hasattr(obj, '__dict__') and not isinstance(obj, type) and not callable(obj):
        items = list(vars(obj).values())
        if hasattr(obj, 'field') and not isinstance(obj, np.ndarray):
            try:
                items.append(obj.field)
            except Exception:      # noqa
                pass
    else:
        return out
    for it in items:
        out += reachable_arrays(it, depth - 1, seen)
    return out


def hist_run_impl(c):
    """Drive ONE source instance through the history.  Per op: for a request the field as returned (copy),
    dtype, alias / mutation findings; at the end the current contents of every returned array."""
    import emg3d
    grids = [mesh(g) for g in c['grids']]
    src = hist_source(c)
    recs, returned = [], []
    known = {}                              # id(array) -> (array, contents when first seen)
    for op, via in zip(c['ops'], c['via']):
        if op[0] == 'edit':
            fld = returned[op[1]] if op[1] < len(returned) else None
            if fld is not None:
                if op[2] == 'times2':
                    fld.field *= 2
                elif op[2] == 'fill7':
                    fld.field[:] = 7
                else:
                    fld.fx[...] = 0
                    fld.fy[...] = 0
                    fld.fz[...] = 0
            recs.append({'op': op})
            continue
        rec = {'op': op}
        with warnings.catch_warnings(record=True) as w:
            warnings.simplefilter('always')
            try:
                if via == 'method':
                    sf = src.get_field(grids[op[1]], op[2])
                else:
                    sf = emg3d.get_source_field(grids[op[1]], src, op[2])
            except Exception as e:      # noqa
                rec['err'] = f"{type(e).__name__}: {e}"[:120]
                returned.append(None)
                recs.append(rec)
                continue
        rec['nwarn'] = sum('Normalizing' in str(x.message) for x in w)
        rec['f'] = [np.array(sf.fx), np.array(sf.fy), np.array(sf.fz)]
        rec['dtype'] = str(sf.field.dtype)
        internal = reachable_arrays(src)
        rec['alias_internal'] = any(np.shares_memory(sf.field, a) for a in internal)
        rec['alias_returned'] = any(r is not None and np.shares_memory(sf.field, r.field) for r in returned)
        changed = False
        for a in internal:
            if id(a) in known and known[id(a)][0] is a:
                if not np.array_equal(known[id(a)][1], a, equal_nan=True):
                    changed = True
            known[id(a)] = (a, a.copy())
        rec['internal_changed'] = changed
        returned.append(sf)
        recs.append(rec)
    finals = [None if r is None else [np.array(r.fx), np.array(r.fy), np.array(r.fz)] for r in returned]
    return recs, finals


def hist_brief(c):
    return {'kind': 'history/' + c['kind'], 'grids': [{'h': g['h'], 'origin': g['origin']} for g in c['grids']],
            'source': c.get('coo') or c['pts'], 'area': c.get('area'), 'strength': c['strength'],
            'ops (grid index, frequency | edit k-th returned field)': c['ops'], 'via': c['via']}


def hist_nominal(c, gi, f):
    """('sum'|'moment', required vector) of one request, from the inputs only."""
    from scipy.special import cosdg, sindg
    st = complex(*c['strength'])
    fac = scale_factor(st, f)
    if c['kind'] == 'mag':
        az, el = c['coo'][3], c['coo'][4]
        rot = np.array([cosdg(az) * cosdg(el), sindg(az) * cosdg(el), sindg(el)])
        return 'moment', fac * c['area'] * rot, fac
    return 'sum', fac * (np.array(c['pts'][-1]) - np.array(c['pts'][0])), fac


def apply_edit(arrs, e):
    if e == 'times2':
        return [a * 2 for a in arrs]
    return [np.full_like(a, 7 if e == 'fill7' else 0) for a in arrs]


def check_hist_property(c, run=None, strict_alias=False):
    """Independent oracle on a history: every request gives the nominal moment, equals the result of a FRESH
    instance for the same (grid, source, frequency), does not alias / mutate the instance's state, and the
    returned arrays change only through the caller's own edits.  Returns a hit dict or None."""
    recs, finals = run or hist_run_impl(c)
    base = {'history_case': c}
    expect = []                 # contents the caller must see in each returned array
    nreq = 0
    alias_hit = None
    for k, rec in enumerate(recs):
        op = rec['op']
        if op[0] == 'edit':
            if op[1] < len(expect) and expect[op[1]] is not None:
                expect[op[1]] = apply_edit(expect[op[1]], op[2])
            continue
        nreq += 1
        real_req = op[2] is None or op[2] < 0
        where = {'op_index': k, 'request': op, 'requests_before': [r['op'] for r in recs[:k]]}
        if 'err' in rec:
            expect.append(None)
            if c['cplx'] and real_req:
                continue            # documented numpy behaviour: complex strength on a real-valued field
            return dict(base, signature='get_source_field raises on a re-used source instance', **where,
                        observed=rec['err'])
        expect.append([a.copy() for a in rec['f']])
        what, want, fac = hist_nominal(c, op[1], op[2])
        seg = max([abs(b_ - a) for p_, q_ in zip(c['pts'][:-1], c['pts'][1:]) for a, b_ in zip(p_, q_)] + [0.05])
        wscale = max(float(np.max(np.abs(want))), abs(fac) * seg * 0.05)
        f = rec['f']
        got = (np.array([a.sum() for a in f]) if what == 'sum' else disc_moment(c['grids'][op[1]], f))
        tol = 1e-7 * wscale * (100.0 if c['grids'][0].get('large') else 1.0)
        if what == 'moment' and max(abs(a.sum()) for a in f) > tol:
            return dict(base, signature='history: magnetic dipole loop is not closed (non-zero total moment)',
                        **where, observed=[str(a.sum()) for a in f])
        if not np.max(np.abs(got - want)) <= tol:
            return dict(base, signature='history: source field of a re-used source instance differs from '
                                        'strength*(-s mu0)*nominal moment', **where,
                        observed=[str(x) for x in got], required=[str(x) for x in want])
        # function of (grid, source, frequency): same as a fresh instance
        import emg3d
        fresh = emg3d.get_source_field(mesh(c['grids'][op[1]]), hist_source(c), op[2])
        ff = [np.array(fresh.fx), np.array(fresh.fy), np.array(fresh.fz)]
        err = max(float(np.max(np.abs(a - b))) if a.size else 0.0 for a, b in zip(f, ff))
        ref = max(max(float(np.max(np.abs(a))) if a.size else 0.0 for a in ff), 1e-300)
        if not err <= 1e-12 * ref or rec['dtype'] != str(fresh.field.dtype):
            return dict(base, signature='history: result depends on earlier requests on the same source instance '
                                        '(differs from a fresh instance)', **where,
                        observed_max_abs_difference=err, fresh_max_abs=ref)
        if alias_hit is None and (rec['alias_internal'] or rec['alias_returned'] or rec['internal_changed']):
            alias_hit = dict(base, signature='history: returned field aliases / mutates state kept with the '
                                             'source instance or an earlier returned field', **where,
                             observed={k_: rec[k_] for k_ in ('alias_internal', 'alias_returned',
                                                               'internal_changed')})
    for k, (e, fin) in enumerate(zip(expect, finals)):
        if e is None:
            continue
        err = max(float(np.max(np.abs(a - b))) if a.size else 0.0 for a, b in zip(e, fin))
        ref = max(max(float(np.max(np.abs(a))) if a.size else 0.0 for a in e), 1e-300)
        if not err <= 1e-12 * ref:
            return dict(base, signature='history: a returned field was changed by later requests',
                        returned_index=k, observed_max_abs_difference=err)
    # aliasing alone (all results still right) is a finding of the correspondence, not a property failure
    return alias_hit if strict_alias else None


def coq_hist_case(k, c, clamp):
    import scipy.constants as sc
    L = []
    for t, g in zip('ab', c['grids']):
        sh = [fshape(g['shape'], comp) for comp in range(3)]
        L.append(f"Definition G{k}{t} := {coq_grid(g)}.")
        L.append(f"Definition R{k}{t} := Eval vm_compute in dipole_vector Qle_bool {V.coq_bool(clamp)} G{k}{t} "
                 f"[{'; '.join(coq_p3(p) for p in c['pts'])}].")
        L.append(f"Definition U{k}{t} : list (option (Q * Q)) := Eval vm_compute in "
                 f"map (fun v : Q => Some (Qred v, 0%Q)) ("
                 + ' ++ '.join(f"res_dump (fun v : Q => v) R{k}{t} {comp} {s_[0]} {s_[1]} {s_[2]}"
                               for comp, s_ in enumerate(sh)) + ").")
    st = c['strength']
    L.append(f"Definition SC{k} (f : option Q) (vec : list (option (Q * Q))) : list (option (Q * Q)) := "
             f"map (fun o => match o with Some (a, b) => if Qeq_bool b 0 then "
             f"source_scale Qle_bool {V.q(math.pi)} {V.q(sc.mu_0)} f ({V.q(st[0])}, {V.q(st[1])}) "
             f"{V.coq_bool(c['cplx'])} a else None | None => None end) vec.")
    ops = []
    for op in c['ops']:
        if op[0] == 'req':
            fq = 'None' if op[2] is None else f"(Some {V.q(op[2])})"
            ops.append(f"Request bool (option Q) nat {V.coq_bool(op[1] == 1)} {fq}")
        else:
            ops.append(f"Edit bool (option Q) nat {op[1]}%nat {HIST_EDITS.index(op[2])}%nat")
    L.append(f"Definition OPS{k} := [{'; '.join(ops)}].")
    L.append(f"Definition RUN{k} := run bool (option Q) nat (list (option (Q * Q))) Bool.eqb hs_real "
             f"(fun g : bool => if g then U{k}b else U{k}a) SC{k} hs_edit false false "
             f"(st0 bool (list (option (Q * Q))) []) OPS{k}.")
    # one answer per request (a single string for the whole history overflowed the VM stack on larger grids)
    L.append(f"Definition OBS{k} := Eval vm_compute in snd RUN{k}.")
    L.append(f"Definition FIN{k} := Eval vm_compute in map (heap _ _ (fst RUN{k})) (outs _ _ (fst RUN{k})).")
    nreq = 0
    for q, op in enumerate(c['ops']):
        if op[0] == 'req':
            L.append(f"Eval vm_compute in match nth_error OBS{k} {q}%nat with Some (Some v) => sjoin (map cstr v) "
                     f"| _ => EmptyString end.")
            nreq += 1
    for r in range(nreq):
        L.append(f"Eval vm_compute in match nth_error FIN{k} {r}%nat with Some v => sjoin (map cstr v) "
                 f"| _ => EmptyString end.")
    return '\n'.join(L)


HIST_HEADER = """Definition hs_real (f : option Q) : bool := match f with None => true | Some x => Qle_bool x 0 end.
Definition hs_edit (e : nat) (vec : list (option (Q * Q))) : list (option (Q * Q)) :=
  match e with
  | O => map (option_map (fun c : Q * Q => ((2 # 1) * fst c, (2 # 1) * snd c)%Q)) vec
  | S O => map (fun _ => Some ((7 # 1)%Q, 0%Q)) vec
  | _ => map (fun _ => Some (0%Q, 0%Q)) vec
  end.
"""


def corr_hist(ctx, n, dis, hist, samples, clamp):
    rng = ctx.rng
    for p_ in anchor_stateless():
        dis.append({'what': 'model tie (Model/SourceHist.v, memo = false): get_source_field is no longer '
                            'stateless / fresh-array code: ' + p_})
    cases = [gen_hist_case(rng, i) for i in range(n)]
    texts = []
    for b, chunk in enumerate(batches(list(enumerate(cases)), PER_FILE['hs'])):
        texts.append((f"c10_hs_{b}", HEADER + HIST_HEADER + '\n'.join(
            coq_hist_case(k, c, clamp) for k, c in chunk) + '\n'))
    res = yield texts
    nev, nontriv = 0, set()
    for b, chunk in enumerate(batches(list(enumerate(cases)), PER_FILE['hs'])):
        rc, out = res[f"c10_hs_{b}"]
        if rc != 0:
            dis.append({'what': 'SourceHist machine does not evaluate (history cases)', 'log': out[-1500:]})
            continue
        ans = V.eval_answers(out)
        apos = 0
        for j, (k, c) in enumerate(chunk):
            brief = hist_brief(c)
            if len(samples) < 14 and k % 4 == 0:
                samples.append(brief)
            nrq = sum(1 for o in c['ops'] if o[0] == 'req')
            mobs, mfin, r_ = [], [], 0
            for o in c['ops']:
                mobs.append(fx_cvals(ans[apos + r_]) if o[0] == 'req' else [])
                r_ += int(o[0] == 'req')
            mfin = [fx_cvals(ans[apos + nrq + r]) for r in range(nrq)]
            apos += 2 * nrq
            run = hist_run_impl(c)
            recs, finals = run
            hit = check_hist_property(c, run, strict_alias=True)
            if hit:
                dis.append({'what': 'history stream: ' + hit['signature'], 'case': brief,
                            'impl': hit.get('observed', hit.get('observed_max_abs_difference')),
                            'model': hit.get('required'), 'op_index': hit.get('op_index')})
            st = complex(*c['strength'])
            seg = max([abs(b_ - a) for p_, q_ in zip(c['pts'][:-1], c['pts'][1:]) for a, b_ in zip(p_, q_)]
                      + [0.05])
            ireq = 0
            seen_modes = []
            for q, rec in enumerate(recs):
                op = rec['op']
                hk = f"history/{'large/' if c['grids'][0].get('large') else ''}{c['kind']}/" + (
                    'edit' if op[0] == 'edit' else
                    'req_none' if op[2] is None else 'req_laplace' if op[2] < 0 else 'req_freq')
                hist[hk] = hist.get(hk, 0) + 1
                if op[0] == 'edit':
                    seen_modes.append('e')
                    continue
                nev += 1
                seen_modes.append('r' if (op[2] is None or op[2] < 0) else 'c')
                mv = mobs[q] if q < len(mobs) else []
                merr = any(x is None for x in mv)
                if merr != ('err' in rec):
                    dis.append({'what': 'history stream: error behaviour of a request differs from the model',
                                'case': brief, 'op_index': q, 'impl': rec.get('err', 'returns a field'),
                                'model': 'raises' if merr else 'returns a field'})
                    ireq += 1
                    continue
                for tag, mvec, ivec in (('returned field', mv, None if merr else rec['f']),
                                        ('returned field at the end of the history',
                                         mfin[ireq] if ireq < len(mfin) else [], finals[ireq])):
                    if merr or ivec is None:
                        continue
                    iv = np.concatenate([a.ravel() for a in ivec])
                    fac = abs(scale_factor(st, op[2]))
                    scale = max(float(np.max(np.abs(iv))) if iv.size else 0.0,
                                max([abs(x) for x in mvec if x is not None] + [0.0]), fac * seg * 0.05, 1e-300)
                    if c['grids'][0].get('large'):
                        scale *= 1000.0
                    if c['kind'] == 'mag':
                        scale *= 1000.0     # loop points are oracle-derived floats
                    bad = None
                    if len(iv) != len(mvec):
                        bad = f"size {len(iv)} vs {len(mvec)}"
                    else:
                        for z in range(len(iv)):
                            if mvec[z] is None or not abs(complex(iv[z]) - mvec[z]) <= 1e-9 * scale:
                                bad = f"flat index {z}: impl {iv[z]!r} model {mvec[z]!r}"
                                break
                    if bad is None and tag == 'returned field' and \
                            rec['dtype'] != ('float64' if (op[2] is None or op[2] < 0) else 'complex128'):
                        bad = f"dtype {rec['dtype']}"
                    if bad:
                        dis.append({'what': f'history stream: {tag} differs from the SourceHist machine '
                                            '(= scale f (dipole_vector grid source))',
                                    'case': brief, 'op_index': q, 'request': op, 'detail': bad})
                        break
                ireq += 1
            nontriv.add((c['kind'], c['cplx'], bool(c['grids'][0].get('large')), ''.join(seen_modes)))
    return nev, len(nontriv)


# --------------------------------------------------------------- correspondence
def STREAMS(ctx, clamp):
    """[(name, run(dis, hist, samples) -> (evaluations, distinct non-trivial))] in run order."""
    t = ctx.thorough
    return [
        ('dipole', lambda d, h, s: corr_dipole(ctx, 315 if t else 105, d, h, s, clamp)),
        ('point', lambda d, h, s: corr_point(ctx, 160 if t else 40, d, h, s)),
        ('gsf', lambda d, h, s: corr_gsf(ctx, 120 if t else 40, d, h, s, clamp)),
        ('conv', lambda d, h, s: corr_conv(ctx, 300 if t else 75, d, h, s)),
        ('forms', lambda d, h, s: corr_forms(ctx, 96 if t else 32, d, h, s, clamp)),
        ('hist', lambda d, h, s: corr_hist(ctx, 32 if t else 8, d, h, s, clamp)),
    ]


def run_streams(ctx, clamp, dis, hist, samples, only=None):
    """Every stream is a generator: it yields its Coq case files and is sent their results.  The case files of
    ALL streams are evaluated in one parallel batch; the comparisons then run stream by stream."""
    gens, texts = [], []
    for name, mk in STREAMS(ctx, clamp):
        if only and name not in only:
            continue
        g = mk(dis, hist, samples)
        gens.append((name, g))
        texts.append(next(g))
    res = V.coq_eval_many([t for tl in texts for t in tl])
    tot = {}
    for (name, g), tl in zip(gens, texts):
        try:
            g.send({n_: res[n_] for n_, _ in tl})
            raise RuntimeError(f"stream {name} yielded twice")
        except StopIteration as e:
            tot[name] = e.value
    return tot


def correspondence(ctx):
    clamp = impl_variant()
    ctx.notes.append("min_max_ind variant of the current source: "
                     + ("clamped (repaired)" if clamp else "pinned (upper-plane segments visit no cell)"))
    dis, hist, samples = [], {}, []
    tot = run_streams(ctx, clamp, dis, hist, samples)
    n1, d1 = (tot['dipole'][0] + tot['forms'][0] + tot['hist'][0],
              tot['dipole'][1] + tot['forms'][1] + tot['hist'][1])
    n2, d2 = tot['point']
    n3, d3 = tot['gsf']
    n4, d4 = tot['conv']
    return {
        'evaluations': n1 + n2 + n3 + n4,
        'distinct_nontrivial': d1 + d2 + d3 + d4,
        'rule': "dipole/wire cases: random stretched grid (1..4(5) cells per direction, widths and origin "
                "multiples of 1/4), electrodes multiples of 1/16 inside the grid; kinds cycle through 38% "
                "generic, 62% adversarial (on nodes, on the boundary, axis-aligned, inside one cell, wires "
                "with 3..8 electrodes, outside the grid, zero-length segment); non-trivial = some coordinate "
                "on a node, a zero direction, a wire, or an error; distinct by (kind, shape, zero-direction "
                "pattern, #coordinates on nodes). point cases: positions generic / on nodes / on cell centres "
                "/ on the boundary / outside, angles 60% from the special list (0, +-90, +-180, ...). "
                "get_source_field: source type x frequency mode (f>0, f<0, None, 0) x strength type. "
                "conversions: point_to_dipole, dipole_to_point, point_to_square_loop, Tx(Electric|Magnetic)"
                "Dipole from the three coordinate formats incl. identical electrodes; oracle values "
                "(cosdg, sindg, sqrt, angle) are taken from the implementation's primitives. "
                "input forms: every source (electric/magnetic dipole as point5 + length, (2,3), flat6; wire "
                "(n,3)) is requested as Tx instance and as ndarray/list/tuple + strength/length/electric "
                "keywords (non-default real and complex strength, length != 1); each form is compared with "
                "the model (plain_points -> dipole_vector -> source_scale), with the Tx-instance form and "
                "with the nominal moment (component sums / discrete magnetic moment 1/2 sum r x j); "
                "evaluations count one per form. histories: ONE source instance (dipole / magnetic loop / wire, "
                "strength != 1, every 5th complex) driven through 9-11 operations: requests on two grids with "
                "frequency None / Laplace / > 0 through source.get_field and emg3d.get_source_field, and in-place "
                "edits of previously returned fields; every returned field, and every returned field again at "
                "the end of the history, is compared with the SourceHist machine run in Coq (vecof = "
                "dipole_vector, scale = source_scale), with the nominal moment, with a fresh instance, and "
                "tested for aliasing (np.shares_memory) with arrays reachable from the instance; evaluations "
                "count one per request",
        'samples': samples[:10],
        'traces_validated_against_impl': n1 + n2 + n3 + n4,
        'histogram': hist,
        'disagreements': dis,
    }


# -------------------------------------------------------------------- searcher
def seg_touches_cell(p0, p1, lo, hi):
    """Closed segment meets closed box (exact)."""
    t0, t1 = Fr(0), Fr(1)
    for d in range(3):
        a, b = Fr(p0[d]), Fr(p1[d])
        if a == b:
            if not (lo[d] <= a <= hi[d]):
                return False
        else:
            u, v = (lo[d] - a) / (b - a), (hi[d] - a) / (b - a)
            if u > v:
                u, v = v, u
            t0, t1 = max(t0, u), min(t1, v)
    return t0 <= t1


def edge_cells(comp, idx, shape):
    """Cells that have edge (comp, idx) among their 12 edges."""
    rng_ = []
    for d in range(3):
        if d == comp:
            rng_.append([idx[d]])
        else:
            rng_.append([q for q in (idx[d] - 1, idx[d]) if 0 <= q < shape[d]])
    return itertools.product(*rng_)


def check_dipole_property(g, pts):
    """The property itself on one dipole/wire: returns a hit dict or None."""
    from emg3d import fields
    gr = mesh(g)
    try:
        with warnings.catch_warnings():
            warnings.simplefilter('error')
            vf = fields._dipole_vector(gr, np.array(pts, float))
    except UserWarning as e:
        return {'signature': 'dipole vector needed the run-time re-normalisation',
                'observed': str(e)}
    except RuntimeWarning as e:
        return {'signature': 'dipole vector needed the run-time re-normalisation',
                'observed': str(e)}
    except Exception as e:      # noqa  (electrodes are inside the grid and distinct by construction)
        return {'signature': 'dipole/wire inside the grid is rejected or crashes',
                'observed': f"{type(e).__name__}: {e}"[:160]}
    fs = [np.array(vf.fx), np.array(vf.fy), np.array(vf.fz)]
    # tolerance: 1e-7 of the segment extents + rounding of coordinates of this magnitude
    tol = 1e-7 * val_scale(pts)
    for c in range(3):
        want = float(Fr(pts[-1][c]) - Fr(pts[0][c]))
        got = float(fs[c].sum())
        if not abs(got - want) <= tol:
            return {'signature': 'dipole vector component sum differs from last - first electrode',
                    'component': 'xyz'[c], 'observed': got, 'required': want}
    if len(pts) > 2:
        # every segment must inject its own moment: the wire's vector is the sum of the
        # vectors of its two-electrode segments (closed loops have zero total moment, so the
        # component sums alone cannot see a dropped segment there)
        with warnings.catch_warnings():
            warnings.simplefilter('ignore')
            parts = [fields._dipole_vector(gr, np.array([a, b], float))
                     for a, b in zip(pts[:-1], pts[1:])]
        for c, nm in enumerate(('fx', 'fy', 'fz')):
            tot = sum(np.array(getattr(q, nm)) for q in parts)
            err = float(np.max(np.abs(tot - fs[c]))) if tot.size else 0.0
            if not err <= tol:
                k = int(np.argmax(np.abs(tot - fs[c])))
                return {'signature': "wire vector is not the sum of its segments' vectors "
                                     "(a segment's moment is missing)",
                        'component': 'xyz'[c], 'flat_index': k,
                        'observed': float(fs[c].ravel()[k]), 'required': float(tot.ravel()[k])}
    nodes = [[Fr(x) for x in nd] for nd in g['nodes']]
    for c in range(3):
        for idx in zip(*np.nonzero(np.abs(fs[c]) > 1e-12)):
            ok = False
            for cell in edge_cells(c, idx, g['shape']):
                lo = [nodes[d][cell[d]] for d in range(3)]
                hi = [nodes[d][cell[d] + 1] for d in range(3)]
                if any(seg_touches_cell(a, b, lo, hi) for a, b in zip(pts[:-1], pts[1:])):
                    ok = True
                    break
            if not ok:
                return {'signature': 'dipole vector entry on an edge of no touched cell',
                        'component': 'xyz'[c], 'index': [int(q) for q in idx],
                        'observed': float(fs[c][idx])}
    return None


def check_point_property(g, coo):
    from emg3d import fields
    from scipy.special import cosdg, sindg
    vf = fields._point_vector(mesh(g), tuple(coo))
    az, el = coo[3], coo[4]
    want = [cosdg(az) * cosdg(el), sindg(az) * cosdg(el), sindg(el)]
    got = [float(vf.fx.sum()), float(vf.fy.sum()), float(vf.fz.sum())]
    for c in range(3):
        if not abs(got[c] - want[c]) <= 1e-9:
            return {'signature': 'point source component sum differs from the unit direction',
                    'component': 'xyz'[c], 'observed': got[c], 'required': float(want[c])}
    if not abs(sum(w * w for w in want) - 1) <= 1e-9:
        return {'signature': 'rotation(az, el) is not a unit vector', 'observed': [float(w) for w in want]}
    return None


def check_scaling_property(g, pts, strength, freq):
    import emg3d
    import scipy.constants as sc
    gr = mesh(g)
    src = emg3d.TxElectricDipole(np.array(pts, float), strength=strength) if len(pts) == 2 \
        else emg3d.TxElectricWire(np.array(pts, float), strength=strength)
    sf = emg3d.get_source_field(gr, src, freq)
    vf = emg3d.fields._dipole_vector(gr, np.array(pts, float))
    if freq is None:
        fac = strength
    elif freq < 0:
        fac = -strength * (-freq) * sc.mu_0
    else:
        fac = -strength * 2j * np.pi * freq * sc.mu_0
    want = np.asarray(vf.field) * fac
    err = float(np.max(np.abs(np.asarray(sf.field) - want)))
    if not err <= 1e-9 * max(float(np.max(np.abs(want))), 1e-300):
        return {'signature': 'source field differs from vector * strength * (-s mu0)',
                'observed_max_abs_error': err}
    return None


def check_conv_property(c):
    from emg3d import electrodes as E
    p = np.array([c['p0'], c['p1']], float)
    az, el, ln = E.dipole_to_point(p)
    back = E.point_to_dipole(np.array(list(p.sum(0) / 2) + [az, el]), ln)
    tol = conv_tol(c, p.ravel())
    if not np.max(np.abs(back - p)) <= tol:
        return {'signature': 'electrodes -> (centre, az, el, length) -> electrodes is not the identity',
                'observed': back.tolist(), 'required': p.tolist()}
    # the same round trip through the public classes: two-electrode form -> instance (azimuth, elevation,
    # length, centre) -> point form -> electrodes
    if c['p0'] != c['p1']:
        try:
            d = E.TxElectricDipole(p)
            d2 = E.TxElectricDipole((c['p0'][0], c['p1'][0], c['p0'][1], c['p1'][1], c['p0'][2], c['p1'][2]))
            E.TxMagneticDipole(p)
        except ValueError as e:
            if 'identical' in str(e):
                return {'signature': SIG_CLOSE, 'observed': 'ValueError: ' + str(e)[:60],
                        'required': 'a dipole with electrodes ' + str(p.tolist()),
                        'electrode_distance_m': float(np.linalg.norm(p[1] - p[0]))}
            return {'signature': 'Tx*Dipole rejects a valid two-electrode input', 'observed': str(e)[:120]}
        if not (np.array_equal(d.points, p) and np.array_equal(d2.points, p)):
            return {'signature': 'Tx*Dipole(two electrodes).points differs from the electrodes given',
                    'observed': d.points.tolist(), 'required': p.tolist()}
        ctr = (p[0] + p[1]) / 2
        d3 = E.TxElectricDipole((*ctr, d.azimuth, d.elevation), length=d.length)
        if not np.max(np.abs(d3.points - p)) <= tol:
            return {'signature': 'electrodes -> (centre, az, el, length) -> electrodes is not the identity',
                    'via': 'TxElectricDipole', 'observed': d3.points.tolist(), 'required': p.tolist()}
        q = p + np.array([0.0, 0.0, 0.0]) + (p[1] - p[0])       # the same dipole shifted by its own length
        if d == E.TxElectricDipole(q):
            return {'signature': SIG_CLOSE, 'observed': 'two sources one dipole length apart compare equal (==)',
                    'required': 'different electrodes are different sources',
                    'electrode_distance_m': float(np.linalg.norm(p[1] - p[0])), 'other': q.tolist()}
    d1 = E.point_to_dipole(np.array(c['c'] + [c['az'], c['el']]), c['len'])
    a2, e2, l2 = E.dipole_to_point(d1)
    d2 = E.point_to_dipole(np.array(list(d1.sum(0) / 2) + [a2, e2]), l2)
    if not np.max(np.abs(d2 - d1)) <= conv_tol(c, d1.ravel()):
        return {'signature': 'point form -> electrodes -> point form -> electrodes changes the electrodes',
                'observed': d2.tolist(), 'required': d1.tolist()}
    lp = E.point_to_square_loop(np.array(c['c'] + [c['az'], c['el']]), c['len'])
    rot = E.rotation(c['az'], c['el'])
    ctr = np.array(c['c'])
    ulp = 16 * 2.3e-16 * max(1.0, float(np.max(np.abs(lp))))       # rounding of the absolute coordinates
    tol1 = 1e-9 * max(1.0, c['len']) + ulp
    tol2 = 1e-9 * max(1.0, c['len']) + 4 * max(1.0, c['len'] ** 0.5) * ulp
    hit = None
    if lp.shape != (5, 3) or not np.max(np.abs(lp[0] - lp[4])) <= ulp:
        hit = 'loop not closed'
    elif np.max(np.abs((lp - ctr) @ rot)) > tol1:
        hit = 'loop not in the plane orthogonal to the dipole'
    else:
        sides = np.diff(lp, axis=0)
        if np.max(np.abs(np.sum(sides**2, 1) - c['len'])) > tol2:
            hit = 'loop side^2 differs from the area'
        elif np.max(np.abs(np.cross(sides[0], sides[1]) - c['len'] * rot)) > tol2:
            hit = 'loop normal (right-hand rule) differs from area * rotation(az, el)'
    if hit:
        return {'signature': 'magnetic dipole loop: ' + hit, 'observed': lp.tolist()}
    return None


def search(ctx, broken):
    rng = ctx.rng
    hits = []
    n = 300 if ctx.thorough else 150
    counts = {'dipole': 0, 'point': 0, 'scaling': 0, 'conv': 0}
    skip_upper = upper_defect_reproduces()
    counts.update({'large': 0, 'magnetic': 0})
    for i in range(n):
        large = (i % 3 == 1)
        g = gen_grid(rng, True, large)
        kind = rng.choice([k for k in (LARGE_KINDS if large else DIP_KINDS)
                           if k not in ('outside', 'nolength')])
        pts = gen_points(rng, g, kind)
        if skip_upper and upper_plane(g, pts):
            continue        # the defect reported by known_checks
        h = check_dipole_property(g, pts)
        counts['dipole'] += 1
        counts['large'] += int(large)
        if h:
            hits.append(dict(h, h=g['h'], origin=g['origin'], points=pts))
            break
        if i % 5 == 2:
            # magnetic dipole = closed square loop through the same wire code path
            coo, area, loop = gen_mag(rng, g)
            if not (skip_upper and upper_plane(g, loop)):
                h = check_dipole_property(g, loop)
                counts['magnetic'] += 1
                if h:
                    hits.append(dict(h, h=g['h'], origin=g['origin'], points=loop,
                                     magnetic_dipole={'coordinates': coo, 'area': area}))
                    break
        if i % 4 == 0:
            # input forms: Tx instance vs coordinates + keywords, nominal moment of each
            fc = gen_form_case(rng, FORM_KINDS[(i // 4) % len(FORM_KINDS)],
                               variant=KW_VARIANTS[(i // 4) % len(KW_VARIANTS) if (i // 4) % 3
                                                   else rng.randrange(len(KW_VARIANTS))])
            h = check_forms_property(fc)
            counts['forms'] = counts.get('forms', 0) + 1
            if h:
                jc = {k_: (str(v_) if isinstance(v_, complex) else v_) for k_, v_ in fc.items()}
                jc['kw'] = {k_: [str(x) if isinstance(x, complex) else x for x in v_]
                            for k_, v_ in fc['kw'].items()}
                hits.append(dict(h, form_case=jc))
                break
        if i % 6 == 1:
            # request histories on ONE source instance (results must not depend on the history)
            hc = gen_hist_case(rng, i // 6 + rng.randrange(12))
            h = check_hist_property(hc)
            counts['history'] = counts.get('history', 0) + 1
            if h:
                hits.append(h)
                break
        if i % 3 == 0:
            coo = point(rng, g, [rng.choice(['generic', 'node', 'centre', 'first', 'last'])
                                 for _ in range(3)]) + [gen_angle(rng, False), gen_angle(rng, True)]
            h = check_point_property(g, coo)
            counts['point'] += 1
            if h:
                hits.append(dict(h, h=g['h'], origin=g['origin'], coordinates=coo))
                break
            st = gen_strength(rng)
            fq = gen_freq(rng)
            if fq == 0.0 or (isinstance(st, complex) and (fq is None or fq < 0)):
                fq, st = 1.5, st
            h = check_scaling_property(g, pts, st, fq)
            counts['scaling'] += 1
            if h:
                hits.append(dict(h, h=g['h'], origin=g['origin'], points=pts, strength=str(st),
                                 frequency=fq))
                break
            c = gen_conv_case(rng, proj=(counts['conv'] % 2 == 1))
            if c['t'] != 'tx_same':
                h = check_conv_property(c)
                counts['conv'] += 1
                counts['conv_projected'] = counts.get('conv_projected', 0) + int(c['proj'])
                if h and h['signature'] == SIG_CLOSE:
                    # reported by known_checks as well; keep ONE concrete input and go on searching
                    if not any(x.get('signature') == SIG_CLOSE for x in hits):
                        hits.append(dict(h, case=c))
                elif h:
                    hits.append(dict(h, case=c))
                    break
    ctx.notes.append(f"searcher: {counts} cases against the independent oracle")
    return hits


def replay(ctx, payload):
    fi = payload.get('failing_input')
    if not fi:
        return False
    if 'history_case' in fi:
        return check_hist_property(fi['history_case']) is None
    if 'form_case' in fi:
        fc = dict(fi['form_case'])
        if isinstance(fc['strength'], str):
            fc['strength'] = complex(fc['strength'])
        fc['kw'] = {k_: tuple(complex(x) if (isinstance(x, str) and x not in ('val', 'missing', 'none'))
                              else x for x in v_) for k_, v_ in fc['kw'].items()}
        return check_forms_property(fc) is None
    if 'points' in fi and 'h' in fi:
        g = {'h': fi['h'], 'origin': fi['origin'], 'shape': [len(h) for h in fi['h']]}
        g['nodes'] = [[o + sum(h[:k]) for k in range(len(h) + 1)] for o, h in zip(fi['origin'], fi['h'])]
        return check_dipole_property(g, fi['points']) is None
    if 'coordinates' in fi:
        g = {'h': fi['h'], 'origin': fi['origin'], 'shape': [len(h) for h in fi['h']]}
        g['nodes'] = [[o + sum(h[:k]) for k in range(len(h) + 1)] for o, h in zip(fi['origin'], fi['h'])]
        return check_point_property(g, fi['coordinates']) is None
    if 'case' in fi:
        fi['case'].setdefault('proj', False)
        return check_conv_property(fi['case']) is None
    if fi.get('signature') == SIG_UPPER:
        return not upper_defect_reproduces()
    if fi.get('signature') == SIG_CLOSE:
        return not close_defect_reproduces()
    return False


def upper_defect_reproduces():
    g = {'h': [[1.0, 1.0]] * 3, 'origin': [0.0] * 3, 'nodes': [[0.0, 1.0, 2.0]] * 3, 'shape': [2, 2, 2]}
    pts = [[0.5, 2.0, 0.5], [1.5, 2.0, 0.5]]
    return check_dipole_property(g, pts) is not None


def close_defect_reproduces():
    """A 50 m dipole at projected coordinates (x 5e5, y 6e6) is refused as 'identical electrodes'."""
    import emg3d
    try:
        s_ = emg3d.TxElectricDipole((500000., 500000., 6000000., 6000050., -100., -100.))
    except ValueError as e:
        return 'identical' in str(e)
    return not np.array_equal(s_.points, [[500000., 6000000., -100.], [500000., 6000050., -100.]])


def known_checks(ctx):
    rep = upper_defect_reproduces()
    if rep:
        ctx.notes.append("defect reproduces: grid 2x2x2 (h=1, origin 0), dipole (0.5,2,0.5)->(1.5,2,0.5): "
                         "vector is NaN after 'Normalizing Source: 0.0'")
    rep2 = close_defect_reproduces()
    if rep2:
        ctx.notes.append("defect reproduces: TxElectricDipole((500000, 500000, 6000000, 6000050, -100, -100)) "
                         "raises 'The two electrodes are identical' for electrodes 50 m apart")
    return [(SIG_UPPER, rep, WHAT_UPPER), (SIG_CLOSE, rep2, WHAT_CLOSE)]
