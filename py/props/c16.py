"""C16 -- automatic gridding meets its stated postconditions or fails loudly.

Theorems: coq/Props/C16.v about the hand model coq/Model/Gridding.v
(good_mg_cell_nr, cell_width, _stretch, _seasurface, origin_and_widths,
construct_mesh routing).  Correspondence: the model's executable definitions on
exact rationals (Eval vm_compute) against emg3d.meshes on generated parameter
sets; brentq / argsort / skin depth enter the model as tables recorded from the
implementation's own run.  Searcher: the postconditions of the property text
evaluated directly on origin_and_widths / construct_mesh outputs.
"""
import ast
import contextlib
import math
import warnings

import numpy as np

from vlib import core as V
from vlib import kernels as K

ID = 'C16'
LEVEL_TEXT = ("Theorems (Props/C16.v, 45 statements) about a hand model of emg3d.meshes automatic gridding, over "
              "the reals with exact arithmetic, for ALL inputs: good_mg_cell_nr returns exactly the numbers "
              "p*2^n <= max_nr (p in lowest, min_div <= n < 30), sorted; whenever _stretch returns a grid its "
              "widths are positive, their number plus remain is nx, new widths grow by exactly the factor, the "
              "extent covers the requested domain and equals the sum of widths, the input widths are an "
              "unchanged infix; whenever origin_and_widths returns a grid (oaw_post, no side condition on the "
              "centre part any more; sea-surface branch included): the number of cells is one of cell_numbers, "
              "widths are positive, the grid covers the survey domain widened to the sea surface and the "
              "computational domain (= domain +- min(lambda_factor*lambda, max_buffer), resp. the "
              "lambda_from_center formula), widths outside the centre part grow by exactly sa / ca with sa "
              "between 1 and stretching[0] and ca between sa and stretching[1], sea-surface cells grow by "
              "alph < min(1.25 resp. 1.1 * stretching[0], stretching[1]), the centre is a node / cell centre as "
              "requested (or the documented sea-surface override), every node of the cut vector is a mesh node "
              "and the cut loses no vector node lying in the domain, the sea surface is (np.isclose formula) a "
              "mesh node or the warning flag is set; no admissible candidate <=> RuntimeError / None's; "
              "construct_mesh routes properties and direction-specific arguments as documented and fails "
              "loudly. The model is tied to /repo by differential correspondence on every run, including the "
              "arguments construct_mesh hands to origin_and_widths per direction and _seasurface directly. "
              "ONE SESSION (Model/GriddingSession.v: state = the arrays the caller holds, nothing else; the "
              "permitted-count table is the function good_mg_cell_nr, not a stored table), for ALL histories of "
              "good_mg_cell_nr / origin_and_widths / construct_mesh calls and in-place edits of returned or own "
              "arrays: a request naming no caller array has the same outcome after any two histories; with caller "
              "arrays as cell_numbers / vector only their current content matters; good_mg_cell_nr answers the "
              "table of its arguments after every history; a call never modifies an array the caller holds (the "
              "heap only grows); an edit changes exactly the array it names; after every history a request without "
              "cell_numbers that returns a grid has p*2^n <= 1024 cells, p in {2,3,5}, n >= 3. Tied to /repo by the "
              "history stream (every outcome and the whole heap, in one process, all call forms of "
              "good_mg_cell_nr, returned arrays must not share memory with arrays the caller already holds) and by "
              "a source anchor that fails closed on decorators, globals, mutable defaults and module-level "
              "mutable tables in the gridding functions of meshes.py.")
LEVEL_NOTE = ("Hand model, not generated: the tie is the correspondence (model on exact rationals vs "
              "emg3d.meshes, tolerance 1e-9), so code paths not reached by the generated parameter sets are "
              "covered only by the model. Input side conditions of oaw_post (input_ok): positive skin depth of "
              "properties[0], positive points per skin depth, positive upper width limit, strictly increasing "
              "node vector, positive stretching factors. Oracles: scipy brentq with the contract 'answer lies "
              "in the bracket [0.5, 10] handed to it' (Section hypothesis; the root tolerance is assumed only by "
              "sea_surface_node_accuracy; both are checked on every recorded brentq answer by the "
              "correspondence), numpy argsort on tied float keys (no contract needed), sqrt in skin_depth, "
              "2*pi. NOT modelled, hence not proved: IEEE rounding (cumsum, **, np.sum are exact sums and "
              "powers in the model; parameter sets where a float quotient ties exactly on an integer are "
              "excluded from the correspondence), np.isclose (modelled by its formula), TensorMesh "
              "construction, the info string. In the no-vector sea-surface branch the squeezed centre width is "
              "only proved positive. Session theorems: that emg3d.meshes keeps no state between calls is a "
              "property of the model; for the code it rests on the history stream (5 / 15 sessions of about 27 "
              "steps per run) and the source anchor, not on a proof about Python. Hidden state outside "
              "meshes.py's gridding functions (maps, numpy, discretize) is not anchored. Simulation / "
              "estimate_gridding_opts appear only in the searcher's histories (before / after comparison), not in "
              "the Coq session model.")
TECHNIQUE = "Coq proof (lia/lra/nra, list induction) over a hand model + differential correspondence (vm_compute on Q)"
DESIGN_REF = "DESIGN.md section 6 C16"
GEN = []
PROPS = 'Props/C16.v'
TRUSTED = ["Model/Gridding.v is a hand transcription of emg3d/meshes.py (tied by correspondence only)",
           "Model/GriddingSession.v: 'no state between gridding calls' is tied to the code by the history stream "
           "and the ast anchor on emg3d/meshes.py only",
           "scipy.optimize.brentq, numpy argsort/linspace/unique, sqrt: oracles / modelled by exact formulas"]
ASSUMES = ["IEEE rounding not modelled; correspondence tolerance 1e-9 relative on origin and widths",
           "brentq answers are taken from the implementation's own run (recorded), argsort permutation "
           "recomputed with numpy on the same 13 factors"]

MAPS = ['Resistivity', 'Conductivity', 'LgResistivity', 'LgConductivity',
        'LnResistivity', 'LnConductivity']
TWOPI = float(2 * np.pi)

COQ_HEADER = K.CASE_HEADER + ("From Coq Require Import Qround Qabs Bool.\n"
                              "From V Require Import Model.Gridding Model.GriddingExec.\n")


# ----------------------------------------------------------------- utilities
def q(x):
    return V.q(float(x))


def qlist(xs):
    return '[' + '; '.join(q(x) for x in xs) + ']'


def zlist(xs):
    return '[' + '; '.join(V.coq_z(x) for x in xs) + ']'


def qopt_pair(p):
    return 'None' if p is None else f"(Some ({q(p[0])}, {q(p[1])}))"


def parse_ans(ans):
    """Coq value made of tuples / lists / integers / booleans -> python."""
    s = ans.replace('%Z', '').replace('%nat', '').replace(';', ',').replace('true', 'True').replace('false', 'False')
    return ast.literal_eval(s)


def fr(pair):
    return pair[0] / pair[1]


def close(a, b, scale):
    return abs(float(a) - float(b)) <= 1e-9 * max(abs(float(b)), scale, 1e-300)


def warn_codes(ws):
    out = []
    for w in ws:
        if issubclass(w.category, FutureWarning):
            out.append(1)
        elif issubclass(w.category, UserWarning) and 'Seasurface' in str(w.message):
            out.append(2)
        else:
            out.append(99)
    return out


@contextlib.contextmanager
def record_brentq(store):
    """Record (tdmin, delta, n, alph) of every brentq call made by meshes._seasurface."""
    import scipy.optimize as so
    orig = so.brentq

    def wrapped(f, a, b, *args, **kw):
        r = orig(f, a, b, *args, **kw)
        try:
            cells = dict(zip(f.__code__.co_freevars, [c.cell_contents for c in f.__closure__]))
            store.append((float(cells['tdmin']), float(cells['delta']), int(cells['n']), float(r)))
        except Exception as e:       # implementation no longer has that shape
            store.append(('unreadable', repr(e)))
        return r
    so.brentq = wrapped
    try:
        yield
    finally:
        so.brentq = orig


def skin_depths(case):
    from emg3d import maps, meshes
    pm = getattr(maps, 'Map' + case['mapping'])()
    cond = pm.backward(np.array(case['properties'], ndmin=1, dtype=float))
    return [float(x) for x in np.atleast_1d(meshes.skin_depth(case['frequency'], cond))]


def limits_term(lim):
    if lim is None:
        return 'LimNone'
    if isinstance(lim, (int, float)):
        return f"(LimOne {q(lim)})"
    if len(lim) == 1:
        return f"(LimOne {q(lim[0])})"
    return f"(LimTwo {q(lim[0])} {q(lim[1])})"


def argsort_perm(sd0, pps, lim):
    """The permutation numpy gives for the 13 squeeze factors of _seasurface."""
    from emg3d import meshes
    if lim is not None and np.array(lim, ndmin=1).size == 1:
        return list(range(13))
    w = float(np.atleast_1d(meshes.cell_width(np.float64(sd0), pps, lim))[0])
    fmn, fmx = 0.7, 1.3
    if lim is not None:
        fmn = max(fmn, lim[0] / w)
        fmx = min(fmx, lim[1] / w)
    frange = np.linspace(fmn, fmx, 13)
    return [int(i) for i in np.argsort(abs(frange - 1))]


# ------------------------------------------------- origin_and_widths: running
def check_brentq_contract(case, calls, dis, what):
    """The contract the theorems assume of brentq, on the recorded answers:
    alph in the bracket [0.5, 10] and a root of sum(tdmin*alph**k) - delta."""
    for c in calls:
        if c[0] == 'unreadable':
            continue
        tdmin, delta, n, alph = c
        f = float(np.sum(tdmin * alph ** np.arange(1, n + 1)) - delta)
        if not (0.5 <= alph <= 10.0) or abs(f) > 1e-8 * max(abs(delta), tdmin) * max(n, 1) ** 2:
            dis.append({'what': f'{what}: brentq answer violates the contract assumed by the theorems '
                                f'(bracket [0.5, 10], root)', 'case': case,
                        'impl': {'tdmin': tdmin, 'delta': delta, 'n': n, 'alph': alph, 'f(alph)': f}})
            return False
    return True


def sea_float_tie(center, w, sea, lim):
    """True when, for one of the squeeze factors of _seasurface (no vector), the
    number of cells floor(delta/tdmin) is decided by an EXACT integer ratio:
    with the non-dyadic factors 0.75, 0.8, ... the float quotient may round to
    either side, so exact arithmetic (the model) and floats may disagree.  Such
    parameter sets are outside what the correspondence can compare."""
    from fractions import Fraction as Fr
    if lim is not None and np.array(lim, ndmin=1).size == 1:
        return False                                   # only factor 1.0: dyadic, exact in floats
    c, w, sea = Fr(float(center)), Fr(float(w)), Fr(float(sea))
    fmn, fmx = Fr(7, 10), Fr(13, 10)
    if lim is not None:
        fmn, fmx = max(fmn, Fr(float(lim[0])) / w), min(fmx, Fr(float(lim[1])) / w)
    for k in range(13):
        f = fmn + k * (fmx - fmn) / 12
        if f <= 0 or f == 1:
            continue
        r = (sea - c - f * w / 2) / (f * w)
        if r.denominator == 1:
            return True
    return False


def sea_reach_tie(dc, calls):
    """The survey domain was widened to the sea surface (domain[1] == seasurface)
    and brentq cells with alph != 1 end at the sea surface only up to rounding:
    `edges[1] >= domain[1]` in _stretch is then decided by rounding noise (in the
    implementation as well as in the model, which evaluates the same polynomial
    exactly at the recorded float alph), so one more / one less cell above the
    sea surface is legitimate on either side.  Such results are not comparable."""
    sea = dc.get('seasurface')
    if sea is None or not calls:
        return False
    if dc['domain'] is not None:
        hi = dc['domain'][1]
    elif dc['distance'] is not None:
        hi = dc['center'] + abs(dc['distance'][1])
    elif dc['vector'] is not None:
        hi = max(dc['vector'])
    else:
        return False
    return sea >= hi and any(c[0] != 'unreadable' and c[3] != 1.0 for c in calls)


TIE_SKIPS = []          # (what, case) of results not compared because of sea_reach_tie


def oaw_kwargs(case):
    kw = dict(stretching=list(case['stretching']), min_width_limits=case['limits'],
              min_width_pps=case['pps'], lambda_factor=case['lambda_factor'],
              max_buffer=case['max_buffer'], lambda_from_center=case['lambda_from_center'],
              mapping=case['mapping'], cell_numbers=list(case['cell_numbers']),
              raise_error=case['raise_error'])
    if case['distance'] is not None:
        kw['distance'] = list(case['distance'])
    if case['center_on_edge'] is not None:
        kw['center_on_edge'] = case['center_on_edge']
    return kw


def run_oaw(case, cells_arg=None, vector_obj=None):
    """cells_arg: None = case['cell_numbers'] as a list; ('default',) = no
    cell_numbers argument; ('obj', arr) = this very array.  vector_obj: this
    very array as `vector` (history stream: arrays the caller holds)."""
    from emg3d import meshes
    vec = None if case['vector'] is None else np.array(case['vector'], dtype=float)
    if vector_obj is not None:
        vec = vector_obj
    dom = None if case['domain'] is None else list(case['domain'])
    okw = oaw_kwargs(case)
    if cells_arg is not None:
        del okw['cell_numbers']
        if cells_arg[0] == 'obj':
            okw['cell_numbers'] = cells_arg[1]
    if case.get('default_stretching'):
        del okw['stretching']
    calls, cost = [], [0]
    orig_stretch = meshes._stretch

    def counting(edges, widths, stretching, nx, *a, **k):
        cost[0] += 1 if float(stretching) == 1.0 else int(nx) ** 2
        return orig_stretch(edges, widths, stretching, nx, *a, **k)
    meshes._stretch = counting
    with warnings.catch_warnings(record=True) as ws, record_brentq(calls):
        warnings.simplefilter('always')
        try:
            out = meshes.origin_and_widths(case['frequency'], list(case['properties']),
                                           case['center'], dom, vec, case['seasurface'],
                                           **okw)
            if out[0] is None:
                res = {'kind': 4}
            else:
                res = {'kind': 0, 'x0': float(out[0]),
                       'hx': [float(x) for x in np.atleast_1d(out[1])], 'hx_obj': out[1]}
        except ValueError as e:
            res = {'kind': 1 if 'At least one' in str(e) else (2 if 'seasurface' in str(e) else 98),
                   'msg': str(e)}
        except RuntimeError as e:
            res = {'kind': 3, 'msg': str(e)}
        except Exception as e:
            res = {'kind': 97, 'msg': repr(e)}
        finally:
            meshes._stretch = orig_stretch
    res['warns'] = warn_codes(ws)
    res['brentq'] = calls
    res['cost'] = cost[0]          # proxy for the model's evaluation time on Q
    return res


def oawin_term(case, sds):
    vec = 'None' if case['vector'] is None else f"(Some {qlist(case['vector'])})"
    sea = 'None' if case['seasurface'] is None else f"(Some {q(case['seasurface'])})"
    coe = 'None' if case['center_on_edge'] is None else f"(Some {V.coq_bool(case['center_on_edge'])})"
    return (f"(mkOawIn {qlist(sds)} {q(case['center'])} {qopt_pair(case['domain'])} "
            f"{qopt_pair(case['distance'])} {vec} {sea} "
            f"({q(case['stretching'][0])}, {q(case['stretching'][1])}) {limits_term(case['limits'])} "
            f"{q(case['pps'])} {q(case['lambda_factor'])} {q(case['max_buffer'])} "
            f"{V.coq_bool(case['lambda_from_center'])} {zlist(case['cell_numbers'])} {coe} "
            f"{V.coq_bool(case['raise_error'])})")


def brentq_term(calls):
    rows = [f"({q(c[0])}, {V.coq_z(c[2])}, {q(c[3])})" for c in calls if c[0] != 'unreadable']
    return '[' + '; '.join(rows) + ']'


def oaw_eval_term(case, impl):
    sds = skin_depths(case)
    perm = argsort_perm(sds[0], case['pps'], case['limits'])
    permt = '[' + '; '.join(f"{i}%nat" for i in perm) + ']'
    return (f"Eval vm_compute in out_oaw (origin_and_widths qleb qfloor "
            f"(brentq_tab {brentq_term(impl['brentq'])}) (fun _ => {permt}) {q(TWOPI)} "
            f"{oawin_term(case, sds)}).")


def compare_oaw(case, impl, ans, dis, what='origin_and_widths'):
    """ans = parsed out_oaw value.  Appends to dis; returns True when equal."""
    tmp = []
    ok = _compare_oaw(case, impl, ans, tmp, what)
    if not ok and sea_reach_tie(case, impl['brentq']) and not any(
            'brentq' in d['what'] for d in tmp):
        TIE_SKIPS.append((what, case))
        return True
    dis.extend(tmp)
    return ok


def _compare_oaw(case, impl, ans, dis, what='origin_and_widths'):
    warns, code, ints, pairs = ans
    if any(c[0] == 'unreadable' for c in impl['brentq']):
        dis.append({'what': f'{what}: brentq closure no longer readable (tdmin/delta/n)',
                    'case': case, 'impl': str(impl['brentq'][:2])})
        return False
    if not check_brentq_contract(case, impl['brentq'], dis, what):
        return False
    if code != impl['kind'] or list(warns) != impl['warns']:
        dis.append({'what': f'{what}: result kind / warnings differ', 'case': case,
                    'impl': {'kind': impl['kind'], 'warns': impl['warns'], 'msg': impl.get('msg')},
                    'model': {'kind': code, 'warns': list(warns)}})
        return False
    if code != 0:
        return True
    vals = [fr(p) for p in pairs]
    x0, hx = vals[0], vals[3:]
    if len(hx) != len(impl['hx']):
        dis.append({'what': f'{what}: number of cells differs', 'case': case,
                    'impl': len(impl['hx']), 'model': len(hx)})
        return False
    scale = max(abs(impl['x0']), sum(impl['hx']))
    if not close(impl['x0'], x0, scale):
        dis.append({'what': f'{what}: origin differs', 'case': case,
                    'impl': impl['x0'], 'model': x0})
        return False
    for k, (a, b) in enumerate(zip(impl['hx'], hx)):
        if not close(a, b, 0.0):
            dis.append({'what': f'{what}: width {k} differs', 'case': case, 'impl': a, 'model': b})
            return False
    return True


# ------------------------------------------------ origin_and_widths: generator
def prop_value(rng, mapping):
    if mapping in ('Resistivity', 'Conductivity'):
        return rng.choice([0.25, 0.5, 1.0, 2.0, 3.0, 4.0, 8.0, 0.3125])
    if mapping.startswith('Lg'):
        return rng.choice([-1.0, -0.5, 0.0, 0.25, 0.5, 1.0])
    return rng.choice([-2.0, -1.0, -0.5, 0.0, 0.5, 1.0, 2.0])


def gen_oaw(rng, style=None):
    """One parameter set for origin_and_widths (all numbers dyadic)."""
    from emg3d import meshes
    style = style or rng.choice('AAEEEBBCCD')
    freq = rng.choice([0.25, 0.5, 1.0, 2.0, 4.0, 8.0]) * (-1 if rng.random() < 0.25 else 1)
    mapping = rng.choice(MAPS)
    props = [prop_value(rng, mapping) for _ in range(rng.choice([1, 1, 2, 3, 3]))]
    case = dict(frequency=freq, properties=props, mapping=mapping, style=style)
    sd0 = skin_depths(case)[0]
    pps = rng.choice([2.0, 3.0, 3.0, 4.0, 2.5])
    u = max(1.0, float(round(sd0 / pps)))             # length unit ~ dmin, integer
    lk = rng.random()
    if lk < 0.45:
        lim = None
    elif lk < 0.75:
        lim = rng.choice([u, u / 2, 2 * u, u + 3])
        lim = lim if rng.random() < 0.7 else [lim]
    else:
        lo = rng.choice([u / 4, u / 2, u - 1, u + 2])
        lim = [lo, lo + rng.choice([1.0, u / 2, u, 4 * u])]
    dmin = float(np.atleast_1d(meshes.cell_width(np.float64(sd0), pps, lim))[0])
    center = float(rng.randint(-40, 40) * 16)
    a, b = rng.randint(0, 6), rng.randint(0, 6)
    if rng.random() < 0.5:
        a, b = a + rng.randint(0, 7) / 8, b + rng.randint(0, 7) / 8
    domain = distance = vector = None
    fk = rng.random()
    if fk < 0.45:
        domain = [center - a * u, center + b * u]
    elif fk < 0.7:
        distance = [a * u, b * u] if rng.random() < 0.8 else [-a * u, b * u]
    elif fk < 0.74:
        pass                                           # nothing (unless a vector comes): ValueError
    if fk >= 0.7 or rng.random() < 0.3:
        if fk < 0.74 and fk >= 0.7 and rng.random() < 0.5:
            vector = None
        else:
            n = rng.randint(2, 9)
            ws = [rng.choice([u / 2, u, u, 3 * u / 2, 2 * u, u / 4]) for _ in range(n)]
            start = center - rng.randint(0, n) * u - rng.choice([0.0, u / 2, u / 8])
            vector = [start]
            for w in ws:
                vector.append(vector[-1] + w)
    sea = None
    if rng.random() < 0.3:
        sea = center + rng.choice([-1, 0, 1, 2, 3, 5, 8, 11, 20, 27, 40, 64]) * u / 8
        if rng.random() < 0.5:
            sea = center + rng.randint(1, 9) * dmin * rng.choice([0.5, 1.0, 1.0, 1.0625])
    while sea is not None and sea_float_tie(center, dmin, sea, lim):
        sea += dmin / 64
    if style in 'AE':
        s0, s1 = 1.0, 1 + rng.randint(3, 14) / 1024
    elif style == 'B':
        s0, s1 = 1.0, rng.choice([1.25, 1.5, 1.5, 2.0, 1.125])
    elif style == 'C':
        s0 = 1 + rng.randint(2, 9) / 1024
        s1 = s0 + rng.randint(-2, 10) / 1024
    else:
        s0 = rng.choice([1.03125, 1.0625, 1.125])
        s1 = rng.choice([s0, 1.25, 1.5])
    if rng.random() < 0.04:
        s0, s1 = rng.choice([(0.9375, 1.25), (1.0, 0.9375), (1.25, 1.0)])
    lfc = rng.random() < 0.3
    if style in 'ACE':
        max_buffer = rng.randint(0, 8) * u / 2
        lam = rng.choice([1.0, 0.5, 0.0625, 0.125])
    else:
        max_buffer = rng.choice([100000, 100000, 8 * u, 20 * u, 3 * u])
        lam = rng.choice([0.0625, 0.125, 0.125, 0.25, 0.5])
    pool = [4, 6, 8, 10, 12, 16, 20, 24, 32]
    if style in 'ACE':
        pool += [40, 48]
    k = rng.randint(1, 4)
    cells = rng.sample(pool, k)
    if rng.random() < 0.2:
        cells.append(cells[0])
    if rng.random() < 0.05:
        cells = [int(x) for x in meshes.good_mg_cell_nr(rng.choice([24, 32, 40]), 5, rng.choice([2, 3]))]
    if style == 'E':
        # marginal buffers: just more than m cells of the last width, so that the
        # buffer stretching ca has to leave 1.0; consecutive even cell numbers
        m = rng.randint(1, 5)
        max_buffer = m * dmin * (1 + rng.choice([1 / 256, 1 / 128, 1 / 64, 1 / 32]))
        lam = 1.0
        lo_n = rng.choice([4, 6, 8, 10, 12, 14, 16])
        cells = list(range(lo_n, lo_n + 2 * rng.randint(4, 9), 2))
        if sea is not None and rng.random() < 0.6:
            sea = None
    case.update(center=center, domain=domain, distance=distance, vector=vector, seasurface=sea,
                stretching=[s0, s1], limits=lim, pps=pps, lambda_factor=lam,
                max_buffer=float(max_buffer), lambda_from_center=lfc, cell_numbers=cells,
                center_on_edge=rng.choice([None, True, False, False]),
                raise_error=rng.random() < 0.7)
    return case


def oaw_features(case, impl):
    f = [case['style'], 'kind%d' % impl['kind']]
    f.append('dom' if case['domain'] is not None else ('dist' if case['distance'] is not None
                                                        else ('vec' if case['vector'] else 'nodom')))
    if case['vector'] is not None:
        f.append('vector')
    if case['seasurface'] is not None:
        f.append('sea')
    if impl['brentq']:
        f.append('brentq')
    if 2 in impl['warns']:
        f.append('seawarn')
    if case['lambda_from_center']:
        f.append('lfc')
    if case['frequency'] < 0:
        f.append('laplace')
    f.append('lim%s' % ('N' if case['limits'] is None else
                        (1 if np.array(case['limits'], ndmin=1).size == 1 else 2)))
    f.append('coe%s' % case['center_on_edge'])
    return f


# --------------------------------------------------- construct_mesh: Val forms
def val_py(v):
    t = v[0]
    if t == 'none':
        return None
    if t in ('bool', 'num'):
        return v[1]
    if t == 'arr':
        return np.array(v[1], dtype=float)
    if t == 'seq':
        return [val_py(x) for x in v[1]] if v[2] == 'list' else tuple(val_py(x) for x in v[1])
    if t == 'dict':
        return {'x': val_py(v[1]), 'y': val_py(v[2]), 'z': val_py(v[3])}
    raise ValueError(t)


def val_coq(v):
    t = v[0]
    if t == 'none':
        return 'VNone'
    if t == 'bool':
        return f"(VBool {V.coq_bool(v[1])})"
    if t == 'num':
        return f"(VNum {q(v[1])})"
    if t == 'arr':
        return f"(VArr {qlist(v[1])})"
    if t == 'seq':
        return "(VSeq [" + '; '.join(val_coq(x) for x in v[1]) + "])"
    if t == 'dict':
        return f"(VDict {val_coq(v[1])} {val_coq(v[2])} {val_coq(v[3])})"
    raise ValueError(t)


NONE = ('none',)


def seq(items, kind='list'):
    return ('seq', list(items), kind)


def pair_val(rng, p):
    """[a, b] as list / tuple / ndarray."""
    k = rng.random()
    if k < 0.4:
        return seq([('num', p[0]), ('num', p[1])], 'list')
    if k < 0.7:
        return seq([('num', p[0]), ('num', p[1])], 'tuple')
    return ('arr', [p[0], p[1]])


def spread(rng, per_dir, allow_all=True):
    """Wrap three per-direction values (Val or NONE) as tuple-of-3 / dict; when
    all three are equal optionally as one value for all directions."""
    if allow_all and per_dir[0] == per_dir[1] == per_dir[2] and rng.random() < 0.5:
        return per_dir[0]
    if rng.random() < 0.5:
        return ('dict', per_dir[0], per_dir[1], per_dir[2])
    return seq(per_dir, rng.choice(['list', 'tuple']))


def gen_cm(rng):
    """One construct_mesh call: cheap per-direction parameters in random formats."""
    from emg3d import meshes
    freq = rng.choice([0.5, 1.0, 2.0, 4.0]) * (-1 if rng.random() < 0.25 else 1)
    mapping = rng.choice(MAPS)
    nprops = rng.choice([0, 1, 2, 3, 3, 4, 4, 7, 7, 5])
    props = [prop_value(rng, mapping) for _ in range(max(nprops, 1))]
    sd0 = skin_depths(dict(frequency=freq, properties=props, mapping=mapping))[0]
    u = max(1.0, float(round(sd0 / 3)))
    center = [float(rng.randint(-20, 20) * 16) for _ in range(3)]
    # minimum widths: mostly fixed by a scalar limit (keeps the rationals small)
    lk = rng.random()
    if lk < 0.5:
        lims = [('num', rng.choice([u, u / 2, 2 * u]))] * 3
        if rng.random() < 0.5:
            lims = [('num', rng.choice([u, u / 2, 2 * u])) for _ in range(3)]
    elif lk < 0.7:
        lo = rng.choice([u / 2, u - 1, u + 2])
        lims = [seq([('num', lo), ('num', lo + u)])] * 3
    else:
        lims = [NONE] * 3
    if rng.random() < 0.2:
        lims[rng.randint(0, 2)] = NONE
    doms, dists, vecs = [], [], []
    for d in range(3):
        a, b = rng.randint(0, 4) + rng.randint(0, 3) / 4, rng.randint(0, 4) + rng.randint(0, 3) / 4
        k = rng.random()
        dom = dist = vec = NONE
        if k < 0.5:
            dom = (center[d] - a * u, center[d] + b * u)
        elif k < 0.8:
            dist = (a * u, b * u)
        if k >= 0.8 or rng.random() < 0.25:
            n = rng.randint(2, 7)
            start = center[d] - rng.randint(0, n) * u
            vv = [start]
            for _ in range(n):
                vv.append(vv[-1] + rng.choice([u / 2, u, u, 2 * u]))
            vec = ('arr', vv)
        doms.append(dom)
        dists.append(dist)
        vecs.append(vec)
    same_dom = rng.random() < 0.15
    if same_dom:
        doms = [doms[0] if doms[0] != NONE else (center[0] - u, center[0] + 2 * u)] * 3
    domv = [NONE if p == NONE else pair_val(rng, p) for p in doms]
    if same_dom:
        domv = [domv[0]] * 3
    distv = [NONE if p == NONE else pair_val(rng, p) for p in dists]
    domain = NONE if all(x == NONE for x in domv) and rng.random() < 0.7 else spread(rng, domv)
    distance = NONE if all(x == NONE for x in distv) else spread(rng, distv)
    vector = NONE if all(x == NONE for x in vecs) else spread(rng, vecs, allow_all=False)
    if rng.random() < 0.05:
        vector = vecs[0] if vecs[0] != NONE else ('arr', [center[0] - u, center[0], center[0] + u])
    # stretching
    sts = []
    for d in range(3):
        s0 = rng.choice([1.0, 1.0, 1.0, 1 + rng.randint(2, 6) / 1024])
        s1 = rng.choice([s0 + rng.randint(2, 9) / 1024, 1.5, 1.25])
        sts.append((s0, s1))
    if rng.random() < 0.5:
        sts = [sts[0]] * 3
    stv = [pair_val(rng, p) for p in sts]
    if sts[0] == sts[1] == sts[2]:
        stv = [stv[0]] * 3
    stretching = NONE if rng.random() < 0.1 else spread(rng, stv)
    if lims[0] == lims[1] == lims[2] and rng.random() < 0.6:
        limits = lims[0]
    else:
        limits = spread(rng, lims, allow_all=False)
    ppsv = [('num', rng.choice([2.0, 3.0, 4.0])) for _ in range(3)]
    if rng.random() < 0.6:
        ppsv = [ppsv[0]] * 3
    pps = NONE if rng.random() < 0.4 else spread(rng, ppsv)
    coev = [('bool', rng.random() < 0.5) for _ in range(3)]
    ck = rng.random()
    if ck < 0.25:
        coe = NONE
    elif ck < 0.55:
        coe = coev[0]
    else:
        if rng.random() < 0.3:
            coev[rng.randint(0, 2)] = NONE
        coe = spread(rng, coev, allow_all=False)
    sea = None
    if rng.random() < 0.3:
        sea = center[2] + rng.choice([-2, 3, 8, 9, 16, 20, 33]) * u / 8
        limz, ppsz = dir_value(limits, 2, kw=True), dir_value(pps, 2, kw=True)
        dz = float(np.atleast_1d(meshes.cell_width(np.float64(sd0), 3.0 if ppsz is None else ppsz,
                                                   limz))[0])
        while sea_float_tie(center[2], dz, sea, limz):
            sea += dz / 64
    pool = [4, 6, 8, 10, 12, 16, 20, 24, 32]
    cells = rng.sample(pool, rng.randint(2, 5))
    return dict(frequency=freq, mapping=mapping, properties=props, scalar_props=(nprops == 0),
                center=center, domain=domain, vector=vector, distance=distance,
                stretching=stretching, limits=limits, pps=pps, coe=coe, seasurface=sea,
                lambda_factor=rng.choice([0.03125, 0.0625, 0.125, 0.25]),
                max_buffer=float(rng.choice([100000, 6 * u, 2 * u, 12 * u])),
                lambda_from_center=rng.random() < 0.3, cell_numbers=cells)


def only_dir(rng, d, v):
    """A per-direction option carried by direction d only: tuple / list / dict with Nones."""
    per = [NONE, NONE, NONE]
    per[d] = v
    if rng.random() < 0.5:
        return ('dict', per[0], per[1], per[2])
    return seq(per, rng.choice(['list', 'tuple']))


def gen_cm_onedir(rng, natural=False):
    """construct_mesh with x and y agreeing in centre, survey domain and buffer
    properties, and exactly ONE direction-specific option given for exactly ONE
    direction (x only / y only / z only), None for the others.  Any reuse of one
    direction's gridding for another is exposed.  natural=True: default-like
    stretching and cell numbers (searcher only; too slow on exact rationals)."""
    freq = rng.choice([0.5, 1.0, 2.0, 4.0]) * (-1 if rng.random() < 0.2 else 1)
    mapping = rng.choice(MAPS)
    nprops = rng.choice([0, 1, 2, 3, 4, 7])
    props = [prop_value(rng, mapping) for _ in range(max(nprops, 1))]
    if nprops == 7:
        props[3], props[4] = props[1], props[2]          # x and y buffers agree
    sd0 = skin_depths(dict(frequency=freq, properties=props, mapping=mapping))[0]
    u = max(1.0, float(round(sd0 / 3)))
    cxy = float(rng.randint(-20, 20) * 16)
    center = [cxy, cxy, float(rng.randint(-20, 20) * 16)]
    a, b = rng.randint(1, 3), rng.randint(1, 3)
    dxy = (cxy - a * u, cxy + b * u)
    dz = (center[2] - rng.randint(1, 3) * u, center[2] + rng.randint(1, 3) * u)
    if rng.random() < 0.3:
        center[2], dz = cxy, dxy
        domain = pair_val(rng, dxy)                       # one pair for all directions
    else:
        pv = pair_val(rng, dxy)
        domain = spread(rng, [pv, pv, pair_val(rng, dz)], allow_all=False)
    d = rng.choice([0, 1, 1, 1, 2])
    which = rng.choice(['vector', 'vector', 'stretching', 'stretching', 'coe', 'limits', 'pps', 'distance'])
    opts = dict(vector=NONE, distance=NONE, stretching=NONE, limits=NONE, pps=NONE, coe=NONE)
    base_lim = rng.random() < 0.7
    if which == 'vector':
        n = rng.randint(3, 6)
        vv = [center[d] - rng.randint(1, 2) * u - u / 4]
        for _ in range(n):
            vv.append(vv[-1] + rng.choice([u / 2, u, 3 * u / 4, 5 * u / 4]))
        opts['vector'] = only_dir(rng, d, ('arr', vv))
    elif which == 'stretching':
        opts['stretching'] = only_dir(rng, d, pair_val(rng, (1.0, 1 + rng.randint(4, 40) / 1024)))
    elif which == 'coe':
        opts['coe'] = only_dir(rng, d, ('bool', rng.random() < 0.7 and False))
    elif which == 'limits':
        opts['limits'] = only_dir(rng, d, ('num', rng.choice([u / 2, 3 * u / 4, 2 * u, u + 3])))
        base_lim = False
    elif which == 'pps':
        opts['pps'] = only_dir(rng, d, ('num', rng.choice([2.0, 4.0, 5.0])))
        base_lim = False
    else:
        opts['distance'] = only_dir(rng, d, pair_val(rng, (rng.randint(1, 4) * u, rng.randint(1, 4) * u)))
    if which != 'limits' and which != 'pps' and base_lim:
        opts['limits'] = ('num', u)
    if which != 'coe' and rng.random() < 0.6:
        opts['coe'] = ('bool', rng.random() < 0.5)
    if natural:
        cells = doc_good_numbers(1024, 5, rng.choice([2, 3]))
        lam, mb = rng.choice([1.0, 0.5, 0.25]), rng.choice([100000.0, 20 * u, 50 * u])
    else:
        # marginal buffer: the buffer stretching has to leave 1.0 in the
        # directions that keep the default stretching [1, 1.5]
        m = rng.randint(1, 4)
        mb = m * u * (1 + rng.choice([1 / 64, 1 / 32, 1 / 16, 1 / 8]))
        lam = 1.0
        lo_n = rng.choice([8, 10, 12])
        cells = list(range(lo_n, lo_n + 2 * rng.randint(5, 9), 2))
    return dict(frequency=freq, mapping=mapping, properties=props, scalar_props=(nprops == 0),
                center=center, domain=domain, vector=opts['vector'], distance=opts['distance'],
                stretching=opts['stretching'], limits=opts['limits'], pps=opts['pps'], coe=opts['coe'],
                seasurface=None, lambda_factor=lam, max_buffer=float(mb),
                lambda_from_center=False, cell_numbers=cells, onedir=f"{which}:{'xyz'[d]}")


def gen_cm_marine(rng, natural=False):
    """Marine construct_mesh call: sea surface + user z-vector.  The sea surface
    is / is not a node of the vector; the z-domain (domain or distance) ends
    below / at / above the sea surface with >= 3 vector nodes inside; regular
    and irregular vectors; the vector reaches z only (tuple / dict with Nones),
    or x and z.  natural=True: default stretching and cell numbers (searcher)."""
    freq = rng.choice([0.5, 1.0, 2.0, 4.0])
    mapping = rng.choice(MAPS)
    nprops = rng.choice([0, 1, 2, 3, 4, 7])
    props = [prop_value(rng, mapping) for _ in range(max(nprops, 1))]
    sd0 = skin_depths(dict(frequency=freq, properties=props, mapping=mapping))[0]
    u = max(4.0, float(4 * round(sd0 / 12)))             # multiple of 4
    cxy = float(rng.randint(-20, 20) * 16)
    cz = float(-rng.randint(2, 30) * 16)
    center = [cxy, cxy if rng.random() < 0.5 else cxy + 32.0, cz]
    # z-vector: n cells, the centre between node kc and kc+1 (or on node kc)
    n = rng.randint(5, 9)
    regular = rng.random() < 0.5
    ws = [u if regular else rng.choice([u / 2, u, 3 * u / 4, 5 * u / 4]) for _ in range(n)]
    kc = rng.randint(1, 2)
    start = cz - sum(ws[:kc]) - rng.choice([0.0, 0.0, u / 4])
    zv = [start]
    for w in ws:
        zv.append(zv[-1] + w)
    above = [k for k in range(len(zv)) if zv[k] > cz]
    j = rng.choice(above[2:] if len(above) > 3 else above[-1:])     # sea-surface node index
    node = rng.random() < 0.6
    sea = zv[j] if node else zv[j] + rng.choice([u / 8, u / 4, -u / 8, 3 * u / 8])
    rel = rng.choice(['below', 'below', 'below', 'at', 'above', 'vector'])
    lo = zv[0] - rng.choice([0.0, u, u / 4]) if rng.random() < 0.6 else zv[1] + rng.choice([0.0, u / 4])
    if rel == 'below':
        top = rng.choice([zv[j - 1], zv[j - 1] + u / 8, zv[j - 1] - u / 8])
    elif rel == 'at':
        top = sea
    else:
        top = max(sea, zv[-1]) + rng.choice([u / 2, u, 2 * u])
    a, b = rng.randint(1, 3), rng.randint(1, 3)
    dxy = (cxy - a * u, center[1] + b * u)
    domain, distance = NONE, NONE
    if rel == 'vector':
        # no z-domain: it comes from the vector (x, y from domain)
        pv = pair_val(rng, dxy)
        domain = only_xy(rng, pv)
    elif rng.random() < 0.7:
        pv = pair_val(rng, dxy)
        pz = pair_val(rng, (lo, top))
        domain = ('dict', pv, pv, pz) if rng.random() < 0.5 else seq([pv, pv, pz], rng.choice(['list', 'tuple']))
    else:
        pv = pair_val(rng, dxy)
        domain = only_xy(rng, pv)
        distance = only_dir(rng, 2, pair_val(rng, (cz - lo, top - cz)))
    vecz = ('arr', zv)
    if rng.random() < 0.2:
        xv = [cxy - 2 * u, cxy - u, cxy, cxy + u, cxy + 2 * u]
        vector = ('dict', ('arr', xv), NONE, vecz) if rng.random() < 0.5 else seq([('arr', xv), NONE, vecz], 'tuple')
    else:
        vector = only_dir(rng, 2, vecz)
    if natural:
        stretching = NONE if rng.random() < 0.7 else pair_val(rng, (rng.choice([1.0, 1.05]), rng.choice([1.3, 1.5])))
        cells = doc_good_numbers(1024, 5, rng.choice([2, 3]))
        lam, mb = rng.choice([1.0, 0.5, 0.25]), rng.choice([100000.0, 20 * u, 50 * u])
        limits = rng.choice([NONE, ('num', u)])
    else:
        stretching = NONE if rng.random() < 0.2 else pair_val(rng, (1.0, 1 + rng.randint(4, 14) / 1024))
        m = rng.randint(1, 4)
        mb = m * u * (1 + rng.choice([1 / 64, 1 / 32, 1 / 16]))
        lam = 1.0
        lo_n = rng.choice([8, 10, 12, 16])
        cells = list(range(lo_n, lo_n + 2 * rng.randint(6, 12), 2))
        limits = ('num', u)
    coe = rng.choice([NONE, ('bool', True), ('bool', False)])
    return dict(frequency=freq, mapping=mapping, properties=props, scalar_props=(nprops == 0),
                center=center, domain=domain, vector=vector, distance=distance,
                stretching=stretching, limits=limits, pps=NONE, coe=coe,
                seasurface=float(sea), lambda_factor=lam, max_buffer=float(mb),
                lambda_from_center=False, cell_numbers=cells,
                marine=f"{'node' if node else 'offnode'}/{rel}/{'regular' if regular else 'irregular'}")


def only_xy(rng, v):
    """Value for x and y, None for z (dict or 3-sequence)."""
    if rng.random() < 0.5:
        return ('dict', v, v, NONE)
    return seq([v, v, NONE], rng.choice(['list', 'tuple']))


def run_cm(case):
    import emg3d
    from emg3d import meshes
    kw = dict(lambda_factor=case['lambda_factor'], max_buffer=case['max_buffer'],
              lambda_from_center=case['lambda_from_center'], mapping=case['mapping'],
              cell_numbers=list(case['cell_numbers']))
    for name, key in (('distance', 'distance'), ('stretching', 'stretching'),
                      ('min_width_limits', 'limits'), ('min_width_pps', 'pps'),
                      ('center_on_edge', 'coe')):
        if case[key] != NONE:
            kw[name] = val_py(case[key])
    props = case['properties'][0] if case['scalar_props'] else list(case['properties'])
    calls, cost = [], [0]
    orig_stretch = meshes._stretch

    def counting(edges, widths, stretching, nx, *a, **k):
        cost[0] += 1 if float(stretching) == 1.0 else int(nx) ** 2
        return orig_stretch(edges, widths, stretching, nx, *a, **k)
    meshes._stretch = counting
    oaw_calls = []
    orig_oaw = meshes.origin_and_widths

    def recording(*a, **k):
        import inspect
        try:
            b = inspect.signature(orig_oaw).bind(*a, **k)
            d = dict(b.arguments)
            d.update(d.pop('kwargs', {}))
            oaw_calls.append(norm_call(d, case['mapping']))
        except Exception as e:
            oaw_calls.append(('unreadable', repr(e)))
        return orig_oaw(*a, **k)
    meshes.origin_and_widths = recording
    with warnings.catch_warnings(record=True) as ws, record_brentq(calls):
        warnings.simplefilter('always')
        try:
            m = emg3d.construct_mesh(case['frequency'], props, tuple(case['center']),
                                     val_py(case['domain']), val_py(case['vector']),
                                     case['seasurface'], **kw)
            res = {'kind': 0, 'origin': [float(x) for x in m.origin],
                   'h': [[float(x) for x in h] for h in m.h]}
        except ValueError as e:
            res = {'kind': 10, 'msg': str(e)}
        except RuntimeError as e:
            res = {'kind': 3, 'msg': str(e)}
        except Exception as e:
            res = {'kind': 97, 'msg': repr(e)}
        finally:
            meshes._stretch = orig_stretch
            meshes.origin_and_widths = orig_oaw
    res['warns'] = warn_codes(ws)
    res['brentq'] = calls
    res['cost'] = cost[0]
    res['oaw_calls'] = oaw_calls
    return res


def norm_call(d, mapping):
    """Canonical form of the arguments of one origin_and_widths call (exact
    Fractions), in the layout of GriddingExec.out_oawin."""
    F = V.frac

    def fl(x):
        return [F(float(v)) for v in np.atleast_1d(np.asarray(x, dtype=float)).ravel()]
    props = fl(d['properties'])
    sds = [F(x) for x in skin_depths(dict(frequency=d['frequency'], properties=[float(p) for p in props],
                                          mapping=d.get('mapping', 'Resistivity')))]
    st = d.get('stretching', [1.0, 1.5])
    coe = d.get('center_on_edge', 'notset')
    vec = d.get('vector')
    sea = d.get('seasurface')
    lim = d.get('min_width_limits')
    return (1, sds,
            fl(d['center']) + fl(st) + fl(d.get('min_width_pps', 3.0))
            + fl(d.get('lambda_factor', 1.0)) + fl(d.get('max_buffer', 100000)),
            [] if d.get('domain') is None else fl(d['domain']),
            [] if d.get('distance') is None else fl(d['distance']),
            (0, []) if vec is None else (1, fl(vec)),
            [] if sea is None else fl(sea),
            [] if lim is None else fl(lim),
            (-1 if isinstance(coe, str) else int(bool(coe)), bool(d.get('lambda_from_center', False)),
             bool(d.get('raise_error', True))),
            [int(x) for x in d.get('cell_numbers', [])])


def norm_model_input(t):
    """Parsed out_oawin value -> same canonical form."""
    flag, sds, nums, dom, dist, (vf, vec), sea, lim, (coe, lfc, rerr), cells = t
    f = lambda l: [fr(p) for p in l]
    return (flag, f(sds), f(nums), f(dom), f(dist), (vf, f(vec)), f(sea), f(lim),
            (coe, bool(lfc), bool(rerr)), [int(x) for x in cells])


def cm_eval_term(case, impl):
    from emg3d import meshes
    sds = skin_depths(case)
    tab = '[' + '; '.join(f"({q(p)}, {q(s)})" for p, s in zip(case['properties'], sds)) + ']'
    # argsort permutation: only the z direction can have a sea surface; its limits
    # and pps are what route_kw hands to z
    limz, ppsz = dir_value(case['limits'], 2, kw=True), dir_value(case['pps'], 2, kw=True)
    lim = None if limz is None else (limz if isinstance(limz, float) else list(limz))
    perm = argsort_perm(sds[0], 3.0 if ppsz is None else ppsz, lim)
    permt = '[' + '; '.join(f"{i}%nat" for i in perm) + ']'
    sea = 'None' if case['seasurface'] is None else f"(Some {q(case['seasurface'])})"
    c = case['center']
    cmin = cmin_term(case)
    return (f"Eval vm_compute in out_cm (construct_mesh qleb qfloor "
            f"(brentq_tab {brentq_term(impl['brentq'])}) (fun _ => {permt}) {q(TWOPI)} "
            f"(skin_tab {tab}) {cmin}).\n"
            f"Eval vm_compute in out_cm_inputs (cm_inputs (skin_tab {tab}) {cmin}).")


def cmin_term(case):
    sea = 'None' if case['seasurface'] is None else f"(Some {q(case['seasurface'])})"
    c = case['center']
    return (f"(mkCmIn {qlist(case['properties'])} ({q(c[0])}, {q(c[1])}, {q(c[2])}) "
            f"{val_coq(case['domain'])} {val_coq(case['vector'])} {val_coq(case['distance'])} "
            f"{val_coq(case['stretching'])} {val_coq(case['limits'])} {val_coq(case['pps'])} "
            f"{val_coq(case['coe'])} {sea} {q(case['lambda_factor'])} {q(case['max_buffer'])} "
            f"{V.coq_bool(case['lambda_from_center'])} {zlist(case['cell_numbers'])})")


def dir_value(v, d, kw):
    """Python-side reading of what direction d receives (numbers only; used for
    the argsort oracle).  Returns None / float / [a, b]."""
    t = v[0]
    if t == 'none':
        return None
    if t == 'num':
        return float(v[1])
    if t == 'dict':
        return dir_value(v[1 + d], 0, kw) if v[1 + d][0] not in ('dict',) else None
    if t == 'arr':
        if len(v[1]) == 3:
            return float(v[1][d])
        return [float(x) for x in v[1]] if len(v[1]) > 1 else float(v[1][0])
    if t == 'seq':
        if len(v[1]) == 3:
            return dir_value(v[1][d], 0, kw)
        xs = [x[1] for x in v[1]]
        return [float(x) for x in xs] if len(xs) > 1 else float(xs[0])
    return None


def compare_calls(case, impl, code, inputs, dis):
    """Per direction: the arguments the model routes to origin_and_widths must
    have been handed to an origin_and_widths call of the implementation (and no
    call may receive anything else).  A direction whose arguments are identical
    to another one's may legitimately share its call."""
    calls = impl['oaw_calls']
    if any(c[0] == 'unreadable' for c in calls):
        dis.append({'what': 'construct_mesh: origin_and_widths call not readable', 'case': case,
                    'impl': str(calls[:1])})
        return False
    expected = {10: 1, 11: 2}.get(code, 3)
    model = [norm_model_input(t) for t in inputs][:expected]
    if any(m[0] != 1 for m in model):
        return True                                    # argument form outside the model
    for d, m in enumerate(model):
        if m not in calls:
            near = calls[min(d, len(calls) - 1)] if calls else None
            diff = [k for k in range(len(m)) if near is None or near[k] != m[k]]
            dis.append({'what': f'construct_mesh: no origin_and_widths call received the arguments '
                                f'routed to direction {"xyz"[d]}',
                        'case': case, 'impl': {'calls': len(calls), 'differing_fields': diff},
                        'model': {'calls': expected}})
            return False
    for k, c in enumerate(calls):
        if c not in model:
            dis.append({'what': f'construct_mesh: origin_and_widths call {k} received arguments of no direction',
                        'case': case, 'impl': {'calls': len(calls)}, 'model': {'calls': expected}})
            return False
    if len(calls) > expected:
        dis.append({'what': 'construct_mesh: more origin_and_widths calls than directions', 'case': case,
                    'impl': len(calls), 'model': expected})
        return False
    return True


def compare_cm(case, impl, ans, dis, inputs=None):
    tmp = []
    ok = _compare_cm(case, impl, ans, tmp, inputs)
    if not ok and not any('brentq' in d['what'] or 'origin_and_widths call' in d['what'] for d in tmp):
        try:
            tie = sea_reach_tie(cm_dir_cases(case)[2], impl['brentq'])
        except Exception:
            tie = False
        if tie:
            TIE_SKIPS.append(('construct_mesh', case))
            return True
    dis.extend(tmp)
    return ok


def _compare_cm(case, impl, ans, dis, inputs=None):
    warns, code, org, hx, hy, hz = ans
    mk = 10 if code in (10, 11, 12) else code
    if inputs is not None and impl['kind'] != 97 and not compare_calls(case, impl, code, inputs, dis):
        return False
    if any(c[0] == 'unreadable' for c in impl['brentq']):
        dis.append({'what': 'construct_mesh: brentq closure no longer readable', 'case': case})
        return False
    if not check_brentq_contract(case, impl['brentq'], dis, 'construct_mesh'):
        return False
    if mk != impl['kind'] or list(warns) != impl['warns']:
        dis.append({'what': 'construct_mesh: result kind / warnings differ', 'case': case,
                    'impl': {'kind': impl['kind'], 'warns': impl['warns'], 'msg': impl.get('msg')},
                    'model': {'kind': code, 'warns': list(warns)}})
        return False
    if code != 0:
        return True
    for d, (mo, mh) in enumerate(zip(org, (hx, hy, hz))):
        ih = impl['h'][d]
        if len(ih) != len(mh):
            dis.append({'what': f'construct_mesh: number of cells differs in direction {d}',
                        'case': case, 'impl': len(ih), 'model': len(mh)})
            return False
        scale = max(abs(impl['origin'][d]), sum(ih))
        if not close(impl['origin'][d], fr(mo), scale):
            dis.append({'what': f'construct_mesh: origin differs in direction {d}', 'case': case,
                        'impl': impl['origin'][d], 'model': fr(mo)})
            return False
        for k, (a, b) in enumerate(zip(ih, mh)):
            if not close(a, fr(b), 0.0):
                dis.append({'what': f'construct_mesh: width {k} differs in direction {d}',
                            'case': case, 'impl': a, 'model': fr(b)})
                return False
    return True


# ------------------------------------------------ small functions: direct ties
def tie_good_mg(ctx, dis):
    from emg3d import meshes
    rng = ctx.rng
    combos = [(1024, 5, 3), (50000, 5, 0), (5000, 5, 3), (100, 2, 1), (64, 19, 0), (10, 20, 3),
              (0, 5, 3), (1024, 1, 3), (1024, 5, 30), (1024, 5, 29), (2**31 - 1, 3, 27), (1024, 5, -1)]
    n = 60 if ctx.thorough else 24
    while len(combos) < n:
        combos.append((rng.choice([7, 16, 100, 1000, 5000, 100000, 2**33]), rng.randint(0, 21),
                       rng.randint(-1, 31)))
    lines = [COQ_HEADER]
    for (m, p, d) in combos:
        lines.append(f"Eval vm_compute in out_opt_zlist (good_mg_cell_nr {V.coq_z(m)} {V.coq_z(p)} {V.coq_z(d)}).")
    rc, out = (yield [('c16_good', '\n'.join(lines) + '\n')])['c16_good']
    if rc != 0:
        dis.append({'what': 'good_mg_cell_nr model does not evaluate', 'log': out[-1500:]})
        return 0, {}
    hist = {'ok': 0, 'ValueError': 0}
    for (m, p, d), a in zip(combos, V.eval_answers(out)):
        code, lst = parse_ans(a)
        try:
            impl = [int(x) for x in meshes.good_mg_cell_nr(m, p, d)]
            ik = 0
        except ValueError:
            impl, ik = [], -1
        hist['ok' if ik == 0 else 'ValueError'] += 1
        if ik != code or impl != list(lst):
            dis.append({'what': 'good_mg_cell_nr differs', 'case': {'max_nr': m, 'max_lowest': p, 'min_div': d},
                        'impl': impl if ik == 0 else 'ValueError', 'model': list(lst) if code == 0 else 'ValueError'})
    return len(combos), hist


def tie_stretch(ctx, dis):
    """meshes._stretch and meshes.cell_width against the model, dyadic inputs."""
    from emg3d import meshes
    rng = ctx.rng
    n = 120 if ctx.thorough else 40
    cases, lines = [], [COQ_HEADER]
    for _ in range(n):
        nw = rng.choice([1, 1, 2, 3, 5])
        widths = [K.dy_pos(rng) for _ in range(nw)]
        e0 = K.dy(rng)
        edges = [e0, e0 + sum(widths)]
        alpha = rng.choice([1.0, 1.0, 1.125, 1.25, 1.5, 2.0, 1.0625, 0.875])
        nx = rng.choice([0, 1, 2, 3, 4, 6, 8, 8, 12, 16])
        dom = [e0 - rng.choice([-1, 0, 1, 2, 4, 9]) * widths[0] - rng.choice([0, 0.25]),
               edges[1] + rng.choice([-1, 0, 1, 2, 4, 9]) * widths[-1] + rng.choice([0, 0.5])]
        use_up = rng.random() < 0.5
        cases.append(dict(edges=edges, widths=widths, alpha=alpha, nx=nx, domain=dom, use_up=use_up))
        lines.append(f"Eval vm_compute in out_stretch (stretch qleb ({q(edges[0])}, {q(edges[1])}) "
                     f"{qlist(widths)} {q(alpha)} {V.coq_z(nx)} ({q(dom[0])}, {q(dom[1])}) {V.coq_bool(use_up)}).")
    cw = []
    for _ in range(20):
        sd, pps = K.dy_pos(rng) * 16, rng.choice([1.0, 2.0, 3.0, 4.0, 2.5])
        lim = rng.choice([None, K.dy_pos(rng), [K.dy_pos(rng)], sorted([K.dy_pos(rng), K.dy_pos(rng) * 4])])
        cw.append((sd, pps, lim))
        lines.append(f"Eval vm_compute in out_q (cell_width qleb {q(sd)} {q(pps)} {limits_term(lim)}).")
    rc, out = (yield [('c16_stretch', '\n'.join(lines) + '\n')])['c16_stretch']
    if rc != 0:
        dis.append({'what': '_stretch model does not evaluate', 'log': out[-1500:]})
        return 0, {}
    ans = V.eval_answers(out)
    hist = {'grid': 0, 'False': 0}
    for c, a in zip(cases, ans[:n]):
        rem, pairs = parse_ans(a)
        w = np.array(c['widths']) if len(c['widths']) > 1 else np.float64(c['widths'][0])
        e, hx, r = meshes._stretch(np.array(c['edges']), w, c['alpha'], c['nx'], c['domain'], c['use_up'])
        if r is False:
            hist['False'] += 1
            if rem != -1:
                dis.append({'what': '_stretch: impl returns False, model a grid', 'case': c})
            continue
        hist['grid'] += 1
        vals = [fr(p) for p in pairs]
        impl = [float(e[0]), float(e[1])] + [float(x) for x in np.atleast_1d(hx)]
        if rem != int(r) or len(vals) != len(impl) or any(
                not close(x, y, max(abs(impl[0]), abs(impl[1]))) for x, y in zip(impl, vals)):
            dis.append({'what': '_stretch differs', 'case': c, 'impl': {'remain': int(r), 'vals': impl},
                        'model': {'remain': rem, 'vals': [float(v) for v in vals]}})
    for (sd, pps, lim), a in zip(cw, ans[n:]):
        m = fr(parse_ans(a))
        i = float(np.atleast_1d(meshes.cell_width(np.float64(sd), pps, lim))[0])
        if not close(i, m, 0.0):
            dis.append({'what': 'cell_width differs', 'case': {'sd': sd, 'pps': pps, 'limits': lim},
                        'impl': i, 'model': float(m)})
    return n + len(cw), hist


def tie_seasurface(ctx, dis):
    """meshes._seasurface against the model's seasurface_adjust (all three
    outcomes: cell moved, brentq cells appended, unchanged; warning flag)."""
    from emg3d import meshes
    rng = ctx.rng
    n = 120 if ctx.thorough else 60
    cases, lines, impls = [], [COQ_HEADER], []
    for _ in range(n):
        hv = rng.random() < 0.5
        if hv:
            ws = [K.dy_pos(rng) * 4 for _ in range(rng.randint(2, 5))]
            e0 = K.dy(rng) * 8
            nodes = [e0]
            for w in ws:
                nodes.append(nodes[-1] + w)
            edges, center = [nodes[0], nodes[-1]], nodes[rng.randint(0, len(nodes) - 2)]
            wl = ws[-1]
        else:
            wl = K.dy_pos(rng) * 4
            center = K.dy(rng) * 8
            edges, ws, nodes = [center - wl / 2, center + wl / 2], [wl], None
        sea = edges[1] + wl * rng.choice([0.25, 0.5, 0.75, 1, 1, 2, 3, 1.5, 2.25, 3.0625, 4.5, 6, 0.4375,
                                         1.125, 1.1875, 1.3125, 1.375, 1.4375, 2.875, 2.375, 1.0625])
        if rng.random() < 0.15:
            sea = edges[1] - wl * rng.choice([0.25, 0.5, 0.125])
        s0, s1 = rng.choice([1.0, 1.0, 1.0625, 1.25]), rng.choice([1.5, 1.125, 2.0, 1.03125])
        lk = rng.random()
        lim = None if lk < 0.5 else (wl if lk < 0.65 else [wl * rng.choice([0.5, 0.75, 0.875, 1.0]),
                                                          wl * rng.choice([1.0, 1.125, 1.25, 2.0])])
        while not hv and sea_float_tie(center, wl, sea, lim):
            sea += wl / 64
        c = dict(edges=edges, widths=ws, center=center, seasurface=sea, stretching=[s0, s1],
                 has_vector=hv, limits=lim)
        calls = []
        with warnings.catch_warnings(record=True) as wrec, record_brentq(calls):
            warnings.simplefilter('always')
            try:
                e, w = meshes._seasurface(np.array(edges, dtype=float),
                                          np.array(ws) if hv else np.float64(wl), center, sea, [s0, s1],
                                          np.array(nodes) if hv else None, lim)
                im = {'kind': 0, 'vals': [float(e[0]), float(e[1])] + [float(x) for x in np.atleast_1d(w)]}
            except Exception as ex:
                im = {'kind': 97, 'msg': repr(ex)}
        im['warned'] = 2 in warn_codes(wrec)
        im['brentq'] = calls
        if lim is None or isinstance(lim, list):
            fmn, fmx = 0.7, 1.3
            if lim is not None:
                fmn, fmx = max(fmn, lim[0] / wl), min(fmx, lim[1] / wl)
            perm = [int(i) for i in np.argsort(abs(np.linspace(fmn, fmx, 13) - 1))]
        else:
            perm = list(range(13))
        permt = '[' + '; '.join(f"{i}%nat" for i in perm) + ']'
        lines.append(f"Eval vm_compute in out_sea (seasurface_adjust qleb qfloor (brentq_tab {brentq_term(calls)}) "
                     f"(fun _ => {permt}) ({q(edges[0])}, {q(edges[1])}) {qlist(ws)} {q(center)} {q(sea)} "
                     f"{q(s0)} {q(s1)} {V.coq_bool(hv)} {limits_term(lim)}).")
        cases.append(c)
        impls.append(im)
    rc, out = (yield [('c16_sea', '\n'.join(lines) + '\n')])['c16_sea']
    if rc != 0:
        dis.append({'what': '_seasurface model does not evaluate', 'log': out[-1500:]})
        return 0, {}
    hist = {'moved': 0, 'brentq_cells': 0, 'unchanged': 0, 'warned': 0}
    for c, im, a in zip(cases, impls, V.eval_answers(out)):
        warned, pairs = parse_ans(a)
        vals = [fr(p) for p in pairs]
        if not check_brentq_contract(c, im['brentq'], dis, '_seasurface'):
            continue
        if im['kind'] != 0:
            dis.append({'what': '_seasurface raised', 'case': c, 'impl': im.get('msg')})
            continue
        if bool(warned) != im['warned'] or len(vals) != len(im['vals']) or any(
                not close(x, y, max(abs(im['vals'][0]), abs(im['vals'][1]))) for x, y in zip(im['vals'], vals)):
            dis.append({'what': '_seasurface differs', 'case': c,
                        'impl': {'warned': im['warned'], 'vals': im['vals']},
                        'model': {'warned': bool(warned), 'vals': [float(v) for v in vals]}})
            continue
        hist['warned'] += im['warned']
        if len(im['vals']) - 2 > len(c['widths']):
            hist['brentq_cells'] += 1
        elif abs(im['vals'][1] - c['edges'][1]) > 0:
            hist['moved'] += 1
        else:
            hist['unchanged'] += 1
    return n, hist


# ------------------------------------------- Round 7: one session, many calls
def doc_good_numbers(max_nr=1024, max_lowest=5, min_div=3):
    """The permitted cell numbers from the DOCUMENTED rule of good_mg_cell_nr
    (p * 2^n <= max_nr, p in {2, 3, 5, 7, ...} <= max_lowest, n >= min_div),
    recomputed here: independent of emg3d's own table at check time."""
    out = set()
    for p in (2, 3, 5, 7, 9, 11, 13, 15, 17, 19):
        if p > max_lowest:
            continue
        n = min_div
        while p * 2 ** n <= max_nr:
            out.add(p * 2 ** n)
            n += 1
    return sorted(out)


GRIDDING_FUNCS = ('construct_mesh', 'origin_and_widths', '_stretch', '_seasurface', 'good_mg_cell_nr',
                  'skin_depth', 'wavelength', 'cell_width', 'estimate_gridding_opts')


def tie_anchor(ctx, dis):
    """Source anchor for 'the model has no state' (Model/GriddingSession.v): the
    gridding functions of emg3d/meshes.py must be plain module-level functions
    without decorator, without global / nonlocal statements at function level,
    without mutable default arguments, without attributes stored on function
    objects, and must not read a module-level name bound to a mutable container
    or to the result of a call (a table / cache).  Fails closed."""
    import os
    src = open(os.path.join(V.REPO, 'emg3d', 'meshes.py')).read()
    tree = ast.parse(src)
    found = {}
    module_mut = {}
    for node in tree.body:
        if isinstance(node, ast.FunctionDef):
            found[node.name] = node
        elif isinstance(node, (ast.Assign, ast.AnnAssign, ast.AugAssign)):
            tg = node.targets if isinstance(node, ast.Assign) else [node.target]
            val = node.value
            for t in tg:
                for nm in ast.walk(t):
                    if isinstance(nm, ast.Name) and nm.id != '__all__':
                        if isinstance(val, (ast.List, ast.Dict, ast.Set, ast.Call, ast.ListComp, ast.DictComp,
                                            ast.SetComp)):
                            module_mut[nm.id] = node.lineno
                    elif isinstance(nm, ast.Attribute):
                        module_mut[ast.unparse(nm)] = node.lineno
    bad = []
    for fn in GRIDDING_FUNCS:
        node = found.get(fn)
        if node is None:
            bad.append(f"{fn}: not a module-level function any more")
            continue
        if node.decorator_list:
            bad.append(f"{fn}: decorated with {[ast.unparse(d) for d in node.decorator_list]} "
                       f"(memoisation / wrapping makes results shared state)")
        for d in list(node.args.defaults) + [d for d in node.args.kw_defaults if d is not None]:
            if isinstance(d, (ast.List, ast.Dict, ast.Set, ast.Call)):
                bad.append(f"{fn}: mutable default argument {ast.unparse(d)}")
        for sub in ast.walk(node):
            if isinstance(sub, (ast.Global, ast.Nonlocal)) and not any(
                    isinstance(p, ast.FunctionDef) and p is not node and sub in ast.walk(p)
                    for p in ast.walk(node)):
                bad.append(f"{fn}: {type(sub).__name__.lower()} statement on {sub.names}")
            if isinstance(sub, ast.Name) and isinstance(sub.ctx, ast.Load) and sub.id in module_mut:
                bad.append(f"{fn}: reads module-level mutable `{sub.id}` (meshes.py line {module_mut[sub.id]})")
            if isinstance(sub, ast.Attribute) and isinstance(sub.value, ast.Name) and sub.value.id in GRIDDING_FUNCS:
                bad.append(f"{fn}: uses attribute `{ast.unparse(sub)}` of a function object")
    for nm, ln in module_mut.items():
        if any(nm.startswith(f + '.') for f in GRIDDING_FUNCS):
            bad.append(f"module level: attribute `{nm}` stored on a gridding function (line {ln})")
    for b in sorted(set(bad)):
        dis.append({'what': 'anchor: emg3d/meshes.py gridding function is not state-free: ' + b,
                    'case': {'anchor': b}})
    return len(GRIDDING_FUNCS), {'functions_checked': len(GRIDDING_FUNCS), 'flagged': len(set(bad))}


EDIT_KINDS = [['add', 1], ['mul', 2], ['setat', 0, 250], ['clamp', 256, 250], ['fill', 0]]


def call_good(args, form):
    """good_mg_cell_nr in the call forms a user writes: without arguments (only
    for the default table), positional, keywords, mixed -- the same table in all."""
    from emg3d import meshes
    if form == 'noargs' and list(args) == [1024, 5, 3]:
        return meshes.good_mg_cell_nr()
    if form == 'kw':
        return meshes.good_mg_cell_nr(max_nr=args[0], max_lowest=args[1], min_div=args[2])
    if form == 'mixed':
        return meshes.good_mg_cell_nr(args[0], min_div=args[2], max_lowest=args[1])
    return meshes.good_mg_cell_nr(*args)


def good_text(args, form):
    if form == 'noargs' and list(args) == [1024, 5, 3]:
        return "meshes.good_mg_cell_nr()"
    if form == 'kw':
        return "meshes.good_mg_cell_nr(max_nr=%d, max_lowest=%d, min_div=%d)" % tuple(args)
    if form == 'mixed':
        return "meshes.good_mg_cell_nr(%d, min_div=%d, max_lowest=%d)" % (args[0], args[2], args[1])
    return "meshes.good_mg_cell_nr(%d, %d, %d)" % tuple(args)


def apply_edit(arr, e):
    """The in-place edit e on the ndarray arr (never rebinding)."""
    if e[0] == 'add':
        arr += e[1]
    elif e[0] == 'mul':
        arr *= e[1]
    elif e[0] == 'setat':
        arr[e[1]] = e[2]
    elif e[0] == 'clamp':
        arr[arr > e[1]] = e[2]
    elif e[0] == 'fill':
        arr[:] = e[1]
    else:
        raise ValueError(e)


def edit_coq(e):
    return {'add': lambda: f"(EAdd {V.coq_z(e[1])})", 'mul': lambda: f"(EMul {V.coq_z(e[1])})",
            'setat': lambda: f"(ESetAt {int(e[1])}%nat {V.coq_z(e[2])})",
            'clamp': lambda: f"(EClampAbove {V.coq_z(e[1])} {V.coq_z(e[2])})",
            'fill': lambda: f"(EFill {V.coq_z(e[1])})"}[e[0]]()


def hist_oaw_case(rng, freq, mapping, small_s1=False, with_vector=False):
    """A cheap origin_and_widths request (no sea surface): D unit cells of survey
    domain, m cells of buffer per side, D + 2m <= a good number G and D > the
    good number below G, so that the first candidate passing the first stage is
    admissible with buffer stretching 1 (cheap on exact rationals)."""
    props = [prop_value(rng, mapping) for _ in range(rng.choice([1, 2, 3]))]
    case = dict(frequency=freq, properties=props, mapping=mapping, style='H')
    sd0 = skin_depths(case)[0]
    u = max(1.0, float(round(sd0 / 3)))
    G, Gb = rng.choice([(16, 0), (16, 0), (24, 16), (32, 24)])
    m = rng.randint(0, 3)
    D = rng.randint(max(Gb + 1, 5), G - 2 * m)
    a = rng.randint(2, D - 2)
    center = float(rng.randint(-20, 20) * 16)
    vector = None
    if with_vector:
        lo = min(a, 2)
        vector = [center + k * u for k in range(-lo, min(D - a, 3) + 1)]
    s1 = 1 + rng.randint(3, 9) / 1024 if small_s1 else 1.5
    case.update(center=center, domain=[center - a * u, center + (D - a) * u], distance=None, vector=vector,
                seasurface=None, stretching=[1.0, s1], limits=u, pps=3.0, lambda_factor=1.0,
                max_buffer=float(m * u), lambda_from_center=False, cell_numbers=[],
                center_on_edge=rng.choice([None, True, True]), raise_error=rng.random() < 0.7,
                default_stretching=(not small_s1 and rng.random() < 0.5))
    return case


def hist_cm_case(rng, freq, mapping):
    """A cheap construct_mesh request in the same spirit (default cell numbers)."""
    nprops = rng.choice([0, 1, 3, 4])
    props = [prop_value(rng, mapping) for _ in range(max(nprops, 1))]
    sd0 = skin_depths(dict(frequency=freq, properties=props, mapping=mapping))[0]
    u = max(1.0, float(round(sd0 / 3)))
    center = [float(rng.randint(-20, 20) * 16) for _ in range(3)]
    m = rng.randint(0, 2)
    doms = []
    for d in range(3):
        G, Gb = rng.choice([(16, 0), (16, 0), (24, 16)])
        D = rng.randint(max(Gb + 1, 5), G - 2 * m)
        a = rng.randint(2, D - 2)
        doms.append(pair_val(rng, (center[d] - a * u, center[d] + (D - a) * u)))
    domain = ('dict', doms[0], doms[1], doms[2]) if rng.random() < 0.5 else seq(doms, rng.choice(['list', 'tuple']))
    return dict(frequency=freq, mapping=mapping, properties=props, scalar_props=(nprops == 0),
                center=center, domain=domain, vector=NONE, distance=NONE,
                stretching=NONE if rng.random() < 0.6 else pair_val(rng, (1.0, 1.5)),
                limits=('num', u), pps=NONE, coe=rng.choice([NONE, ('bool', True)]), seasurface=None,
                lambda_factor=1.0, max_buffer=float(m * u), lambda_from_center=False, cell_numbers=[])


def gen_history(rng, k):
    """One session: requests, helper calls, in-place edits of returned / own
    arrays, the same requests again.  Edit kinds are enumerated by k."""
    freq = rng.choice([0.5, 1.0, 2.0, 4.0])
    mapping = rng.choice(MAPS)
    e_main = EDIT_KINDS[k % len(EDIT_KINDS)]
    e_other = EDIT_KINDS[(k // len(EDIT_KINDS) + k + 1) % len(EDIT_KINDS)]
    ops, nobj = [], [0]

    def push(op, new=0):
        ops.append(op)
        h = nobj[0]
        op['h0'] = h
        nobj[0] += new
        return h
    r1 = hist_oaw_case(rng, freq, mapping)
    push({'op': 'oaw', 'case': r1, 'cells': ['default'], 'vec': ['given']}, 1)
    g = push({'op': 'good', 'args': [1024, 5, 3], 'form': 'noargs'}, 1)
    push({'op': 'edit', 'h': g, 'edit': e_main})
    push({'op': 'oaw', 'case': r1, 'cells': ['default'], 'vec': ['given']}, 1)
    push({'op': 'good', 'args': [1024, 5, 3], 'form': 'noargs'}, 1)
    blocks = ['cm', 'other', 'cells', 'vector']
    rng.shuffle(blocks)
    for b in blocks:
        if b == 'cm':
            c1 = hist_cm_case(rng, freq, mapping)
            hx = push({'op': 'cm', 'case': c1, 'cells': ['default']}, 3)
            g2 = push({'op': 'good', 'args': [1024, 5, 3], 'form': rng.choice(['noargs', 'kw', 'pos', 'mixed'])}, 1)
            push({'op': 'edit', 'h': g2, 'edit': e_other})
            push({'op': 'edit', 'h': hx + rng.randint(0, 2), 'edit': rng.choice([['mul', 2], ['add', 1], ['fill', 0]])})
            push({'op': 'cm', 'case': c1, 'cells': ['default']}, 3)
        elif b == 'other':
            args = rng.choice([[5000, 5, 3], [1024, 3, 2], [50000, 5, 0], [1024, 7, 3], [100, 2, 1], [1024, 20, 3]])
            form = rng.choice(['pos', 'kw', 'mixed'])
            g3 = push({'op': 'good', 'args': args, 'form': form}, 0 if args[1] > 19 else 1)
            if args[1] <= 19:
                push({'op': 'edit', 'h': g3, 'edit': rng.choice(EDIT_KINDS[:2] + EDIT_KINDS[3:])})
                push({'op': 'good', 'args': args, 'form': form}, 1)
        elif b == 'cells':
            r2 = hist_oaw_case(rng, freq, mapping, small_s1=True)
            own = sorted(rng.sample([8, 12, 16, 20, 24, 32, 40], 4))
            hc = push({'op': 'alloc', 'kind': 'int', 'vals': own}, 1)
            push({'op': 'oaw', 'case': r2, 'cells': ['handle', hc], 'vec': ['given']}, 1)
            push({'op': 'edit', 'h': hc, 'edit': rng.choice([['mul', 2], ['add', 2], ['setat', 0, 6]])})
            push({'op': 'oaw', 'case': r2, 'cells': ['handle', hc], 'vec': ['given']}, 1)
            push({'op': 'oaw', 'case': r2, 'cells': ['list', own], 'vec': ['given']}, 1)
        else:
            r3 = hist_oaw_case(rng, freq, mapping, with_vector=True)
            hv = push({'op': 'alloc', 'kind': 'num', 'vals': r3['vector']}, 1)
            push({'op': 'oaw', 'case': r3, 'cells': ['default'], 'vec': ['handle', hv]}, 1)
            w = push({'op': 'oaw', 'case': r3, 'cells': ['default'], 'vec': ['handle', hv]}, 1)
            push({'op': 'edit', 'h': w, 'edit': ['mul', 2]})
            push({'op': 'edit', 'h': hv, 'edit': ['add', rng.choice([1, 2])]})
            push({'op': 'oaw', 'case': r3, 'cells': ['default'], 'vec': ['handle', hv]}, 1)
    g4 = push({'op': 'good', 'args': [1024, 5, 3], 'form': rng.choice(['noargs', 'noargs', 'kw', 'pos'])}, 1)
    push({'op': 'edit', 'h': g4, 'edit': e_other})
    push({'op': 'oaw', 'case': r1, 'cells': ['default'], 'vec': ['given']}, 1)
    return {'frequency': freq, 'mapping': mapping, 'ops': ops}


def hist_call_cm(case, cells):
    """emg3d.construct_mesh for a history step (cell_numbers omitted / literal / heap array)."""
    import emg3d
    kw = dict(lambda_factor=case['lambda_factor'], max_buffer=case['max_buffer'],
              lambda_from_center=case['lambda_from_center'], mapping=case['mapping'])
    if cells is not None:
        kw['cell_numbers'] = cells
    for name, key in (('distance', 'distance'), ('stretching', 'stretching'),
                      ('min_width_limits', 'limits'), ('min_width_pps', 'pps'),
                      ('center_on_edge', 'coe')):
        if case[key] != NONE:
            kw[name] = val_py(case[key])
    props = case['properties'][0] if case['scalar_props'] else list(case['properties'])
    with warnings.catch_warnings(record=True) as ws:
        warnings.simplefilter('always')
        try:
            m = emg3d.construct_mesh(case['frequency'], props, tuple(case['center']),
                                     val_py(case['domain']), val_py(case['vector']),
                                     case['seasurface'], **kw)
            res = {'kind': 0, 'origin': [float(x) for x in m.origin],
                   'h': [[float(x) for x in h] for h in m.h], 'h_obj': [m.h[0], m.h[1], m.h[2]]}
        except ValueError as e:
            res = {'kind': 10, 'msg': str(e)}
        except RuntimeError as e:
            res = {'kind': 3, 'msg': str(e)}
        except Exception as e:
            res = {'kind': 97, 'msg': repr(e)}
    res['warns'] = warn_codes(ws)
    return res


def run_history(hist):
    """Drive the REAL implementation through the history, in this process.
    Returns (list of per-step results, heap of ndarrays, aliasing remarks)."""
    from emg3d import meshes
    heap, results, alias = [], [], []

    def adopt(k, arr, inputs=()):
        for j, old in enumerate(list(heap) + list(inputs)):
            if isinstance(old, np.ndarray) and isinstance(arr, np.ndarray) and np.shares_memory(arr, old):
                alias.append((k, j if j < len(heap) else 'input'))
        heap.append(arr)
    for k, op in enumerate(hist['ops']):
        t = op['op']
        if t == 'good':
            try:
                arr = call_good(op['args'], op.get('form', 'pos'))
                results.append({'kind': 103, 'vals': [int(x) for x in arr]})
                adopt(k, arr)
            except ValueError:
                results.append({'kind': 102})
        elif t == 'alloc':
            heap.append(np.array(op['vals'], dtype=np.int64 if op['kind'] == 'int' else np.float64))
            results.append({'kind': 100})
        elif t == 'edit':
            if op['h'] >= len(heap):
                results.append({'kind': 101})
            else:
                apply_edit(heap[op['h']], op['edit'])
                results.append({'kind': 100})
        elif t in ('oaw', 'cm') and (
                (op['cells'][0] == 'handle' and not (op['cells'][1] < len(heap)
                                                     and heap[op['cells'][1]].dtype.kind == 'i'))
                or (t == 'oaw' and op['vec'][0] == 'handle' and not (op['vec'][1] < len(heap)
                                                                    and heap[op['vec'][1]].dtype.kind == 'f'))):
            results.append({'kind': 101})        # the history names an array that is not there (BadHandle)
        elif t == 'oaw':
            cells = {'default': lambda: ('default',), 'list': lambda: ('obj', list(op['cells'][1])),
                     'handle': lambda: ('obj', heap[op['cells'][1]])}[op['cells'][0]]()
            vobj = heap[op['vec'][1]] if op['vec'][0] == 'handle' else None
            im = run_oaw(op['case'], cells_arg=cells, vector_obj=vobj)
            results.append(im)
            if im['kind'] == 0:
                adopt(k, np.atleast_1d(im.pop('hx_obj')), [x for x in (vobj, cells[-1]) if isinstance(x, np.ndarray)])
        elif t == 'cm':
            cells = {'default': lambda: None, 'list': lambda: list(op['cells'][1]),
                     'handle': lambda: heap[op['cells'][1]]}[op['cells'][0]]()
            im = hist_call_cm(op['case'], cells)
            results.append(im)
            if im['kind'] == 0:
                for h in im.pop('h_obj'):
                    adopt(k, h)
    return results, heap, alias


def history_term(hist):
    """The Coq term of the history (Model/GriddingSession.v) and the skin table."""
    tab = {}
    terms = []
    for op in hist['ops']:
        t = op['op']
        if t == 'good':
            terms.append("(OGood %s %s %s)" % tuple(V.coq_z(x) for x in op['args']))
        elif t == 'alloc':
            terms.append(f"(OAlloc (OInt {zlist(op['vals'])}))" if op['kind'] == 'int'
                         else f"(OAlloc (ONum {qlist(op['vals'])}))")
        elif t == 'edit':
            terms.append(f"(OEdit {int(op['h'])}%nat {edit_coq(op['edit'])})")
        else:
            ca = op['cells']
            cells = 'CDefault' if ca[0] == 'default' else (
                f"(CList {zlist(ca[1])})" if ca[0] == 'list' else f"(CHandle {int(ca[1])}%nat)")
            if t == 'oaw':
                c = dict(op['case'])
                if op['vec'][0] == 'handle':
                    c['vector'] = None
                vec = 'VGiven' if op['vec'][0] == 'given' else f"(VHandle {int(op['vec'][1])}%nat)"
                terms.append(f"(OOaw {oawin_term(c, skin_depths(op['case']))} {cells} {vec})")
            else:
                c = op['case']
                for p, sd in zip(c['properties'], skin_depths(c)):
                    tab[float(p)] = sd
                terms.append(f"(OCm {cmin_term(c)} {cells})")
    tabt = '[' + '; '.join(f"({q(p)}, {q(sd)})" for p, sd in sorted(tab.items())) + ']'
    perm = '[' + '; '.join(f"{i}%nat" for i in range(13)) + ']'
    return (f"Eval vm_compute in out_session (GriddingSession.run qleb qfloor (brentq_tab []) "
            f"(fun _ => {perm}) {q(TWOPI)} (skin_tab {tabt}) [" + ';\n  '.join(terms) + "] []).")


def compare_history(hist, results, heap, alias, ans, dis):
    outs, mheap = ans
    what = 'history (one session)'
    short = {'session': hist.get('k'), 'ops': [hist_step_text(o) for o in hist['ops']]}
    if alias:
        k, j = alias[0]
        dis.append({'what': f'{what}: the array returned by step {k} shares memory with '
                            f'{"an argument array" if j == "input" else "heap array a%s the caller already holds" % j}',
                    'case': short})
    if len(outs) != len(results):
        dis.append({'what': f'{what}: number of outcomes differs', 'case': short})
        return False
    for k, (im, mo, op) in enumerate(zip(results, outs, hist['ops'])):
        warns, code, ints, pairs = mo
        t = op['op']
        here = dict(short, step=k, step_text=hist_step_text(op))
        if t in ('good', 'alloc', 'edit'):
            if code != im['kind'] or (code == 103 and list(ints) != im['vals']):
                dis.append({'what': f'{what}: step {k} ({hist_step_text(op)[:60]}) differs', 'case': here,
                            'impl': im, 'model': {'code': code, 'vals': list(ints)}})
                return False
        elif im['kind'] == 101 or code == 101:
            if im['kind'] != code:
                dis.append({'what': f'{what}: step {k} ({hist_step_text(op)[:60]}) differs', 'case': here,
                            'impl': im['kind'], 'model': code})
                return False
        elif t == 'oaw':
            tmp = []
            if not _compare_oaw(op['case'], im, mo, tmp, what=f'{what}: step {k} origin_and_widths'):
                d = tmp[0]
                d['case'] = here
                dis.append(d)
                return False
        else:
            mk = {210: 10, 211: 10, 212: 10}.get(code, code - 200)
            if mk != im['kind'] or list(warns) != im['warns']:
                dis.append({'what': f'{what}: step {k} construct_mesh result kind / warnings differ', 'case': here,
                            'impl': {'kind': im['kind'], 'warns': im['warns'], 'msg': im.get('msg')},
                            'model': {'kind': code - 200, 'warns': list(warns)}})
                return False
            if mk == 0:
                vals = [fr(p) for p in pairs]
                iv = im['origin'] + im['h'][0] + im['h'][1] + im['h'][2]
                if [len(h) for h in im['h']] != [int(x) for x in ints]:
                    dis.append({'what': f'{what}: step {k} construct_mesh number of cells differs', 'case': here,
                                'impl': [len(h) for h in im['h']], 'model': [int(x) for x in ints]})
                    return False
                scale = max(abs(x) for x in iv)
                if any(not close(a, b, scale * 1e-3) for a, b in zip(iv, vals)):
                    dis.append({'what': f'{what}: step {k} construct_mesh origin / widths differ', 'case': here})
                    return False
    # the whole heap at the end: calls modified no array of the caller, edits hit one array each
    if len(mheap) != len(heap):
        dis.append({'what': f'{what}: number of arrays on the heap differs', 'case': short,
                    'impl': len(heap), 'model': len(mheap)})
        return False
    for j, (arr, (kind, ints, pairs)) in enumerate(zip(heap, mheap)):
        if kind == 0:
            same = [int(x) for x in arr] == [int(x) for x in ints]
        else:
            mv = [fr(p) for p in pairs]
            same = len(mv) == len(arr) and all(close(a, b, 1e-6) for a, b in zip(arr, mv))
        if not same:
            dis.append({'what': f'{what}: heap array {j} differs after the history (an array the caller holds '
                                f'was modified by a call, or a returned array is shared)', 'case': short,
                        'impl': [float(x) for x in arr][:12], 'model': (list(ints) or [float(fr(p)) for p in pairs])[:12]})
            return False
    return True


def hist_step_text(op):
    t = op['op']
    if t == 'good':
        return f"a{op.get('h0', '?')} = " + good_text(op['args'], op.get('form', 'pos'))
    if t == 'alloc':
        return f"a{op.get('h0', '?')} = np.array({op['vals']})"
    if t == 'edit':
        e = op['edit']
        return {'add': f"a{op['h']} += {e[1]}", 'mul': f"a{op['h']} *= {e[1]}",
                'setat': f"a{op['h']}[{e[1]}] = {e[-1]}", 'clamp': f"a{op['h']}[a{op['h']} > {e[1]}] = {e[-1]}",
                'fill': f"a{op['h']}[:] = {e[1]}"}[e[0]]
    c = op['case']
    cells = {'default': '', 'list': f", cell_numbers={op['cells'][-1]}",
             'handle': f", cell_numbers=a{op['cells'][-1]}"}[op['cells'][0]]
    if t == 'oaw':
        vec = f"a{op['vec'][1]}" if op['vec'][0] == 'handle' else repr(c['vector'])
        return (f"{('x0, a%d = ' % op['h0']) if 'h0' in op else ''}origin_and_widths({c['frequency']}, {c['properties']}, {c['center']}, {c['domain']}, vector={vec}, "
                f"mapping={c['mapping']!r}, min_width_limits={c['limits']}, max_buffer={c['max_buffer']}"
                f"{'' if c.get('default_stretching') else ', stretching=%s' % c['stretching']}, "
                f"center_on_edge={c['center_on_edge']}{cells})")
    return (f"{('a%d, a%d, a%d = ' % (op['h0'], op['h0'] + 1, op['h0'] + 2)) if 'h0' in op else ''}construct_mesh({c['frequency']}, {c['properties']}, {c['center']}, "
            f"domain={val_py(c['domain'])}, vector={val_py(c['vector'])}, seasurface={c['seasurface']}, "
            f"mapping={c['mapping']!r}, min_width_limits={val_py(c['limits'])}, max_buffer={c['max_buffer']}{cells}){'.h' if 'h0' in op else ''}")


def tie_history(ctx, dis):
    """History stream: sessions of gridding calls and in-place edits on the REAL
    implementation, all in this one process, against Model/GriddingSession.v."""
    rng = ctx.rng
    n = 15 if ctx.thorough else 5
    hists = []
    for k in range(n):
        h = gen_history(rng, k)
        h['k'] = k
        hists.append(h)
    runs = [run_history(h) for h in hists]
    per = 3
    head = COQ_HEADER + "From V Require Import Model.GriddingSession.\n"
    texts = [(f"c16_hist_{j // per}", head + '\n'.join(history_term(h) for h in hists[j:j + per]) + '\n')
             for j in range(0, n, per)]
    res = yield texts
    hist = {'sessions': n, 'steps': 0}
    for j in range(0, n, per):
        rc, out = res[f"c16_hist_{j // per}"]
        if rc != 0:
            dis.append({'what': 'history model does not evaluate', 'log': out[-1500:]})
            continue
        for h, (results, heap, alias), a in zip(hists[j:j + per], runs[j:j + per], V.eval_answers(out)):
            compare_history(h, results, heap, alias, parse_ans(a), dis)
            hist['steps'] += len(h['ops'])
            for op in h['ops']:
                key = op['op'] + ('/' + op['edit'][0] if op['op'] == 'edit' else '') + (
                    '/' + op['cells'][0] if 'cells' in op else '') + (
                    '/vec-' + op['vec'][0] if 'vec' in op else '')
                hist[key] = hist.get(key, 0) + 1
            kinds = {}
            for r in results:
                kinds[r['kind']] = kinds.get(r['kind'], 0) + 1
            for kk, v in kinds.items():
                hist['outcome%d' % kk] = hist.get('outcome%d' % kk, 0) + v
    return sum(len(h['ops']) for h in hists), hist


# ------------------------------------------------------------ correspondence
COST_CAP = 4000
QUICK_OAW_CAP = 2500      # quick tier: the few costliest origin_and_widths sets dominated the wall time


def batched(prefix, terms, per):
    return [(f"{prefix}_{k // per}", COQ_HEADER + '\n'.join(terms[k:k + per]) + '\n')
            for k in range(0, len(terms), per)]


def correspondence(ctx):
    rng = ctx.rng
    dis = []
    del TIE_SKIPS[:]
    hist = {}
    # the small ties are generators: they yield their Coq files, which are evaluated
    # together with the origin_and_widths / construct_mesh files in ONE parallel wave
    ties = [('good_mg_cell_nr', tie_good_mg(ctx, dis)), ('_stretch', tie_stretch(ctx, dis)),
            ('_seasurface', tie_seasurface(ctx, dis))]
    tie_texts = [next(g) for _, g in ties]

    # origin_and_widths
    n_oaw = 160 if ctx.thorough else 48
    cap = 12000 if ctx.thorough else COST_CAP
    cap_oaw = cap if ctx.thorough else QUICK_OAW_CAP
    cases, impls, skipped = [], [], 0
    while len(cases) < n_oaw:
        c = gen_oaw(rng)
        im = run_oaw(c)
        if im['cost'] > cap_oaw:
            skipped += 1
            continue
        cases.append(c)
        impls.append(im)
    order = sorted(range(n_oaw), key=lambda k: -impls[k]['cost'])       # spread the costly ones
    per = 6 if ctx.thorough else 8
    nfiles = (n_oaw + per - 1) // per
    groups = [[] for _ in range(nfiles)]
    for pos, k in enumerate(order):
        groups[pos % nfiles].append(k)
    texts = [(f"c16_oaw_{g}", COQ_HEADER + '\n'.join(oaw_eval_term(cases[k], impls[k]) for k in grp) + '\n')
             for g, grp in enumerate(groups)]
    # construct_mesh
    n_cm = 96 if ctx.thorough else 36
    cmc, cmi = [], []
    n_one = n_cm // 3                  # a third: one option in one direction only
    n_mar = n_cm // 3                  # a third: marine (sea surface + z-vector)
    while len(cmc) < n_cm:
        one = len(cmc) < n_one + n_mar
        c = (gen_cm_onedir(rng) if len(cmc) < n_one else gen_cm_marine(rng)) if one else gen_cm(rng)
        im = run_cm(c)
        if im['cost'] > (4 * cap if one else cap):
            skipped += 1
            continue
        cmc.append(c)
        cmi.append(im)
    per_cm = 4 if ctx.thorough else 6
    texts += [(f"c16_cm_{k // per_cm}", COQ_HEADER + '\n'.join(
        cm_eval_term(c, im) for c, im in zip(cmc[k:k + per_cm], cmi[k:k + per_cm])) + '\n')
        for k in range(0, n_cm, per_cm)]
    n_anchor, hist['anchor_state_free'] = tie_anchor(ctx, dis)
    ties.append(('history', tie_history(ctx, dis)))
    tie_texts.append(next(ties[-1][1]))
    res = V.coq_eval_many(texts + [t for tt in tie_texts for t in tt], timeout=1500)
    counts = {}
    for (nm, g), tt in zip(ties, tie_texts):
        try:
            g.send({name: res[name] for name, _ in tt})
            counts[nm], hist[nm] = 0, {}
        except StopIteration as stop:
            counts[nm], hist[nm] = stop.value
    n_good, n_str, n_sea, n_hist = (counts[k] for k in ('good_mg_cell_nr', '_stretch', '_seasurface', 'history'))

    feats, distinct = {}, set()
    for g, grp in enumerate(groups):
        rc, out = res[f"c16_oaw_{g}"]
        if rc != 0:
            dis.append({'what': 'origin_and_widths model does not evaluate', 'log': out[-1500:]})
            continue
        for k, a in zip(grp, V.eval_answers(out)):
            compare_oaw(cases[k], impls[k], parse_ans(a), dis)
            fs = oaw_features(cases[k], impls[k])
            for f in fs:
                feats[f] = feats.get(f, 0) + 1
            if impls[k]['kind'] == 0 and len(impls[k]['hx']) > 3:
                distinct.add(tuple(sorted(set(fs))) + (len(impls[k]['hx']),))
    cmh = {}
    for k in range(0, n_cm, per_cm):
        rc, out = res[f"c16_cm_{k // per_cm}"]
        if rc != 0:
            dis.append({'what': 'construct_mesh model does not evaluate', 'log': out[-1500:]})
            continue
        answers = V.eval_answers(out)
        for c, im, a, ai in zip(cmc[k:k + per_cm], cmi[k:k + per_cm], answers[0::2], answers[1::2]):
            compare_cm(c, im, parse_ans(a), dis, inputs=parse_ans(ai))
            if c.get('onedir'):
                cmh['onedir/' + c['onedir']] = cmh.get('onedir/' + c['onedir'], 0) + 1
            if c.get('marine'):
                mk = 'marine/' + c['marine'] + ('/warn' if 2 in im['warns'] else '')
                cmh[mk] = cmh.get(mk, 0) + 1
            key = 'kind%d/props%d' % (im['kind'], 0 if c['scalar_props'] else len(c['properties']))
            cmh[key] = cmh.get(key, 0) + 1
            for nm in ('domain', 'vector', 'distance', 'stretching', 'limits', 'pps', 'coe'):
                kk = f"{nm}:{c[nm][0]}"
                cmh[kk] = cmh.get(kk, 0) + 1
            if im['kind'] == 0:
                distinct.add(('cm', key, tuple(len(h) for h in im['h']),
                              tuple(c[nm][0] for nm in ('domain', 'vector', 'distance', 'stretching',
                                                         'limits', 'pps', 'coe'))))
    hist['origin_and_widths'] = feats
    hist['construct_mesh'] = cmh
    hist['skipped_too_costly_for_Q'] = skipped
    hist['not_compared_sea_reach_tie'] = len(TIE_SKIPS)
    if TIE_SKIPS:
        ctx.notes.append(f"{len(TIE_SKIPS)} result(s) not compared: domain widened to the sea surface and brentq "
                         f"cells (alph != 1) end there only up to rounding, so `edges[1] >= domain[1]` in "
                         f"_stretch is decided by rounding noise")
    total = n_good + n_str + n_sea + n_oaw + n_cm + n_hist
    return {
        'evaluations': total,
        'distinct_nontrivial': len(distinct),
        'rule': "origin_and_widths: random dyadic parameter sets (styles A-D of stretching ranges; domain / "
                "distance / vector-only; vectors reaching beyond the domain; sea surface; Laplace; six maps; "
                "1-3 properties; limits none/scalar/pair; lambda_from_center; unsorted / duplicate cell "
                "lists; raise_error), sets whose search would take too long on exact rationals are skipped "
                "(count reported); construct_mesh: every argument in scalar / pair / ndarray / 3-tuple / "
                "dict form with None entries, properties of length 1,2,3,4,5,7 and scalar; _stretch, "
                "cell_width, good_mg_cell_nr called directly. distinct non-trivial = distinct (feature "
                "set, cell count) of calls that returned a grid with more than 3 cells",
        'samples': [cases[0], cases[1], {k: (v if not isinstance(v, tuple) else str(v))
                                         for k, v in cmc[0].items()}],
        'traces_validated_against_impl': total,
        'histogram': hist,
        'disagreements': dis,
    }


# ------------------------------------------------------------------ searcher
def post_oaw(case, out, warns):
    """The postconditions of the property text on one origin_and_widths result.
    Returns a list of violated clauses (strings)."""
    x0, hx = float(out[0]), np.atleast_1d(np.asarray(out[1], dtype=float))
    bad = []
    c = case['center']
    sds = skin_depths(case)
    sd = [sds[0], sds[min(len(sds) - 1, 1)], sds[min(len(sds) - 1, 2)]]
    s0, s1 = case['stretching']
    if len(hx) not in set(int(x) for x in case['cell_numbers']):
        bad.append(f"number of cells {len(hx)} not in cell_numbers")
    if not np.all(hx > 0):
        bad.append("non-positive width")
        return bad
    nodes = x0 + np.r_[0.0, np.cumsum(hx)]
    vec = None if case['vector'] is None else np.asarray(case['vector'], float)
    if case['domain'] is not None:
        lo, hi = case['domain']
    elif case['distance'] is not None:
        lo, hi = c - abs(case['distance'][0]), c + abs(case['distance'][1])
    else:
        lo, hi = vec.min(), vec.max()
    vlo, vhi = lo, hi                                  # the vector is cut to this
    if case['seasurface'] is not None:
        hi = max(hi, case['seasurface'])
    lam = [case['lambda_factor'] * TWOPI * sd[1], case['lambda_factor'] * TWOPI * sd[2]]
    mb = case['max_buffer']
    if case['lambda_from_center']:
        need_lo = min(lo, max(lo - max(0.0, (2 * lam[0] - abs(lo - c)) / 2), c - mb))
        need_hi = max(hi, min(hi + max(0.0, (2 * lam[1] - abs(hi - c)) / 2), c + mb))
    else:
        need_lo, need_hi = lo - min(lam[0], mb), hi + min(lam[1], mb)
    scale = max(abs(need_lo), abs(need_hi), nodes[-1] - nodes[0], 1.0)
    tol = 1e-9 * scale
    if nodes[0] > need_lo + tol or nodes[-1] < need_hi - tol:
        bad.append(f"mesh [{nodes[0]!r}, {nodes[-1]!r}] does not cover domain+buffer "
                   f"[{need_lo!r}, {need_hi!r}]")
    # growth outside the user vector
    bound = max(1.0, s0, s1) * (1 + 1e-9)
    elo, ehi = (vec.min(), vec.max()) if vec is not None else (np.inf, -np.inf)
    for k in range(len(hx) - 1):
        inside = vec is not None and nodes[k + 2] > elo - tol and nodes[k] < ehi + tol
        if inside:
            continue
        r = max(hx[k + 1] / hx[k], hx[k] / hx[k + 1])
        if r > bound:
            bad.append(f"widths {k},{k+1} grow by {r!r} > max stretching {max(1.0, s0, s1)!r}")
            break
    # centre
    if vec is None and case['seasurface'] is None:
        if case['center_on_edge'] in (None, True):
            if np.min(np.abs(nodes - c)) > tol:
                bad.append("centre is not a node although center_on_edge")
        else:
            mid = (nodes[:-1] + nodes[1:]) / 2
            if np.min(np.abs(mid - c)) > tol:
                bad.append("centre is not a cell centre although center_on_edge=False")
    # vector nodes inside the domain
    if vec is not None:
        ins = vec[(vec >= vlo) & (vec <= vhi)]
        if len(ins) >= 3 and np.all(np.diff(vec) > 0):
            miss = [float(v) for v in ins if np.min(np.abs(nodes - v)) > tol]
            if miss:
                bad.append(f"vector nodes {miss[:3]} inside the domain are not mesh nodes")
    if case['seasurface'] is not None and 2 not in warns:
        if np.min(np.abs(nodes - case['seasurface'])) > 1e-7 + tol:
            bad.append("sea surface is not a node and no warning was raised")
    return bad


def check_oaw_case(case):
    from emg3d import meshes
    vec = None if case['vector'] is None else np.array(case['vector'], dtype=float)
    dom = None if case['domain'] is None else list(case['domain'])
    with warnings.catch_warnings(record=True) as ws:
        warnings.simplefilter('always')
        try:
            out = meshes.origin_and_widths(case['frequency'], list(case['properties']), case['center'],
                                           dom, vec, case['seasurface'], **oaw_kwargs(case))
        except (ValueError, RuntimeError):
            return []                                    # failed loudly
    if out[0] is None:
        return [] if not case['raise_error'] else ["returned None's although raise_error=True"]
    return post_oaw(case, out, warn_codes(ws))


# ---------------------------------------- construct_mesh: postconditions per direction
def doc_dirs(v, kw):
    """Expand an argument to (x, y, z) the way the construct_mesh docstring
    describes (independent of the model): dict / 3-sequence per direction with
    None = not given, anything else for all directions."""
    if v[0] == 'dict':
        return [v[1], v[2], v[3]]
    if v[0] == 'seq' and len(v[1]) == 3:
        return list(v[1])
    return [v, v, v]


def doc_props(props):
    p = list(props)
    if len(p) == 3:
        return [p[0], p[2], p[2]], [p[0], p[2], p[2]], [p[0], p[1], p[2]]
    if len(p) == 4:
        return [p[0], p[1], p[1]], [p[0], p[1], p[1]], [p[0], p[2], p[3]]
    if len(p) == 7:
        return [p[0], p[1], p[2]], [p[0], p[3], p[4]], [p[0], p[5], p[6]]
    return p, p, p


def cm_dir_cases(case):
    """Three origin_and_widths-style parameter dicts, one per direction."""
    pr = doc_props(case['properties'])
    exp = {k: doc_dirs(case[k], k) for k in ('domain', 'vector', 'distance', 'stretching', 'limits',
                                              'pps', 'coe')}
    out = []
    for d in range(3):
        pv = lambda k: val_py(exp[k][d])
        dom, vec, dist, st, lim, pps, coe = (pv(k) for k in ('domain', 'vector', 'distance', 'stretching',
                                                             'limits', 'pps', 'coe'))
        out.append(dict(frequency=case['frequency'], mapping=case['mapping'], properties=pr[d],
                        center=case['center'][d],
                        domain=None if dom is None else [float(x) for x in dom],
                        distance=None if dist is None else [float(x) for x in dist],
                        vector=None if vec is None else [float(x) for x in vec],
                        seasurface=case['seasurface'] if d == 2 else None,
                        stretching=[1.0, 1.5] if st is None else [float(x) for x in st],
                        limits=lim if lim is None or isinstance(lim, float) else [float(x) for x in lim],
                        pps=3.0 if pps is None else float(pps),
                        lambda_factor=case['lambda_factor'], max_buffer=case['max_buffer'],
                        lambda_from_center=case['lambda_from_center'],
                        cell_numbers=case['cell_numbers'], center_on_edge=coe, raise_error=False))
    return out


def post_min_width(dc, hx):
    """A fixed minimum width (scalar limit, no vector, no sea surface) is the smallest width."""
    lim = dc['limits']
    if dc['vector'] is None and dc['seasurface'] is None and isinstance(lim, float):
        if abs(float(np.min(hx)) - lim) > 1e-9 * lim:
            return [f"smallest width {float(np.min(hx))!r} is not the fixed min_width_limits {lim!r}"]
    return []


def check_cm_case(case):
    """Postconditions of every direction of one construct_mesh call."""
    import emg3d
    kw = dict(lambda_factor=case['lambda_factor'], max_buffer=case['max_buffer'],
              lambda_from_center=case['lambda_from_center'], mapping=case['mapping'],
              cell_numbers=list(case['cell_numbers']))
    for name, key in (('distance', 'distance'), ('stretching', 'stretching'),
                      ('min_width_limits', 'limits'), ('min_width_pps', 'pps'),
                      ('center_on_edge', 'coe')):
        if case[key] != NONE:
            kw[name] = val_py(case[key])
    props = case['properties'][0] if case['scalar_props'] else list(case['properties'])
    with warnings.catch_warnings(record=True) as ws:
        warnings.simplefilter('always')
        try:
            m = emg3d.construct_mesh(case['frequency'], props, tuple(case['center']),
                                     val_py(case['domain']), val_py(case['vector']),
                                     case['seasurface'], **kw)
        except (ValueError, RuntimeError):
            return []                                    # failed loudly
    wc = warn_codes(ws)
    bad = []
    for d, dc in enumerate(cm_dir_cases(case)):
        if dc['domain'] is None and dc['distance'] is None and dc['vector'] is None:
            continue
        b = post_oaw(dc, (m.origin[d], m.h[d]), wc) + post_min_width(dc, np.asarray(m.h[d]))
        bad += [f"direction {'xyz'[d]}: {x}" for x in b]
    return bad


def _jsonable_cm(case):
    return {k: (list(v) if isinstance(v, tuple) else v) for k, v in case.items()}


def cm_from_json(case):
    """Val tuples back from their JSON (list) form."""
    def val(v):
        if isinstance(v, (list, tuple)) and v and isinstance(v[0], str):
            t = v[0]
            if t == 'seq':
                return ('seq', [val(x) for x in v[1]], v[2])
            if t == 'dict':
                return ('dict', val(v[1]), val(v[2]), val(v[3]))
            if t == 'arr':
                return ('arr', [float(x) for x in v[1]])
            return tuple(v)
        return v
    c = dict(case)
    for k in ('domain', 'vector', 'distance', 'stretching', 'limits', 'pps', 'coe'):
        c[k] = val(c[k])
    return c


def perturb(rng, case):
    """Leave the dyadic lattice: generic floats for the searcher."""
    c = dict(case)
    f = lambda x: float(x) * (1 + rng.uniform(-0.2, 0.2))
    c['frequency'] = f(c['frequency'])
    c['properties'] = [f(p) if c['mapping'] in ('Resistivity', 'Conductivity') else p + rng.uniform(-.3, .3)
                       for p in c['properties']]
    if c['domain'] is not None:
        c['domain'] = [c['domain'][0] - rng.uniform(0, 50), c['domain'][1] + rng.uniform(0, 50)]
    if c['seasurface'] is not None:
        c['seasurface'] = c['seasurface'] + rng.uniform(0, 30)
    c['stretching'] = [c['stretching'][0] + rng.choice([0, 0, rng.uniform(0, 0.1)]),
                       max(c['stretching']) + rng.uniform(0, 0.4)]
    c['lambda_factor'] = rng.choice([1.0, f(c['lambda_factor']), 0.5])
    if rng.random() < 0.5:
        c['cell_numbers'] = [16, 24, 32, 40, 48, 64, 80, 96, 128]
    return c


# ------------------------------- Round 7 searcher: histories, independent oracle
def _snap(x):
    """Deep, comparable snapshot of an argument value (arrays -> tuples)."""
    if isinstance(x, np.ndarray):
        return ('nd', x.dtype.str, x.shape, tuple(x.ravel().tolist()))
    if isinstance(x, dict):
        return ('dict', tuple((k, _snap(v)) for k, v in x.items()))
    if isinstance(x, (list, tuple)):
        return (type(x).__name__, tuple(_snap(v) for v in x))
    return x


def call_cm_checked(case):
    """construct_mesh on one case (cells_default: no cell_numbers argument, the
    oracle uses the documented rule).  Returns (violations, summary)."""
    import emg3d
    kw = dict(lambda_factor=case['lambda_factor'], max_buffer=case['max_buffer'],
              lambda_from_center=case['lambda_from_center'], mapping=case['mapping'])
    if not case.get('cells_default'):
        kw['cell_numbers'] = np.array(case['cell_numbers'], dtype=np.int64)
    for name, key in (('distance', 'distance'), ('stretching', 'stretching'),
                      ('min_width_limits', 'limits'), ('min_width_pps', 'pps'),
                      ('center_on_edge', 'coe')):
        if case[key] != NONE:
            kw[name] = val_py(case[key])
    props = case['properties'][0] if case['scalar_props'] else list(case['properties'])
    args = [case['frequency'], props, tuple(case['center']), val_py(case['domain']), val_py(case['vector']),
            case['seasurface']]
    before = (_snap(args), _snap(kw))
    with warnings.catch_warnings(record=True) as ws:
        warnings.simplefilter('always')
        try:
            m = emg3d.construct_mesh(*args, **kw)
        except (ValueError, RuntimeError) as e:
            return [], ('error', type(e).__name__), None
    bad = []
    if (_snap(args), _snap(kw)) != before:
        bad.append("construct_mesh modified an argument (array / dict / list) handed to it")
    wc = warn_codes(ws)
    oc = dict(case)
    if case.get('cells_default'):
        oc['cell_numbers'] = doc_good_numbers()
    for d, dc in enumerate(cm_dir_cases(oc)):
        if dc['domain'] is None and dc['distance'] is None and dc['vector'] is None:
            continue
        b = post_oaw(dc, (m.origin[d], m.h[d]), wc) + post_min_width(dc, np.asarray(m.h[d]))
        bad += [f"direction {'xyz'[d]}: {x}" for x in b]
    summ = ('mesh', tuple(len(h) for h in m.h), tuple(float(x) for x in m.origin),
            tuple(tuple(float(x) for x in h) for h in m.h))
    return bad, summ, m


def call_oaw_checked(case):
    from emg3d import meshes
    vec = None if case['vector'] is None else np.array(case['vector'], dtype=float)
    dom = None if case['domain'] is None else list(case['domain'])
    kw = oaw_kwargs(case)
    oc = dict(case)
    if case.get('cells_default'):
        del kw['cell_numbers']
        oc['cell_numbers'] = doc_good_numbers()
    else:
        kw['cell_numbers'] = np.array(case['cell_numbers'], dtype=np.int64)
    if case.get('default_stretching'):
        del kw['stretching']
    args = [case['frequency'], list(case['properties']), case['center'], dom, vec, case['seasurface']]
    before = (_snap(args), _snap(kw))
    with warnings.catch_warnings(record=True) as ws:
        warnings.simplefilter('always')
        try:
            out = meshes.origin_and_widths(*args, **kw)
        except (ValueError, RuntimeError) as e:
            return [], ('error', type(e).__name__), None
    bad = []
    if (_snap(args), _snap(kw)) != before:
        bad.append("origin_and_widths modified an argument (array / list) handed to it")
    if out[0] is None:
        return bad + ([] if not case['raise_error'] else ["returned None's although raise_error=True"]), ('none',), None
    bad += post_oaw(oc, out, warn_codes(ws))
    return bad, ('grid', float(out[0]), tuple(float(x) for x in np.atleast_1d(out[1]))), out


def exec_search_history(h):
    """Run one searcher history on the REAL implementation (this process):
    requests, helper calls whose returned arrays are edited in place, the same
    requests again.  Returns (violations, textual steps)."""
    import emg3d
    from emg3d import meshes
    bad, txt = [], []
    cm, oc = h['cm'], h['oaw']
    txt.append("m1 = " + hist_step_text({'op': 'cm', 'case': cm, 'cells': ['default']}))
    b1, s1, m1 = call_cm_checked(cm)
    bad += [f"first construct_mesh: {x}" for x in b1]
    txt.append("o1 = " + hist_step_text({'op': 'oaw', 'case': oc, 'cells': ['default'], 'vec': ['given']}))
    b2, s2, o1 = call_oaw_checked(oc)
    bad += [f"first origin_and_widths: {x}" for x in b2]
    g1 = gs = None
    if h.get('gopts'):
        try:
            grid = emg3d.TensorMesh([np.ones(8) * 100.0] * 3, origin=(-400.0, -400.0, -800.0))
            model = emg3d.Model(grid, 1.0)
            survey = emg3d.surveys.Survey(sources=emg3d.TxElectricDipole((0, 0, -300, 0, 0)),
                                          receivers=emg3d.RxElectricPoint((200, 0, -300, 0, 0)), frequencies=1.0)
            with warnings.catch_warnings():
                warnings.simplefilter('ignore')
                g1 = meshes.estimate_gridding_opts({}, model, survey)
            gs = _snap(g1)
            txt.append("g1 = meshes.estimate_gridding_opts({}, model, survey)   # 8x8x8 cells of 100 m, 1 Ohm.m")
        except Exception as e:
            txt.append(f"(estimate_gridding_opts not usable here: {e!r})")
            g1 = None
    for k, mu in enumerate(h['mut']):
        kind, e = mu[0], mu[-1]
        try:
            if kind == 'good':
                arr = call_good(mu[1], mu[2])
                txt.append(f"t{k} = " + good_text(mu[1], mu[2]))
            elif kind == 'skin_depth':
                arr = meshes.skin_depth(cm['frequency'], np.array([1.0, 0.5, 2.0]))
                txt.append(f"t{k} = meshes.skin_depth({cm['frequency']}, np.array([1.0, 0.5, 2.0]))")
            elif kind == 'wavelength':
                arr = meshes.wavelength(np.array([100.0, 200.0, 300.0]))
                txt.append(f"t{k} = meshes.wavelength(np.array([100., 200., 300.]))")
            elif kind == 'cell_width':
                arr = meshes.cell_width(np.array([100.0, 200.0, 300.0]), 3, None)
                txt.append(f"t{k} = meshes.cell_width(np.array([100., 200., 300.]), 3, None)")
            elif kind == 'mesh_h':
                arr = None if m1 is None else m1.h[mu[1]]
                txt.append(f"t{k} = m1.h[{mu[1]}]")
            elif kind == 'mesh_origin':
                arr = None if m1 is None else m1.origin
                txt.append(f"t{k} = m1.origin")
            elif kind == 'oaw_hx':
                arr = None if o1 is None else o1[1]
                txt.append(f"t{k} = o1[1]")
            elif kind == 'gopts':
                arr = None
                if g1 is not None:
                    arr = [v for v in list(g1.get('domain', {}).values()) + [g1.get('center')]
                           if isinstance(v, np.ndarray)]
                    arr = arr[0] if arr else None
                txt.append(f"t{k} = first ndarray among g1['domain'].values(), g1['center']")
            else:
                continue
            if isinstance(arr, np.ndarray) and arr.ndim >= 1 and arr.size and arr.flags.writeable:
                apply_edit(arr, e)
                txt.append('    ' + hist_step_text({'op': 'edit', 'h': 0, 'edit': e}).replace('a0', f't{k}'))
            else:
                txt.append(f"    (t{k} is not a writeable ndarray: nothing to edit)")
        except Exception as ex:
            txt.append(f"    (step raised {ex!r})")
    txt.append("m2 = the same construct_mesh request as m1")
    b3, s3, _ = call_cm_checked(cm)
    bad += [f"construct_mesh after the edits: {x}" for x in b3]
    if s1 != s3:
        bad.append(f"identical construct_mesh requests returned different results in one session: "
                   f"{s1[1]} before, {s3[1]} after in-place edits of returned arrays")
    txt.append("o2 = the same origin_and_widths request as o1")
    b4, s4, _ = call_oaw_checked(oc)
    bad += [f"origin_and_widths after the edits: {x}" for x in b4]
    if s2 != s4:
        bad.append(f"identical origin_and_widths requests returned different results in one session: "
                   f"{len(s2[2]) if s2[0] == 'grid' else s2} cells before, "
                   f"{len(s4[2]) if s4[0] == 'grid' else s4} after in-place edits of returned arrays")
    if g1 is not None:
        try:
            with warnings.catch_warnings():
                warnings.simplefilter('ignore')
                g2 = meshes.estimate_gridding_opts({}, model, survey)
            txt.append("g2 = meshes.estimate_gridding_opts({}, model, survey)")
            if _snap(g2) != gs:
                bad.append("identical estimate_gridding_opts requests returned different options in one session")
            user = {'center_on_edge': False, 'stretching': [1.0, 1.3], 'min_width_limits': [50.0, 200.0]}
            us = _snap(user)
            shapes = []
            for _ in range(2):
                with warnings.catch_warnings():
                    warnings.simplefilter('ignore')
                    sim = emg3d.Simulation(survey, model, gridding='single', gridding_opts=user)
                    shapes.append(tuple(int(x) for x in sim.get_grid('TxED-1', 'f-1').shape_cells))
            txt.append(f"emg3d.Simulation(survey, model, gridding='single', gridding_opts={user}) twice: {shapes}")
            if _snap(user) != us:
                bad.append("Simulation modified the gridding_opts dict handed to it")
            if shapes[0] != shapes[1]:
                bad.append(f"identical Simulation gridding requests gave different grids: {shapes}")
            good = set(doc_good_numbers())
            if any(n not in good for n in shapes[1]):
                bad.append(f"Simulation single grid {shapes[1]} has a cell count that is not p*2^n (p in 2,3,5; n>=3)")
        except Exception as ex:
            txt.append(f"(Simulation / estimate_gridding_opts step raised {ex!r})")
    return bad, txt


def gen_search_history(rng, k):
    freq = rng.choice([0.5, 1.0, 2.0, 4.0])
    mapping = rng.choice(MAPS)
    if k % 3 == 0:
        cm = hist_cm_case(rng, freq, mapping)
    elif k % 3 == 1:
        cm = gen_cm_onedir(rng, natural=True)
    else:
        cm = gen_cm_marine(rng, natural=True)
    cm = dict(_jsonable_cm(cm), cells_default=True, cell_numbers=[])
    oc = dict(hist_oaw_case(rng, freq, mapping), cells_default=True)
    e = EDIT_KINDS[k % len(EDIT_KINDS)]
    mut = [['good', [1024, 5, 3], 'noargs', e],
           ['good', [1024, 5, 3], rng.choice(['pos', 'kw', 'mixed']), rng.choice(EDIT_KINDS)],
           ['good', rng.choice([[5000, 5, 3], [1024, 3, 2], [50000, 5, 0], [1024, 7, 3]]),
            rng.choice(['pos', 'kw', 'mixed']), rng.choice(EDIT_KINDS)],
           ['skin_depth', ['fill', 0]], ['wavelength', ['add', 1]], ['cell_width', ['mul', 2]],
           ['mesh_h', rng.randint(0, 2), rng.choice([['mul', 2], ['fill', 0], ['add', 1]])],
           ['mesh_origin', ['add', 1]], ['oaw_hx', ['mul', 2]], ['gopts', ['add', 1]]]
    rng.shuffle(mut)
    return {'cm': cm, 'oaw': oc, 'mut': mut, 'gopts': k % 2 == 0}


def search_history(ctx, n):
    for k in range(n):
        h = gen_search_history(ctx.rng, k)
        try:
            bad, txt = exec_search_history(dict(h, cm=cm_from_json(h['cm'])))
        except Exception as e:
            ctx.notes.append(f"searcher: exception {e!r} in a history")
            continue
        if bad:
            key = 'identical' if any('identical' in b for b in bad) else bad[0]
            sig = ('history: identical requests give different meshes after in-place edit of a returned array'
                   if key == 'identical' else 'history: ' + bad[0].split(' [')[0][:70])
            return [{'signature': sig, 'fn': 'history', 'history': h, 'steps': txt, 'violated': bad}]
    ctx.notes.append(f"searcher: {n} histories in one process (requests, helper calls with in-place edits of every "
                     f"returned array, the same requests again; permitted cell numbers from the documented rule)")
    return []


def search(ctx, broken):
    rng = ctx.rng
    hits = []
    # the property itself on the cases the correspondence disagreed on
    for b in broken or []:
        d = b.get('detail')
        if isinstance(d, dict) and isinstance(d.get('case'), dict) and 'cell_numbers' in d['case'] \
                and 'style' in d['case']:
            bad = check_oaw_case(d['case'])
            if bad:
                hits.append({'signature': 'origin_and_widths: ' + bad[0].split(' [')[0][:60],
                             'fn': 'origin_and_widths', 'case': d['case'], 'violated': bad})
                return hits
    for b in broken or []:
        d = b.get('detail')
        if isinstance(d, dict) and isinstance(d.get('case'), dict) and 'scalar_props' in d['case']:
            bad = check_cm_case(d['case'])
            if bad:
                hits.append({'signature': 'construct_mesh: ' + bad[0].split(' [')[0][:70],
                             'fn': 'construct_mesh', 'case': _jsonable_cm(d['case']), 'violated': bad})
                return hits
    n_hist = 20 if ctx.thorough else 6
    hist_broke = any(str(b.get('obligation', '')).startswith(('history', 'anchor')) for b in broken or [])
    if hist_broke:
        hits = search_history(ctx, n_hist)
        if hits:
            return hits
    # construct_mesh: one option in one direction only (x/y agree otherwise), and the general stream
    n_cm = 300 if ctx.thorough else 120
    for k in range(n_cm):
        if k % 3 == 1:
            case = gen_cm_marine(rng, natural=(k % 2 == 0))
        else:
            case = gen_cm_onedir(rng, natural=(k % 3 != 0)) if k % 4 != 3 else gen_cm(rng)
        try:
            bad = check_cm_case(case)
        except Exception as e:
            ctx.notes.append(f"searcher: exception {e!r} on a generated construct_mesh case")
            continue
        if bad:
            hits.append({'signature': 'construct_mesh: ' + bad[0].split(' [')[0][:70],
                         'fn': 'construct_mesh', 'case': _jsonable_cm(case), 'violated': bad})
            return hits
    ctx.notes.append(f"searcher: per-direction postconditions evaluated on {n_cm} construct_mesh calls "
                     f"(1/3 marine: sea surface + z-vector, domain below/at/above the sea surface; about half with one "
                     f"option given for one direction only)")
    n = 600 if ctx.thorough else 250
    tried = returned = 0
    for k in range(n):
        case = gen_oaw(rng)
        if k % 2:
            case = perturb(rng, case)
        tried += 1
        try:
            bad = check_oaw_case(case)
        except Exception as e:                 # malformed stream is not the property's business
            ctx.notes.append(f"searcher: exception {e!r} on a generated case")
            continue
        returned += 1
        if bad:
            hits.append({'signature': 'origin_and_widths: ' + bad[0].split(' [')[0][:60],
                         'fn': 'origin_and_widths', 'case': case, 'violated': bad})
            break
    ctx.notes.append(f"searcher: postconditions evaluated on {tried} origin_and_widths parameter sets "
                     f"(half of them non-dyadic)")
    if not hits and not hist_broke:
        hits = search_history(ctx, n_hist)
    return hits


def replay(ctx, payload):
    fi = payload.get('failing_input')
    if not fi or ('case' not in fi and 'history' not in fi):
        return False
    if fi.get('fn') == 'history':
        h = fi['history']
        return not exec_search_history(dict(h, cm=cm_from_json(h['cm'])))[0]
    if fi.get('fn') == 'construct_mesh':
        return not check_cm_case(cm_from_json(fi['case']))
    return not check_oaw_case(fi['case'])
