"""C13 -- misfit and data weights follow the documented noise model and stay
untouched.

Theorems: coq/Props/C13.v about the hand model coq/Model/SurveyMachine.v
(proofs in coq/Proofs/SurveyMachine.v).  The model describes the REPAIRED
add_noise (`min_amplitude = self.noise_floor / 2.0`); the unrepaired in-place
halving is kept as `inplace = true` and refuted (`settings_frame_refuted`).

Tie: every run generates operation histories (setters, add_noise, select,
copy, to_dict/from_dict, save/load) on random small surveys, executes them on
real emg3d.Survey objects and on the Coq model (exact rationals, vm_compute)
and compares, after EVERY operation, all data cubes, the noise settings by
value, the raw storage, the alias structure of all arrays, and at the end the
standard deviation and Simulation.misfit.  The realised noise is recovered as
(data after - data before) and handed to the model as its oracle.

Searcher: independent of the Coq model; evaluates the property itself with
numpy on the implementation (settings snapshots around every non-setter
operation, documented std formula, misfit formula and its permutation
invariance, selected sub-cube).
"""
import copy as _copy
import fractions
import itertools
import math
import os
import re
import shutil
import tempfile
import types
import warnings

import numpy as np

from vlib import core as V
from vlib import kernels as K

ID = 'C13'
LEVEL_TEXT = ("Theorems (Props/C13.v, 51, all closed under the global context) about a hand model of Survey "
              "with explicit array references (two heaps, surveys hold indices; sharing and in-place updates "
              "are modelled). For ALL operation histories (add_noise with any parameters and any noise, "
              "select, copy, to_dict/from_dict, save/load, setters on other surveys) noise floor, relative "
              "error and explicit std of every existing survey are unchanged, and the reference / key "
              "invariants hold in every reachable state. std^2 = nf^2 + (re|d|)^2 for scalar and broadcast "
              "arrays, explicit std wins, None when unset; misfit = 1/2 sum over finite data of "
              "|syn-obs|^2/std^2, invariant under every permutation of sources, receivers, frequencies. "
              "select: the new survey is the restriction BY LABEL of the original (observed, every named "
              "data set, noise-floor / relative-error arrays, explicit std agree on every (source, receiver, "
              "frequency) name triple) to the requested names in the requested order, for every order; "
              "repeated or unknown names are rejected and change nothing; remove_empty removes exactly the "
              "names without a finite chosen datum; select o select = direct select. add_noise: complete "
              "equation for every entry of the written array (cut -> NaN, no std -> unchanged, NaN std -> "
              "NaN, else old + noise) and every other data array untouched. All shapes, layouts, unbounded. "
              "Round 6 (Model/SurveyFinite.v): the state also holds the MEMOISED finite mask of every survey "
              "(Survey.isfinite / finite_data()), histories also contain read-only queries (isfinite, "
              "finite_data, size, count, misfit), `data.observed[...] = array` and compute(observed=True). "
              "For ALL such histories: a query changes nothing in the survey machine, no other operation "
              "reads or writes the memo, the state reached equals the one reached with all queries erased "
              "from any memo; the misfit is a function of the CURRENT observed / synthetic / std^2 arrays "
              "only and equals the half sum over the mask recomputed from the current observed data; it "
              "does not consult the memo (the memo is provably NOT always the current mask, and a misfit "
              "summed through it differs: misfit_through_memo_refuted); settings frame and invariants "
              "extended to the new operations.")
LEVEL_NOTE = ("The model is hand-written; it is tied to the source by a differential correspondence on "
              "generated histories (state compared after every operation, by label and positionally, exact "
              "rational equality for stored values, alias structure via np.shares_memory) including an "
              "exhaustive stream of ordered name sub-lists. RNG is an oracle (noise recovered from the run); "
              "the square root is avoided (theorems on std^2; for every m with m^2=|d|^2). IEEE rounding of "
              "std/misfit is not modelled (1e-9 relative in the correspondence). Setter inputs are assumed to "
              "be fresh arrays; add_to is 'observed' or a user data set (not '_noise_floor', "
              "'_relative_error', 'standard_deviation'); std = 0 (zero datum with relative error only) is "
              "outside the domain. numpy broadcasting, xarray .sel/.copy and h5py/npz/json storage are "
              "inside the correspondence, not verified. No theorem is partial any more; the composition "
              "'misfit of a re-ordered survey = misfit of the original' is the conjunction of "
              "select_subcube_by_label and misfit_axes_perm_invariant, not one statement. "
              "Simulation.misfit is run as the real property code on a stub whose `data` is survey.data (as "
              "Simulation.data) and whose fields count as computed; 'residual'/'weights' are removed "
              "afterwards as Simulation.clean('computed') does, so the weights/misfit caches of one "
              "Simulation object between two misfit calls are outside the model. That Survey.isfinite / "
              "finite_data() themselves answer with the memoised (possibly stale) mask is modelled as it is "
              "in the code and compared, but is not part of the property text.")
TECHNIQUE = ("Coq proof (induction over operation histories, Permutation, ring/field) about a hand model "
             "+ differential correspondence (vm_compute on Q) against emg3d.Survey / Simulation.misfit")
DESIGN_REF = "DESIGN.md section 6 C13"
GEN = []
PROPS = 'Props/C13.v'
TRUSTED = ["Model/SurveyMachine.v is hand-written: its agreement with emg3d/surveys.py rests on the "
           "per-run correspondence (all states of generated histories), not on a translator",
           "geometry (source-receiver offsets) enters the model as a table computed by the harness "
           "from integer coordinates (relative receivers: |r|, absolute: |r - s|)"]
ASSUMES = ["random_noise draws from an unseeded generator: the realised noise is taken from the run "
           "(after - before, exact rationals) and given to the model as an oracle",
           "inputs of the setters are arrays not shared with survey-internal arrays",
           "no +-inf in the data (NaN is the only non-finite value)",
           "every finite datum has std > 0 (no exactly-zero datum combined with relative error only): "
           "division by zero is not modelled"]

SIG_HALF = 'C13: add_noise halves array noise_floor in place (min_amplitude=half_nf)'
NAMED = {'synthetic': 0, 'noise': 1, 'extra': 2}
NAMED_INV = {v: k for k, v in NAMED.items()}
Fr = fractions.Fraction


# ----------------------------------------------------------------- utilities
def _emg3d():
    import emg3d
    return emg3d


def cplx_to_cell(z):
    z = complex(z)
    if math.isnan(z.real) or math.isnan(z.imag):
        return None
    return (Fr(z.real), Fr(z.imag))


def arr_to_cells(a):
    a = np.asarray(a)
    return [[[cplx_to_cell(a[i, j, k]) for k in range(a.shape[2])]
             for j in range(a.shape[1])] for i in range(a.shape[0])]


def nested_to_arr(n, cplx):
    """nested list (None = NaN, [re, im] or float) -> ndarray"""
    def conv(x):
        if x is None:
            return complex(np.nan, np.nan) if cplx else np.nan
        if cplx:
            return complex(x[0], x[1])
        return float(x)
    return np.array([[[conv(x) for x in r] for r in p] for p in n],
                    dtype=complex if cplx else float)


def coq_cell(c):
    if c is None:
        return "NaN"
    return f"(V {V.q(c[0])} {V.q(c[1])})"


def coq_cube(cells):
    return '[' + '; '.join('[' + '; '.join('[' + '; '.join(coq_cell(c) for c in r) + ']'
                                           for r in p) + ']' for p in cells) + ']'


def coq_zlist(l):
    return '[' + '; '.join(f"({int(x)})%Z" for x in l) + ']'


def coq_optlist(l):
    return 'None' if l is None else f"(Some {coq_zlist(l)})"


# --- parser for the terms printed by Eval vm_compute (lists, tuples, options, Z)
_TOK = re.compile(r'\s*(\[|\]|\(|\)|;|,|Some|None|-?\d+)')


def parse_term(s):
    toks = _TOK.findall(s)
    if ''.join(toks) != re.sub(r'\s+', '', s):
        raise ValueError('unexpected token in Coq answer: ' + s[:200])
    pos = [0]

    def val():
        t = toks[pos[0]]
        pos[0] += 1
        if t == '[':
            out = []
            if toks[pos[0]] == ']':
                pos[0] += 1
                return out
            while True:
                out.append(val())
                t2 = toks[pos[0]]
                pos[0] += 1
                if t2 == ']':
                    return out
                assert t2 == ';', t2
        if t == '(':
            out = [val()]
            while True:
                t2 = toks[pos[0]]
                pos[0] += 1
                if t2 == ')':
                    return out[0] if len(out) == 1 else tuple(out)
                assert t2 == ',', t2
                out.append(val())
        if t == 'Some':
            return ('S', val())
        if t == 'None':
            return None
        return int(t)
    r = val()
    assert pos[0] == len(toks)
    return r


def m_cell(x):
    """dumped cell -> (Fraction, Fraction) or None"""
    if x is None:
        return None
    # Coq prints ((an, ad), (bn, bd)) as (an, ad, (bn, bd))
    an, ad, (bn, bd) = x[1]
    return (Fr(an, ad), Fr(bn, bd))


def m_cube(c):
    return [[[m_cell(x) for x in r] for r in p] for p in c]


def m_sval(v):
    tag, ql, cube = v
    if tag == 0:
        return ('none',)
    if tag == 1:
        return ('scalar', Fr(ql[0][0], ql[0][1]))
    return ('cube', m_cube(cube))


def m_survey(t):
    # left-nested pairs are printed flat by Coq: a tuple in FIRST position loses its parentheses
    src, rec, frq, (oref, ocube), named, x6, x7 = t
    nft, nfq, nfcube, rev, stdv = x6
    nfv = (nft, nfq, nfcube)
    nfr, nfc, (rer, rec_c), stdr = x7
    d = {
        'src': list(src), 'rec': list(rec), 'frq': list(frq),
        'obs': m_cube(ocube),
        'named': {int(n): m_cube(c) for (n, r, c) in named},
        'nf': m_sval(nfv), 're': m_sval(rev),
        'std': None if stdv is None else m_cube(stdv[1]),
        'nf_arr': None if nfr < 0 else m_cube(nfc),
        're_arr': None if rer < 0 else m_cube(rec_c),
    }
    refs = [('d', oref)] + [('d', r) for (n, r, c) in sorted(named)]
    refs += [('s', nfr), ('s', rer), ('s', stdr)]
    d['_refs'] = refs
    d['_named_order'] = [int(n) for (n, r, c) in sorted(named)]
    return d


def alias_labels_model(svs):
    """canonical alias structure: for every array slot the first slot (in
    enumeration order) that holds the same reference."""
    first, labels = {}, []
    for si, sv in enumerate(svs):
        slots = (['obs'] + [f'named{n}' for n in sv['_named_order']] + ['nf_arr', 're_arr', 'std'])
        for slot, ref in zip(slots, sv['_refs']):
            if ref[1] < 0:
                continue
            me = (si, slot)
            labels.append((me, first.setdefault(ref, me)))
    return labels


# ------------------------------------------------------------ implementation
QUERIES = ('isfinite', 'finite_data', 'size', 'count', 'misfit')
QUERY_COQ = {'isfinite': 'QIsFinite', 'finite_data': 'QFiniteData', 'size': 'QSize',
             'count': 'QCount', 'misfit': 'QMisfit'}


class _SimStub:
    """What Simulation.misfit / Simulation.compute need from a Simulation.  As in
    the real class, `data` IS `survey.data` (Simulation.data is a shortcut
    property), so whatever the code reads through `self.survey` (finite_data(),
    isfinite, standard_deviation, ...) and through `self.data` is the same
    data set; the fields are taken as computed."""
    layered = False

    def __init__(self, survey):
        self.survey = survey
        self._misfit = None
        self._computed = True

    @property
    def data(self):
        return self.survey.data

    def _compute(self, *a, **k):     # the solver runs are not part of C13
        return None

    def compute(self, *a, **k):
        return None


def impl_misfit(sv):
    """Simulation.misfit (the real property code) of a fresh simulation on survey
    `sv`; afterwards 'residual'/'weights' are removed from the data set, as
    Simulation.clean('computed') does."""
    emg3d = _emg3d()
    stub = _SimStub(sv)
    try:
        with warnings.catch_warnings():
            warnings.simplefilter('ignore')
            return float(emg3d.Simulation.misfit.fget(stub))
    finally:
        for key in ('residual', 'weights'):
            if key in sv.data.keys():
                del sv.data[key]


def impl_misfit_enum(sv):
    try:
        return impl_misfit(sv)
    except ValueError:
        return 'ValueError'
    except Exception as e:       # noqa: BLE001 - reported as a disagreement, never a harness crash
        return 'Error:' + type(e).__name__


def mask_to_nested(m):
    m = np.asarray(m)
    return [[[int(bool(x)) for x in r] for r in p] for p in m.tolist()]


class Impl:
    """Runs operations on real emg3d.Survey objects and dumps their state."""

    def __init__(self, case):
        emg3d = _emg3d()
        self.case = case
        self.tmp = None
        ns, nr, nq = case['shape']
        self.src_names = [f'TxED-{i + 1}' for i in range(ns)]
        rtypes = case.get('rec_type') or ['E'] * nr
        self.rec_names = [f"Rx{t}P-{j + 1}" for j, t in enumerate(rtypes)]
        self.frq_names = [f'f-{k + 1}' for k in range(nq)]
        src = [emg3d.TxElectricDipole((*map(float, xyz), 0.0, 0.0)) for xyz in case['src_xyz']]
        rec = [(emg3d.RxMagneticPoint if t == 'M' else emg3d.RxElectricPoint)(
                   (*map(float, xyz), 0.0, 0.0), relative=bool(rel))
               for xyz, rel, t in zip(case['rec_xyz'], case['rec_rel'], rtypes)]
        self.inputs = []        # (array handed to the survey, pristine copy)
        obs = nested_to_arr(case['observed'], True)
        syn = nested_to_arr(case['synthetic'], True)
        kw = {}
        self.ctor_ops = 0
        for o in case['ops']:
            if o.get('ctor'):
                key = 'noise_floor' if o['op'] == 'set_nf' else 'relative_error'
                kw[key] = self._val(o['val'])
                self.ctor_ops += 1
            else:
                break
        freqs = [float(f) for f in case['freqs']]
        try:
            self.surveys = [emg3d.Survey(src, rec, freqs,
                                         data={'observed': obs, 'synthetic': syn}, **kw)]
        except Exception:      # noqa: BLE001 - constructor rejects a value: apply them as setters
            for o in case['ops']:
                o.pop('ctor', None)
            self.ctor_ops = 0
            self.inputs = []
            self.surveys = [emg3d.Survey(src, rec, freqs,
                                         data={'observed': nested_to_arr(case['observed'], True),
                                               'synthetic': nested_to_arr(case['synthetic'], True)})]

    def _val(self, v):
        if v is None or isinstance(v, (int, float)):
            return v
        a = np.array(v['arr'], dtype=float)
        self.inputs.append((a, a.copy()))
        return a

    def key_id(self, name):
        return int(name.split('-')[1])

    def names(self, axis, ids):
        if ids is None:
            return None
        return [self.name_of(axis, i) for i in ids]

    def name_of(self, axis, i):
        if axis == 'receivers':
            if 1 <= i <= len(self.rec_names):
                return self.rec_names[i - 1]
            return 'RxEP-' + str(i)
        return {'sources': 'TxED-', 'frequencies': 'f-'}[axis] + str(i)

    # ---- operations
    def apply(self, o):
        """returns (outcome, extra) ; outcome = ('ok',) | ('err', ExcName) | ('noise',)"""
        emg3d = _emg3d()
        try:
            s = self.surveys[o['s']]
        except IndexError:
            return ('err', 'NoSurvey'), None
        kind = o['op']
        try:
            with warnings.catch_warnings():
                warnings.simplefilter('ignore')
                if kind == 'set_nf':
                    s.noise_floor = self._val(o['val'])
                elif kind == 'set_re':
                    s.relative_error = self._val(o['val'])
                elif kind == 'set_std':
                    v = o['val']
                    if v is None:
                        s.standard_deviation = None
                    else:
                        a = np.array(v, dtype=float)
                        self.inputs.append((a, a.copy()))
                        s.standard_deviation = a
                elif kind == 'add_noise':
                    return self._add_noise(s, o)
                elif kind == 'select':
                    kw = {}
                    for ax in ('sources', 'receivers', 'frequencies'):
                        n = self.names(ax, o[ax])
                        if n is not None and o.get('as_str') and len(n) == 1:
                            n = n[0]
                        kw[ax] = n
                    if not o.get('default_rm'):
                        kw['remove_empty'] = bool(o['remove_empty'])
                    self.surveys.append(s.select(**kw))
                elif kind == 'dict':
                    k = o['kind']
                    if k == 0:
                        new = emg3d.Survey.from_dict(s.to_dict())
                    elif k == 1:
                        new = s.copy()
                    else:
                        if self.tmp is None:
                            self.tmp = tempfile.mkdtemp(prefix='c13_')
                        fn = os.path.join(self.tmp, 'sv.' + {2: 'h5', 3: 'npz', 4: 'json'}[k])
                        s.to_file(fn, verb=0)
                        new = emg3d.Survey.from_file(fn, verb=0)
                    self.surveys.append(new)
                elif kind == 'query':
                    w = o['what']
                    if w == 'isfinite':
                        return ('query', mask_to_nested(s.isfinite)), None
                    if w == 'finite_data':
                        return ('query', [cplx_to_cell(z) for z in np.asarray(s.finite_data()).ravel()]), None
                    if w == 'size':
                        return ('query', int(s.size)), None
                    if w == 'count':
                        return ('query', int(s.count)), None
                    if w == 'misfit':
                        return ('query', impl_misfit_enum(s)), None
                    raise RuntimeError('unknown query ' + w)
                elif kind == 'set_obs':
                    # explicit new observations, assigned in place
                    s.data.observed[...] = nested_to_arr(o['val'], True)
                elif kind == 'obs_from_syn':
                    # the real Simulation.compute(observed=True, add_noise=False) on a stub
                    # whose solver does nothing: data['observed'] = data['synthetic'].copy()
                    emg3d.Simulation.compute(_SimStub(s), observed=True, add_noise=False)
                else:
                    raise RuntimeError('unknown op ' + kind)
        except Exception as e:       # noqa: BLE001 - mapped to an enum
            return ('err', type(e).__name__), None
        return ('ok',), None

    def _add_noise(self, s, o):
        tgt = o['add_to']
        if tgt in s.data.keys():
            before = s.data[tgt].data.copy()
        else:
            before = np.zeros(s.shape, dtype=complex)
        obs_before = s.data.observed.data.copy()
        kw = {}
        if o['min_offset'] != 0.0 or o.get('explicit_defaults'):
            kw['min_offset'] = float(o['min_offset'])
        if o['max_offset'] is not None:
            kw['max_offset'] = float(o['max_offset'])
        if o['min_amplitude'] != 'half_nf' or o.get('explicit_defaults'):
            kw['min_amplitude'] = o['min_amplitude']
        if tgt != 'observed' or o.get('explicit_defaults'):
            kw['add_to'] = tgt
        if o['ntype'] != 'white_noise' or o.get('explicit_defaults'):
            kw['ntype'] = o['ntype']
        if o['mean_noise'] != 0.0:
            kw['mean_noise'] = float(o['mean_noise'])
        s.add_noise(**kw)
        after = s.data[tgt].data
        noise = [[[None] * after.shape[2] for _ in range(after.shape[1])]
                 for _ in range(after.shape[0])]
        for idx in np.ndindex(after.shape):
            a, b = cplx_to_cell(after[idx]), cplx_to_cell(before[idx])
            i, j, k = idx
            if a is None or b is None:
                noise[i][j][k] = (Fr(0), Fr(0))
            else:
                noise[i][j][k] = (a[0] - b[0], a[1] - b[1])
        return ('noise',), {'noise': noise, 'before': before, 'after': after.copy(),
                            'obs_before': obs_before}

    # ---- state dump (same canonical structure as m_survey)
    def dump(self):
        out, arrays = [], []
        for si, s in enumerate(self.surveys):
            keys = list(s.data.keys())
            d = {
                'src': [self.key_id(k) for k in s.sources.keys()],
                'rec': [self.key_id(k) for k in s.receivers.keys()],
                'frq': [self.key_id(k) for k in s.frequencies.keys()],
                'obs': arr_to_cells(s.data.observed.data),
                'named': {},
            }
            # coordinates of the data set must be the keys of the dicts
            if ([self.key_id(k) for k in s.data.src.values.tolist()] != d['src']
                    or [self.key_id(k) for k in s.data.rec.values.tolist()] != d['rec']
                    or [self.key_id(k) for k in s.data.freq.values.tolist()] != d['frq']):
                d['coords_mismatch'] = True
            arrays.append(((si, 'obs'), s.data.observed.data))
            unknown = []
            for k in sorted((k for k in keys if k in NAMED), key=lambda k: NAMED[k]):
                d['named'][NAMED[k]] = arr_to_cells(s.data[k].data)
                arrays.append(((si, f'named{NAMED[k]}'), s.data[k].data))
            for k in keys:
                if k not in NAMED and k not in ('observed', '_noise_floor', '_relative_error',
                                                'standard_deviation'):
                    unknown.append(k)
            if unknown:
                d['unknown_datasets'] = unknown
            for nm, key in (('nf', 'noise_floor'), ('re', 'relative_error')):
                v = getattr(s, key)
                if v is None:
                    d[nm] = ('none',)
                elif isinstance(v, np.ndarray):
                    d[nm] = ('cube', arr_to_cells(v))
                else:
                    d[nm] = ('scalar', Fr(float(v)))
            d['std'] = (arr_to_cells(s.data['standard_deviation'].data)
                        if 'standard_deviation' in keys else None)
            for nm, key in (('nf_arr', '_noise_floor'), ('re_arr', '_relative_error')):
                if key in keys:
                    d[nm] = arr_to_cells(s.data[key].data)
                    arrays.append(((si, nm), s.data[key].data))
                else:
                    d[nm] = None
            if 'standard_deviation' in keys:
                arrays.append(((si, 'std'), s.data['standard_deviation'].data))
            # every memoised finite mask found on the survey object (any attribute that
            # holds a boolean array of the data shape), not a particular name
            memo = None
            for an, av in sorted(vars(s).items()):
                if isinstance(av, np.ndarray) and av.dtype == bool and av.shape == tuple(s.shape):
                    memo = mask_to_nested(av) if memo is None else memo
            d['memo'] = memo
            out.append(d)
        labels = []
        for n, (me, a) in enumerate(arrays):
            lab = me
            for (other, b) in arrays[:n]:
                if np.shares_memory(a, b):
                    lab = other
                    break
            labels.append((me, lab))
        # transitive first-label
        first = {}
        canon = []
        for me, lab in labels:
            root = first.get(lab, lab)
            first[me] = root
            canon.append((me, root))
        return out, canon

    def final(self):
        """std^2 (float arrays) and misfit of every survey at the end."""
        emg3d = _emg3d()
        res = []
        for s in self.surveys:
            with warnings.catch_warnings():
                warnings.simplefilter('ignore')
                std = s.standard_deviation
                sd2 = None if std is None else np.asarray(std.data, dtype=float) ** 2
                mis = None
                if 'synthetic' in s.data.keys():
                    mis = impl_misfit_enum(s)
            res.append((sd2, mis))
        return res

    def inputs_mutated(self):
        return [i for i, (a, c) in enumerate(self.inputs)
                if not np.array_equal(a, c, equal_nan=True)]

    def close(self):
        if self.tmp:
            shutil.rmtree(self.tmp, ignore_errors=True)


# ---------------------------------------------------------------- generation
def gen_setting(rng, shape, malformed):
    """value for noise_floor / relative_error: None, float or {'arr': nested}"""
    ns, nr, nq = shape
    r = rng.random()
    if malformed and r < 0.5:
        kind = rng.choice(['neg', 'zero', 'badshape', 'negarr'])
        if kind == 'neg':
            return -K.dy_pos(rng), 'bad-scalar'
        if kind == 'zero':
            return 0.0, 'bad-scalar'
        if kind == 'badshape':
            bs = (ns + 1, nr, nq) if rng.random() < 0.5 else (ns, nr + 1, 1)
            return {'arr': [[[K.dy_pos(rng) for _ in range(bs[2])] for _ in range(bs[1])]
                            for _ in range(bs[0])]}, 'bad-shape'
        a = [[[K.dy_pos(rng) for _ in range(nq)] for _ in range(nr)] for _ in range(ns)]
        a[rng.randrange(ns)][rng.randrange(nr)][rng.randrange(nq)] = -1.0
        return {'arr': a}, 'bad-array'
    if r < 0.08:
        return None, 'none'
    if r < 0.3:
        return K.dy_pos(rng), 'scalar'
    layout = rng.choice(['src', 'rec', 'freq', 'full', 'full', 'srcrec', 'one'])
    bs = {'src': (ns, 1, 1), 'rec': (1, nr, 1), 'freq': (1, 1, nq), 'full': (ns, nr, nq),
          'srcrec': (ns, nr, 1), 'one': (1, 1, 1)}[layout]
    if bs[0] * bs[1] * bs[2] == 1:
        layout = 'one'
    return {'arr': [[[K.dy_pos(rng) for _ in range(bs[2])] for _ in range(bs[1])]
                    for _ in range(bs[0])]}, 'arr-' + layout


def gen_case(rng, malformed=False, thorough=False):
    dims = [1, 2, 2, 3, 3] if not thorough else [1, 2, 2, 3, 3, 4]
    shape = [rng.choice(dims) for _ in range(3)]
    if rng.random() < 0.06:
        shape = [1, 1, 1]
    ns, nr, nq = shape
    src_xyz = [[100 * rng.randint(-3, 3), 100 * rng.choice([0, 0, 4]), 0] for _ in range(ns)]
    rec_xyz, rec_rel = [], []
    for j in range(nr):
        rel = rng.random() < 0.3
        rec_xyz.append([100 * rng.randint(-9, 9), 100 * rng.choice([0, 0, 3, 4]),
                        -100 * rng.choice([0, 0, 12])])
        rec_rel.append(rel)
    # receiver types: electric only / magnetic only / mixed in magnetic-first or
    # interleaved order (NOT all-electric-then-all-magnetic) / mixed electric-first
    t = rng.random()
    if nr == 1 or t < 0.25:
        rec_type = [rng.choice('EEM')] * nr
    elif t < 0.55:
        rec_type = ['M'] + [rng.choice('EM') for _ in range(nr - 2)] + ['E']     # magnetic first
    elif t < 0.85:
        rec_type = [('M' if (j + (nr > 2)) % 2 else 'E') for j in range(nr)]     # interleaved
        if rec_type == sorted(rec_type):
            rec_type = rec_type[::-1]
    else:
        k = rng.randint(1, nr - 1)
        rec_type = ['E'] * k + ['M'] * (nr - k)
    if nr > 1 and rng.random() < 0.7:
        # clearly different offsets: spread the receivers, at least one relative, one absolute
        base = rng.sample([2, 5, 8, 11, 14, 17], nr)
        rec_xyz = [[100 * b * rng.choice([-1, 1]), 0, 0] for b in base]
        rec_rel = [False] * nr
        rec_rel[rng.randrange(nr)] = True

    def data(p_nan):
        out = []
        for i in range(ns):
            out.append([])
            for j in range(nr):
                out[-1].append([])
                for k in range(nq):
                    if rng.random() < p_nan:
                        out[-1][-1].append(None)
                    else:
                        t = rng.random()
                        while True:     # |d| > 0: a zero datum with relative error only has std = 0
                            if t < 0.15:
                                v = [K.dy(rng), 0.0]
                            elif t < 0.25:
                                v = [0.0, K.dy(rng)]
                            else:
                                v = [K.dy(rng), K.dy(rng)]
                            if v[0] != 0.0 or v[1] != 0.0:
                                break
                        out[-1][-1].append(v)
        return out
    p_nan = rng.choice([0.0, 0.15, 0.35, 0.7])
    case = {'shape': shape, 'src_xyz': src_xyz, 'rec_xyz': rec_xyz, 'rec_rel': rec_rel,
            'rec_type': rec_type,
            'freqs': [k + 1 for k in range(nq)],
            'observed': data(p_nan), 'synthetic': data(0.05), 'ops': [],
            'malformed': bool(malformed)}
    # NaN line so that remove_empty has something to remove
    if rng.random() < 0.35 and ns > 1:
        i = rng.randrange(ns)
        case['observed'][i] = [[None] * nq for _ in range(nr)]
    if rng.random() < 0.35 and nr > 1:
        j = rng.randrange(nr)
        for i in range(ns):
            case['observed'][i][j] = [None] * nq
    return case


def offsets2(case):
    """exact squared offsets by (source id, receiver id) of the initial survey"""
    tab = {}
    for i, s in enumerate(case['src_xyz']):
        for j, (r, rel) in enumerate(zip(case['rec_xyz'], case['rec_rel'])):
            if rel:
                d = r
            else:
                d = [a - b for a, b in zip(r, s)]
            tab[(i + 1, j + 1)] = Fr(sum(x * x for x in d))
    return tab


def gen_name_list(rng, pool, malformed):
    """a list of names for one axis of select(): permuted / descending / ascending
    sub-lists, pure re-orderings, and (also in the valid stream: the code must
    reject them) repeated or unknown names."""
    t = rng.random()
    n = len(pool)
    k = rng.randint(1, n)
    if t < 0.08 or (malformed and t < 0.3):
        l = list(pool)
        rng.shuffle(l)
        l = l[:k]
        if rng.random() < 0.6:
            l.insert(rng.randint(0, len(l)), l[rng.randrange(len(l))])
            return l, 'repeated'
        l.insert(rng.randint(0, len(l)), 99)
        return l, 'unknown'
    if t < 0.30:
        return sorted(pool, reverse=True)[:k] if rng.random() < 0.5 else \
            sorted(rng.sample(pool, k), reverse=True), 'descending'
    if t < 0.45:
        return sorted(rng.sample(pool, k)), 'ascending'
    if t < 0.65:
        l = list(pool)
        rng.shuffle(l)
        return l, ('reordered' if l != sorted(l) else 'ascending')
    l = list(pool)
    rng.shuffle(l)
    l = l[:k]
    return l, ('permuted' if l != sorted(l) else 'ascending')


def _dy_nz(rng):
    while True:
        v = [K.dy(rng), K.dy(rng) if rng.random() < 0.8 else 0.0]
        if v[0] != 0.0 or v[1] != 0.0:
            return v


def gen_set_obs(rng, sv, s, how):
    """new observations for survey object `sv`: 'fill' (every gap filled, old values
    kept), 'move' (fresh values, fresh NaN pattern), 'more' (some finite data
    become gaps), 'badshape' (one axis too long: rejected by numpy)"""
    cur = np.asarray(sv.data.observed.data)
    n1, n2, n3 = cur.shape
    if how == 'badshape':
        val = [[[_dy_nz(rng) for _ in range(n3)] for _ in range(n2 + 1)] for _ in range(n1)]
        return {'op': 'set_obs', 's': s, 'val': val, 'how': how}
    val = []
    for i in range(n1):
        val.append([])
        for j in range(n2):
            val[-1].append([])
            for k in range(n3):
                c = cur[i, j, k]
                old = None if np.isnan(c) else [float(c.real), float(c.imag)]
                if how == 'fill':
                    x = old if old is not None else _dy_nz(rng)
                elif how == 'more':
                    x = None if (old is None or rng.random() < 0.4) else old
                else:
                    x = None if rng.random() < 0.3 else _dy_nz(rng)
                val[-1][-1].append(x)
    return {'op': 'set_obs', 's': s, 'val': val, 'how': how}


def gen_op(rng, impl, case, n_setters_first, malformed):
    """draw the next operation given the current implementation state"""
    nsv = len(impl.surveys)
    s = rng.randrange(nsv) if rng.random() < 0.7 else nsv - 1
    sv = impl.surveys[s]
    shape = list(sv.shape)
    u = rng.random()
    if u < 0.10:        # read-only queries between the data changes
        return {'op': 'query', 's': s, 'what': rng.choice(QUERIES)}
    if u < 0.15:        # explicit new observations (in place)
        return gen_set_obs(rng, sv, s, rng.choice(['fill', 'move', 'more', 'move']) if not
                           (malformed and rng.random() < 0.4) else 'badshape')
    if u < 0.17:        # compute(observed=True, add_noise=False)
        return {'op': 'obs_from_syn', 's': s}
    r = rng.random()
    if malformed and rng.random() < 0.08:
        s = nsv + 1 if False else s
    if r < 0.16:
        v, lay = gen_setting(rng, shape, malformed)
        return {'op': 'set_nf', 's': s, 'val': v, 'layout': lay}
    if r < 0.28:
        v, lay = gen_setting(rng, shape, malformed)
        return {'op': 'set_re', 's': s, 'val': v, 'layout': lay}
    if r < 0.36:
        t = rng.random()
        if t < 0.3:
            return {'op': 'set_std', 's': s, 'val': None, 'layout': 'none'}
        bs = shape
        lay = 'full'
        if malformed and t < 0.6:
            bs = [shape[0], shape[1], shape[2] + 1]
            lay = 'bad-shape'
        a = [[[K.dy_pos(rng) for _ in range(bs[2])] for _ in range(bs[1])] for _ in range(bs[0])]
        if malformed and 0.6 <= t < 0.8:
            a[0][0][0] = 0.0
            lay = 'bad-array'
        return {'op': 'set_std', 's': s, 'val': a, 'layout': lay}
    if r < 0.66:
        tab = offsets2(case)
        offs = sorted({math.sqrt(float(v)) for v in tab.values()})
        exact = [o for o in offs if float(o).is_integer()]
        o = {'op': 'add_noise', 's': s, 'min_offset': 0.0, 'max_offset': None,
             'min_amplitude': 'half_nf', 'add_to': 'observed', 'ntype': 'white_noise',
             'mean_noise': 0.0, 'explicit_defaults': rng.random() < 0.2}
        mids = [math.floor((a + b) / 2) + 0.5 for a, b in zip(offs[:-1], offs[1:]) if b - a > 2]

        def thr(hi):
            u = rng.random()
            if mids and u < 0.45:
                return float(rng.choice(mids))          # strictly between two offsets
            if exact and u < 0.8:
                return float(rng.choice(exact))         # exactly on an offset (strict <, >)
            return float(100 * rng.randint(1, hi))
        t = rng.random()
        if t < 0.45:
            o['min_offset'] = thr(12)
        t = rng.random()
        if t < 0.4:
            o['max_offset'] = thr(15)
        t = rng.random()
        if t < 0.2:
            o['min_amplitude'] = None
        elif t < 0.45:
            o['min_amplitude'] = rng.choice([K.dy_pos(rng), K.dy_pos(rng), 5.0, 0.0, -1.0])
        t = rng.random()
        if t < 0.3:
            o['add_to'] = rng.choice(['noise', 'extra', 'synthetic'])
        o['ntype'] = rng.choice(['white_noise', 'white_noise', 'gaussian_correlated',
                                 'gaussian_uncorrelated'])
        if rng.random() < 0.25:
            o['mean_noise'] = rng.choice([0.5, -0.25, 1.0])
        return o
    if r < 0.86:
        o = {'op': 'select', 's': s, 'remove_empty': rng.random() < 0.5,
             'default_rm': False, 'as_str': rng.random() < 0.3}
        if o['remove_empty'] and rng.random() < 0.5:
            o['default_rm'] = True
        ids = {'sources': [impl.key_id(k) for k in sv.sources],
               'receivers': [impl.key_id(k) for k in sv.receivers],
               'frequencies': [impl.key_id(k) for k in sv.frequencies]}
        allnone = rng.random() < 0.25
        o['kinds'] = {}
        for ax in ('sources', 'receivers', 'frequencies'):
            if allnone or rng.random() < 0.3:
                o[ax] = None
                o['kinds'][ax] = 'none'
                continue
            o[ax], o['kinds'][ax] = gen_name_list(rng, list(ids[ax]), malformed)
        return o
    return {'op': 'dict', 's': s, 'kind': rng.choice([0, 0, 1, 1, 2, 3, 4])}


# ---------------------------------------------------------------- Coq side
def coq_inval(v):
    if v is None:
        return 'INone'
    if isinstance(v, (int, float)):
        return f"(IScal {V.q(float(v))})"
    cells = [[[(Fr(float(x)), Fr(0)) for x in r] for r in p] for p in v['arr']]
    return f"(IArr {coq_cube(cells)})"


def coq_op(o, extra):
    s = f"{int(o['s'])}%nat"
    k = o['op']
    if k == 'set_nf':
        return f"OSetNf {s} {coq_inval(o['val'])}"
    if k == 'set_re':
        return f"OSetRe {s} {coq_inval(o['val'])}"
    if k == 'set_std':
        if o['val'] is None:
            return f"OSetStd {s} None"
        cells = [[[(Fr(float(x)), Fr(0)) for x in r] for r in p] for p in o['val']]
        return f"OSetStd {s} (Some {coq_cube(cells)})"
    if k == 'add_noise':
        ma = o['min_amplitude']
        mas = 'MHalfNf' if ma == 'half_nf' else ('MNoCut' if ma is None else f"(MVal {V.q(float(ma))})")
        mo = 'None' if o['max_offset'] is None else f"(Some {V.q(float(o['max_offset']))})"
        to = 'TObs' if o['add_to'] == 'observed' else f"(TNamed ({NAMED[o['add_to']]})%Z)"
        noise = extra['noise'] if extra else []
        return (f"OAddNoise {s} (mkP {V.q(float(o['min_offset']))} {mo} {mas} {to}) "
                f"{coq_cube(noise)}")
    if k == 'select':
        return (f"OSelect {s} {coq_optlist(o['sources'])} {coq_optlist(o['receivers'])} "
                f"{coq_optlist(o['frequencies'])} {V.coq_bool(o['remove_empty'])}")
    if k == 'dict':
        return f"ODict {s} ({int(o['kind'])})%Z"
    raise ValueError(k)


def coq_xop(o, extra):
    s = f"{int(o['s'])}%nat"
    k = o['op']
    if k == 'query':
        return f"XQuery {s} {QUERY_COQ[o['what']]}"
    if k == 'set_obs':
        return f"XSetObs {s} {coq_cube(arr_to_cells(nested_to_arr(o['val'], True)))}"
    if k == 'obs_from_syn':
        return f"XObsFromSyn {s}"
    return f"XBase ({coq_op(o, extra)})"


COQ_HEADER = K.CASE_HEADER + ("From V Require Import Model.SurveyMachine Model.SurveyMachineExec "
                              "Model.SurveyFinite.\n"
                              "Local Open Scope Z_scope.\n")


def coq_history(tag, case, extras):
    ns, nr, nq = case['shape']
    tab = offsets2(case)
    offt = '[' + '; '.join(f"(({a})%Z, ({b})%Z, {V.q(v)})" for (a, b), v in sorted(tab.items())) + ']'
    obs = arr_to_cells(nested_to_arr(case['observed'], True))
    syn = arr_to_cells(nested_to_arr(case['synthetic'], True))
    lines = [
        f"Definition offt_{tag} : list (Z * Z * Q) := {offt}.",
        f"Definition w0_{tag} : qxworld := mkX (mkW [] [{coq_cube(obs)}; {coq_cube(syn)}] "
        f"[mkS {coq_zlist(range(1, ns + 1))} {coq_zlist(range(1, nr + 1))} "
        f"{coq_zlist(range(1, nq + 1))} 0%nat [(0%Z, 1%nat)] ANone ANone None None None]) [].",
        f"Definition ops_{tag} : list (@xop Q) := [" +
        ';\n  '.join(coq_xop(o, e) for o, e in zip(case['ops'], extras)) + "].",
        f"Eval vm_compute in d_xtrace (xtrace qltb (off_tab offt_{tag}) false ops_{tag} w0_{tag}).",
        f"Eval vm_compute in d_xfinal (xrun qltb (off_tab offt_{tag}) false ops_{tag} w0_{tag}).",
        f"Eval vm_compute in d_xtrace (xtrace qltb (off_tab offt_{tag}) true ops_{tag} w0_{tag}).",
    ]
    return '\n'.join(lines) + '\n'


# ---------------------------------------------------------------- comparison
ERR_OK = {1: {'ValueError'}, 2: {'KeyError', 'ValueError'}, 9: {'NoSurvey'}}


def by_label(d):
    """{array name: {(src, rec, freq) names: cell}} of a survey dump"""
    out = {}
    arrs = {'obs': d['obs'], 'std': d['std'], 'nf_arr': d['nf_arr'], 're_arr': d['re_arr']}
    for n, c in d['named'].items():
        arrs[f'named{n}'] = c
    for name, c in arrs.items():
        if c is None:
            continue
        m = {}
        try:
            for i, a in enumerate(d['src']):
                for j, b in enumerate(d['rec']):
                    for k, f in enumerate(d['frq']):
                        m[(a, b, f)] = c[i][j][k]
        except IndexError:
            m = {'shape': 'array shape does not match the names'}
        out[name] = m
    return out


def diff_state(impl_state, model_state):
    """first difference between the implementation dump and the model dump"""
    isv, ialias = impl_state
    msv, malias = model_state
    if len(isv) != len(msv):
        return f'number of surveys: impl {len(isv)} model {len(msv)}'
    for n, (a, b) in enumerate(zip(isv, msv)):
        for extra in ('coords_mismatch', 'unknown_datasets'):
            if a.get(extra):
                return f'survey {n}: {extra} {a[extra]}'
        for key in ('src', 'rec', 'frq'):
            if a[key] != b[key]:
                return f'survey {n}: {key} (names, in order) differ: impl {a[key]} model {b[key]}'
        # data BY LABEL: every array as a function of (source, receiver, frequency) names
        la, lb = by_label(a), by_label(b)
        if la.keys() != lb.keys():
            return f'survey {n}: arrays present differ: {sorted(la.keys() ^ lb.keys())}'
        for arr in la:
            if la[arr] != lb[arr]:
                bad = [k for k in la[arr] if la[arr][k] != lb[arr].get(k, 'missing')][:1]
                return f'survey {n}: {arr} differs by label at {bad}'
        for key in ('obs', 'named', 'nf', 're', 'std', 'nf_arr', 're_arr'):
            if a[key] != b[key]:
                return f'survey {n}: {key} differs'
    if sorted(ialias) != sorted(malias):
        d = sorted(set(ialias) ^ set(malias))
        return f'alias structure differs: {d[:4]}'
    return None


def fmt_cells(c):
    if c is None:
        return None
    if isinstance(c, tuple) and c and c[0] in ('none', 'scalar', 'cube'):
        if c[0] == 'cube':
            return ['cube', fmt_cells(c[1])]
        return [c[0]] + [float(x) for x in c[1:]]
    return [[[None if x is None else [float(x[0]), float(x[1])] for x in r] for r in p] for p in c]


def check_noise_structure(o, extra, sd_model):
    """the realised noise must have the form std * ((1+1j)*mean + R(ntype)) with
    the std the MODEL derived (from the unmodified settings)."""
    before, after = extra['before'], extra['after']
    mean = o['mean_noise']
    for idx in np.ndindex(after.shape):
        i, j, k = idx
        sd2 = sd_model[i][j][k]
        b, a = before[idx], after[idx]
        if np.isnan(b) or np.isnan(a) or sd2 is None:
            continue
        sd = math.sqrt(float(sd2[0]))
        if sd == 0.0:
            continue
        Rn = (a - b) / sd - (1 + 1j) * mean
        tol = 1e-6 * max(1.0, abs(b) / sd)
        if o['ntype'] == 'white_noise' and abs(abs(Rn) - 1.0) > tol:
            return f'white noise at {idx}: |noise/std - (1+i)mean| = {abs(Rn)!r}, expected 1'
        if o['ntype'] == 'gaussian_correlated' and abs(Rn.real - Rn.imag) > tol:
            return f'correlated noise at {idx}: Re {Rn.real!r} != Im {Rn.imag!r}'
    return None


def diff_query(o, iout, tag, xinf):
    """answer of a read-only query: implementation vs model (None = agree)"""
    qk, qmask, qcells, qnum, qmis = xinf[:5]
    if iout[0] != 'query' or tag != 3:
        return f'query: impl outcome {iout[:1]}, model outcome tag {tag}'
    v, w = iout[1], o['what']
    if w == 'isfinite':
        return None if v == qmask else f'isfinite: impl {v} model {qmask}'
    if w == 'finite_data':
        mc = [m_cell(x) for x in qcells]
        return None if v == mc else (f'finite_data(): impl {len(v)} values, model {len(mc)} values, '
                                     f'first difference at {next((i for i, (a, b) in enumerate(zip(v, mc)) if a != b), min(len(v), len(mc)))}')
    if w in ('size', 'count'):
        return None if v == qnum else f'{w}: impl {v} model {qnum}'
    if w == 'misfit':
        if qmis is None:
            return None if v == 'ValueError' else f'misfit: impl {v!r}, model None (ValueError: no std)'
        mm = Fr(qmis[1][0], qmis[1][1])
        if isinstance(v, str) or not V.close(v, mm, scale=0.0):
            return (f'misfit (query after operation history): impl {v!r} model {float(mm)!r} '
                    '(model = half sum over the CURRENTLY finite observations)')
        return None
    return 'unknown query ' + str(w)


def brief_case(case, upto=None):
    c = {k: case[k] for k in ('shape', 'src_xyz', 'rec_xyz', 'rec_rel', 'freqs',
                              'observed', 'synthetic')}
    c['rec_type'] = case.get('rec_type') or ['E'] * case['shape'][1]
    c['ops'] = [{k: v for k, v in o.items()} for o in case['ops'][:upto]]
    return c


def run_history(rng, nops, malformed, thorough):
    """generate + execute one history on the implementation"""
    case = gen_case(rng, malformed, thorough)
    shape = case['shape']
    # constructor arguments (valid values only) are the first operations
    for nm in ('set_nf', 'set_re'):
        if rng.random() < 0.6:
            v, lay = gen_setting(rng, shape, False)
            case['ops'].append({'op': nm, 's': 0, 'val': v, 'layout': lay, 'ctor': True})
    impl = Impl(case)
    states, outcomes, extras = [], [], []
    for n, o in enumerate(case['ops']):   # constructor setters: state after construction
        if n < impl.ctor_ops:
            outcomes.append(('ok',))
            extras.append(None)
            states.append(impl.dump() if n == impl.ctor_ops - 1 else None)
        else:                             # the constructor refused them: ordinary setter calls
            out, extra = impl.apply(o)
            outcomes.append(out)
            extras.append(extra)
            states.append(impl.dump())
    while len(case['ops']) < nops:
        o = gen_op(rng, impl, case, 0, malformed)
        case['ops'].append(o)
        out, extra = impl.apply(o)
        outcomes.append(out)
        extras.append(extra)
        states.append(impl.dump())
    return case, impl, states, outcomes, extras


def compare_history(case, impl, states, outcomes, extras, ans):
    """ans: the three Eval answers of this history.  Returns list of disagreements."""
    dis = []
    tr = parse_term(ans[0])
    fin = parse_term(ans[1])
    if len(tr) != len(case['ops']):
        return [{'what': 'model trace has wrong length', 'case': brief_case(case)}]
    first_bad = None
    for n, ((tag, ek, sd, xinf, wdump), o) in enumerate(zip(tr, case['ops'])):
        msv = [m_survey(t) for t in wdump]
        mstate = (msv, alias_labels_model(msv))
        iout = outcomes[n]
        what, state_diff = None, False
        if tag == 1:
            if iout[0] != 'err' or iout[1] not in ERR_OK.get(ek, set()):
                what = f'outcome: model error kind {ek}, impl {iout}'
        elif iout[0] == 'err':
            what = f'outcome: impl raised {iout[1]}, model succeeded'
        if what is None and tag == 2 and states[n] is not None and o['s'] < len(msv) \
                and o['s'] < len(states[n][0]):
            arr = 'obs' if o['add_to'] == 'observed' else f"named{NAMED[o['add_to']]}"
            li = by_label(states[n][0][o['s']]).get(arr, {})
            lm = by_label(msv[o['s']]).get(arr, {})
            ci = sorted(k for k, v in li.items() if v is None)
            cm = sorted(k for k, v in lm.items() if v is None)
            if ci != cm:
                what, state_diff = ('add_noise: entries that are NaN afterwards differ BY LABEL '
                                    f'(source, receiver, frequency): only impl {sorted(set(ci) - set(cm))[:4]}, '
                                    f'only model cut_mask {sorted(set(cm) - set(ci))[:4]}'), True
        if what is None and (tag == 3 or iout[0] == 'query'):
            what = diff_query(o, iout, tag, xinf)
        if what is None and states[n] is not None:
            d = diff_state(states[n], mstate)
            if d:
                what, state_diff = d, True
        if what is None and states[n] is not None:
            im = [d_.get('memo') for d_ in states[n][0]]
            mm = [None if m_ is None else m_[1] for m_ in xinf[5]]
            if im != mm:
                what = ('memoised finite mask (survey._isfinite) differs after the operation: '
                        f'impl {im} model {mm}')
        if what is None and tag == 2 and extras[n] is not None:
            if sd is None:
                b_, a_ = extras[n]['before'], extras[n]['after']
                okm = ~np.isnan(a_)
                if not np.array_equal(b_[okm], a_[okm]):
                    what = 'noise added although the model has no standard deviation'
            else:
                what = check_noise_structure(o, extras[n], m_cube(sd[1]))
        if what is not None:
            first_bad = (n, what, state_diff)
            break
    if first_bad is None:
        # end of history: std^2 and misfit
        ifin = impl.final()
        if len(ifin) != len(fin):
            first_bad = (len(case['ops']) - 1, 'final: number of surveys')
        else:
            for si, ((isd2, imis), (msd, mmis)) in enumerate(zip(ifin, fin)):
                if (isd2 is None) != (msd is None):
                    first_bad = (len(case['ops']) - 1, f'final: survey {si} std None-ness '
                                 f'impl {isd2 is None} model {msd is None}')
                    break
                if msd is not None:
                    mc = m_cube(msd[1])
                    for idx in np.ndindex(isd2.shape):
                        i, j, k = idx
                        m = mc[i][j][k]
                        x = isd2[idx]
                        if (m is None) != bool(np.isnan(x)) or (
                                m is not None and not V.close(x, m[0], scale=0.0)):
                            first_bad = (len(case['ops']) - 1,
                                         f'final: survey {si} std^2 at {idx}: impl {x!r} model '
                                         f'{None if m is None else float(m[0])!r}')
                            break
                    if first_bad:
                        break
                if imis is None:
                    continue
                if mmis is None:
                    if imis != 'ValueError':
                        first_bad = (len(case['ops']) - 1, f'final: survey {si} misfit impl {imis} '
                                     'model None')
                        break
                else:
                    mm = Fr(mmis[1][0], mmis[1][1])
                    if imis == 'ValueError' or not V.close(imis, mm, scale=0.0):
                        first_bad = (len(case['ops']) - 1, f'final: survey {si} misfit impl {imis!r} '
                                     f'model {float(mm)!r}')
                        break
    mut = impl.inputs_mutated()
    if mut and first_bad is None:
        first_bad = (len(case['ops']) - 1, f'arrays handed to setters were mutated: {mut}')
    if first_bad is not None:
        n, what = first_bad[0], first_bad[1]
        was_state = len(first_bad) > 2 and first_bad[2]
        d = {'what': what, 'op_index': n, 'op': case['ops'][n] if n < len(case['ops']) else None,
             'case': brief_case(case, n + 1)}
        # does the unrepaired (in-place) model explain the implementation?
        try:
            tr_b = parse_term(ans[2])
            ok_b = was_state
            for m, (_t, _e, _s, _x, wdump) in enumerate(tr_b[:n + 1]):
                if states[m] is None:
                    continue
                msv = [m_survey(t) for t in wdump]
                if diff_state(states[m], (msv, alias_labels_model(msv))):
                    ok_b = False
                    break
            if ok_b:
                d['signature'] = SIG_HALF
                d['explained_by'] = 'Model add_noise with inplace=true (unrepaired code)'
        except Exception:      # noqa: BLE001
            pass
        dis.append(d)
    return dis


def history_key(case):
    def opk(o):
        k = o['op']
        if k in ('set_nf', 'set_re', 'set_std'):
            return (k, o['s'], o.get('layout'))
        if k == 'add_noise':
            return (k, o['s'], o['min_offset'] > 0, o['max_offset'] is not None,
                    str(o['min_amplitude']), o['add_to'], o['ntype'])
        if k == 'select':
            return (k, o['s'], str(o['sources']), str(o['receivers']), str(o['frequencies']),
                    o['remove_empty'])
        if k == 'query':
            return (k, o['s'], o['what'])
        if k == 'set_obs':
            return (k, o['s'], o.get('how'))
        if k == 'obs_from_syn':
            return (k, o['s'])
        return (k, o['s'], o['kind'])
    return (tuple(case['shape']), tuple(opk(o) for o in case['ops']))


def nontrivial(case):
    has_arr = any(o['op'] in ('set_nf', 'set_re') and str(o.get('layout', '')).startswith('arr-')
                  and o.get('layout') != 'arr-one' for o in case['ops'])
    has_op = any(o['op'] in ('add_noise', 'select', 'dict') for o in case['ops'])
    return has_arr and has_op


def fixed_cases():
    """hand-written histories run before the generated ones (corpus)"""
    obs = [[[[1.0, 1.0], [4.0, 0.0]], [[0.25, 0.0], [3.0, 4.0]], [[None, None][0], [2.0, -2.0]]],
           [[[0.5, 0.0], [8.0, 1.0]], [[1.0, 0.0], [0.0, 5.0]], [None, [1.5, 0.0]]]]
    syn = [[[[1.5, 1.0], [4.0, 1.0]], [[0.5, 0.0], [3.0, 3.0]], [[1.0, 1.0], [2.0, -1.0]]],
           [[[0.5, 1.5], [7.0, 1.0]], [[1.0, 1.0], [1.0, 5.0]], [[2.0, 2.0], [1.0, 0.0]]]]
    base = {'shape': [2, 3, 2], 'src_xyz': [[0, 0, 0], [100, 0, 0]],
            'rec_xyz': [[1000, 0, 0], [300, 400, 0], [2000, 0, 0]], 'rec_rel': [False, True, False],
            'rec_type': ['M', 'E', 'M'],
            'freqs': [1, 2], 'observed': obs, 'synthetic': syn, 'malformed': False}
    nfarr = {'arr': [[[1.0], [2.0], [4.0]]]}
    an = {'op': 'add_noise', 'min_offset': 0.0, 'max_offset': None, 'min_amplitude': 'half_nf',
          'add_to': 'observed', 'ntype': 'white_noise', 'mean_noise': 0.0}
    h1 = dict(base, ops=[{'op': 'set_nf', 's': 0, 'val': nfarr, 'layout': 'arr-rec', 'ctor': True},
                         {'op': 'set_re', 's': 0, 'val': 0.125, 'layout': 'scalar', 'ctor': True},
                         dict(an, s=0), dict(an, s=0)])
    h2 = dict(base, ops=[{'op': 'set_nf', 's': 0, 'val': nfarr, 'layout': 'arr-rec', 'ctor': True},
                         {'op': 'select', 's': 0, 'sources': None, 'receivers': None,
                          'frequencies': None, 'remove_empty': False},
                         dict(an, s=1, add_to='noise'),
                         {'op': 'dict', 's': 0, 'kind': 1},
                         dict(an, s=2, min_offset=600.0, max_offset=1900.0)])
    h3 = dict(base, ops=[{'op': 'set_re', 's': 0, 'val': {'arr': [[[0.5, 0.25]]]},
                          'layout': 'arr-freq', 'ctor': True},
                         {'op': 'set_std', 's': 0, 'val': [[[1.0, 2.0], [3.0, 4.0], [5.0, 6.0]],
                                                         [[0.5, 1.5], [2.5, 3.5], [4.5, 5.5]]],
                          'layout': 'full'},
                         {'op': 'select', 's': 0, 'sources': [2, 1], 'receivers': [3, 1],
                          'frequencies': None, 'remove_empty': True},
                         dict(an, s=1, ntype='gaussian_correlated', mean_noise=0.5),
                         {'op': 'set_std', 's': 1, 'val': None, 'layout': 'none'},
                         dict(an, s=1, min_amplitude=2.0)])
    h4 = dict(base, ops=[{'op': 'set_nf', 's': 0, 'val': {'arr': [[[0.75]]]}, 'layout': 'arr-one'},
                         {'op': 'select', 's': 0, 'sources': [1], 'receivers': [2], 'frequencies': [2],
                          'remove_empty': False},
                         {'op': 'set_re', 's': 1, 'val': {'arr': [[[0.5]]]}, 'layout': 'arr-one'},
                         dict(an, s=1, min_amplitude=None)])
    # round 6: the user looks at the finite data, then the NaN pattern changes, then misfit
    full = [[[[1.0, 1.0], [4.0, 0.0]], [[0.25, 0.0], [3.0, 4.0]], [[1.0, -1.0], [2.0, -2.0]]],
            [[[0.5, 0.0], [8.0, 1.0]], [[1.0, 0.0], [0.0, 5.0]], [[-2.0, 0.5], [1.5, 0.0]]]]
    q = {'op': 'query', 's': 0}
    h5 = dict(base, ops=[{'op': 'set_nf', 's': 0, 'val': {'arr': [[[0.5, 2.0]]]}, 'layout': 'arr-freq',
                          'ctor': True},
                         {'op': 'set_re', 's': 0, 'val': 0.125, 'layout': 'scalar', 'ctor': True},
                         dict(q, what='finite_data'),
                         {'op': 'set_obs', 's': 0, 'val': full, 'how': 'fill'},
                         dict(q, what='count'), dict(q, what='misfit'), dict(q, what='isfinite')])
    h6 = dict(base, ops=[{'op': 'set_nf', 's': 0, 'val': 0.5, 'layout': 'scalar', 'ctor': True},
                         {'op': 'obs_from_syn', 's': 0},
                         dict(q, what='isfinite'),
                         dict(an, s=0, min_offset=600.0, min_amplitude=None),
                         dict(q, what='count'), dict(q, what='misfit'),
                         {'op': 'dict', 's': 0, 'kind': 0}, dict(q, s=1, what='finite_data'),
                         {'op': 'set_obs', 's': 1, 'val': full, 'how': 'fill'},
                         dict(q, what='misfit'), dict(q, s=1, what='misfit')])
    return [h1, h2, h3, h4, h5, h6]


def run_fixed(case):
    """execute a fully specified history"""
    case = _copy.deepcopy(case)
    impl = Impl(case)
    states, outcomes, extras = [], [], []
    for n, o in enumerate(case['ops']):
        if n < impl.ctor_ops:
            outcomes.append(('ok',))
            extras.append(None)
            states.append(impl.dump() if n == impl.ctor_ops - 1 else None)
            continue
        out, extra = impl.apply(o)
        outcomes.append(out)
        extras.append(extra)
        states.append(impl.dump())
    return case, impl, states, outcomes, extras


def ordered_subsets(ids):
    out = []
    for k in range(1, len(ids) + 1):
        out += [list(p) for p in itertools.permutations(ids, k)]
    return out


def run_label_histories(rng, thorough):
    """Exhaustive name-order stream: on a 3 x 2 x 2 (thorough 3 x 3 x 2) survey with
    per-source noise floor, full relative-error array and explicit std, select
    EVERY ordered non-empty sub-list of the sources (and of the receivers),
    plus lists with a repeated name, each followed by a second selection from
    the new survey (composition)."""
    runs = []
    nr = 3 if thorough else 2
    src_lists = ordered_subsets([1, 2, 3]) + [[1, 1], [2, 1, 2], [3, 3, 1]]
    rec_lists = ordered_subsets(list(range(1, nr + 1))) + [[1, 1]]
    jobs = [('sources', l) for l in src_lists] + [('receivers', l) for l in rec_lists]
    if thorough:
        jobs += [('both', (a, b)) for a in ordered_subsets([1, 2, 3])[3:] for b in rec_lists[nr:-1]]
    per = 5
    for j0 in range(0, len(jobs), per):
        case = gen_case(rng, False, False)
        case['shape'] = [3, nr, 2]
        case['src_xyz'] = [[0, 0, 0], [100, 0, 0], [-200, 400, 0]]
        case['rec_xyz'] = [[1000, 0, 0], [300, 400, 0], [2000, 0, 0]][:nr]
        case['rec_rel'] = [False, True, False][:nr]
        case['rec_type'] = ['M', 'E', 'M'][:nr]
        case['freqs'] = [1, 2]

        def cube(p_nan, cplx=True):
            return [[[None if rng.random() < p_nan else
                      ([K.dy(rng) or 0.5, K.dy(rng)] if cplx else K.dy_pos(rng))
                      for _ in range(2)] for _ in range(nr)] for _ in range(3)]
        case['observed'] = cube(0.25)
        if rng.random() < 0.5:
            case['observed'][rng.randrange(3)] = [[None, None] for _ in range(nr)]
        case['synthetic'] = cube(0.0)
        case['ops'] = [
            {'op': 'set_nf', 's': 0, 'val': {'arr': [[[K.dy_pos(rng)]] for _ in range(3)]},
             'layout': 'arr-src', 'ctor': True},
            {'op': 'set_re', 's': 0, 'val': {'arr': cube(0.0, False)}, 'layout': 'arr-full',
             'ctor': True}]
        impl = Impl(case)
        states, outcomes, extras = [None, impl.dump()], [('ok',), ('ok',)], [None, None]

        def do(o):
            case['ops'].append(o)
            out, extra = impl.apply(o)
            outcomes.append(out)
            extras.append(extra)
            states.append(impl.dump())
            return out
        if rng.random() < 0.5:
            do({'op': 'set_std', 's': 0, 'val': cube(0.0, False), 'layout': 'full'})
        for ax, l in jobs[j0:j0 + per]:
            o = {'op': 'select', 's': 0, 'sources': None, 'receivers': None, 'frequencies': None,
                 'remove_empty': rng.random() < 0.5, 'default_rm': False, 'as_str': False,
                 'kinds': {}}
            if ax == 'both':
                o['sources'], o['receivers'] = list(l[0]), list(l[1])
            else:
                o[ax] = list(l)
            if rng.random() < 0.4:
                o['frequencies'] = [2, 1]
            for a in ('sources', 'receivers', 'frequencies'):
                v = o[a]
                o['kinds'][a] = ('none' if v is None else 'repeated' if len(set(v)) < len(v)
                                 else 'ascending' if v == sorted(v)
                                 else 'descending' if v == sorted(v, reverse=True) else 'permuted')
            if do(o)[0] == 'ok':
                new = impl.surveys[-1]
                o2 = {'op': 'select', 's': len(impl.surveys) - 1, 'remove_empty': False,
                      'default_rm': False, 'as_str': False, 'kinds': {}}
                for a, d in (('sources', new.sources), ('receivers', new.receivers),
                             ('frequencies', new.frequencies)):
                    o2[a], o2['kinds'][a] = gen_name_list(rng, [impl.key_id(k) for k in d], False)
                do(o2)
        runs.append((case, impl, states, outcomes, extras))
    return runs


FINITE_ROUTES = ('fill', 'move', 'more', 'obs_from_syn', 'add_noise_offset', 'add_noise_amplitude',
                 'obs_from_syn+add_noise_offset')


def an_cut_op(rng, case, sv, s, kind):
    """an add_noise call whose offset / amplitude cut removes some but (if possible) not all data"""
    o = {'op': 'add_noise', 's': s, 'min_offset': 0.0, 'max_offset': None, 'min_amplitude': None,
         'add_to': 'observed', 'ntype': rng.choice(['white_noise', 'gaussian_uncorrelated']),
         'mean_noise': 0.0, 'explicit_defaults': False}
    if kind == 'offset':
        offs = sorted({math.sqrt(float(v)) for v in offsets2(case).values()})
        mids = [math.floor((a + b) / 2) + 0.5 for a, b in zip(offs[:-1], offs[1:]) if b - a > 2]
        if mids and rng.random() < 0.5:
            o['min_offset'] = float(rng.choice(mids))
        elif mids:
            o['max_offset'] = float(rng.choice(mids))
        else:
            o['min_offset'] = float(math.floor(offs[0]) + 1)
    else:
        d = np.abs(np.asarray(sv.data.observed.data))
        fin = d[np.isfinite(d)]
        med = float(np.median(fin)) if fin.size else 1.0
        o['min_amplitude'] = 2.0 ** math.ceil(math.log2(med)) if med > 0 else 1.0
    return o


def run_finite_histories(rng, thorough):
    """Histories about the finite mask: observed data with gaps -> a public query that
    looks at the finite data (isfinite / finite_data) -> the NaN pattern of data.observed
    changes through EVERY documented route (explicit assignment filling / moving /
    adding gaps, compute(observed=True), add_noise offset cut, add_noise amplitude cut)
    -> size / count / isfinite / finite_data / misfit queries; twice per history, with
    an aliasing or copied second survey in between.  Routes x first query are
    enumerated, everything else is drawn from rng."""
    runs = []
    reps = 4 if thorough else 1
    for rep in range(reps):
        for ri, route in enumerate(FINITE_ROUTES):
            for q0 in ('isfinite', 'finite_data', None):
                # control histories without a first query: every third route (quick), all (thorough)
                if q0 is None and (rep % 2 or (not thorough and ri % 3)):
                    continue
                while True:
                    case = gen_case(rng, False, thorough)
                    flat = [x for p_ in case['observed'] for r_ in p_ for x in r_]
                    nn = sum(x is None for x in flat)
                    if len(flat) >= 2 and 0 < nn < len(flat):
                        break
                # a fully finite synthetic data set in two of three cases (so that compute(observed=True)
                # fills every gap), the drawn one (5% NaN) otherwise
                if rng.random() < 0.67:
                    case['synthetic'] = [[[x if x is not None else _dy_nz(rng) for x in r_] for r_ in p_]
                                         for p_ in case['synthetic']]
                v, lay = gen_setting(rng, case['shape'], False)
                if v is None:
                    v, lay = K.dy_pos(rng), 'scalar'
                case['ops'].append({'op': 'set_nf', 's': 0, 'val': v, 'layout': lay, 'ctor': True})
                if rng.random() < 0.5:
                    v, lay = gen_setting(rng, case['shape'], False)
                    case['ops'].append({'op': 'set_re', 's': 0, 'val': v, 'layout': lay, 'ctor': True})
                impl = Impl(case)
                states, outcomes, extras = [], [], []
                for n in range(len(case['ops'])):
                    if n < impl.ctor_ops:
                        outcomes.append(('ok',))
                        extras.append(None)
                        states.append(impl.dump() if n == impl.ctor_ops - 1 else None)
                    else:
                        out, extra = impl.apply(case['ops'][n])
                        outcomes.append(out)
                        extras.append(extra)
                        states.append(impl.dump())

                def do(o):
                    case['ops'].append(o)
                    out, extra = impl.apply(o)
                    outcomes.append(out)
                    extras.append(extra)
                    states.append(impl.dump())

                def change(route_, s_):
                    sv = impl.surveys[s_]
                    for part in route_.split('+'):
                        if part in ('fill', 'move', 'more'):
                            do(gen_set_obs(rng, sv, s_, part))
                        elif part == 'obs_from_syn':
                            do({'op': 'obs_from_syn', 's': s_})
                        else:
                            do(an_cut_op(rng, case, sv, s_, part.split('_')[-1]))
                if q0 is not None:
                    do({'op': 'query', 's': 0, 'what': q0})
                if rng.random() < 0.3:
                    do({'op': 'query', 's': 0, 'what': 'misfit'})
                change(route, 0)
                do({'op': 'query', 's': 0, 'what': rng.choice(['size', 'count'])})
                do({'op': 'query', 's': 0, 'what': 'misfit'})
                do({'op': 'query', 's': 0, 'what': rng.choice(['isfinite', 'finite_data'])})
                # a second survey: shares the arrays (from_dict(to_dict())), a copy, or a selection
                t = rng.random()
                if t < 0.35:
                    do({'op': 'dict', 's': 0, 'kind': 0})
                elif t < 0.6:
                    do({'op': 'dict', 's': 0, 'kind': 1})
                else:
                    do({'op': 'select', 's': 0, 'sources': None, 'receivers': None, 'frequencies': None,
                        'remove_empty': rng.random() < 0.5, 'default_rm': False, 'as_str': False,
                        'kinds': {}})
                s2 = len(impl.surveys) - 1
                do({'op': 'query', 's': s2, 'what': rng.choice(['isfinite', 'finite_data', 'count'])})
                route2 = rng.choice(FINITE_ROUTES)
                change(route2, rng.choice([0, s2]))
                for s_ in (0, s2):
                    do({'op': 'query', 's': s_, 'what': 'count'})
                    do({'op': 'query', 's': s_, 'what': 'misfit'})
                case['finite_route'] = route + ' / ' + route2
                runs.append((case, impl, states, outcomes, extras))
    return runs


def correspondence(ctx):
    rng = ctx.rng
    nhist = 400 if ctx.thorough else 72
    per_file = 8
    runs = []
    for c in fixed_cases():
        runs.append(run_fixed(c))
    corpus_dir = os.path.join(V.VERIF, 'corpus', 'C13')
    if os.path.isdir(corpus_dir):
        import json
        for fn in sorted(os.listdir(corpus_dir)):
            if fn.endswith('.json'):
                runs.append(run_fixed(json.load(open(os.path.join(corpus_dir, fn)))))
    runs += run_label_histories(rng, ctx.thorough)
    n_label_hist = len(runs)
    runs += run_finite_histories(rng, ctx.thorough)
    for h in range(nhist):
        malformed = (h % 6 == 5)
        nops = rng.randint(4, 10)
        runs.append(run_history(rng, nops, malformed, ctx.thorough))
    texts = []
    for f0 in range(0, len(runs), per_file):
        body = COQ_HEADER
        for h in range(f0, min(f0 + per_file, len(runs))):
            case, impl, states, outcomes, extras = runs[h]
            body += coq_history(f"h{h}", case, extras)
        texts.append((f"c13_h_{f0 // per_file}", body))
    res = V.coq_eval_many(texts, timeout=2400)      # generous: only matters on a heavily loaded machine
    dis, seen, nontriv = [], set(), set()
    hist = {'ops': {}, 'shapes': {}, 'layouts': {}, 'outcomes': {}, 'malformed_histories': 0,
            'ntype': {}, 'add_noise_min_amplitude': {}, 'select_name_lists': {},
            'receiver_types': {}, 'offset_cuts_on_mixed_unsorted_receivers': 0,
            'queries': {}, 'set_obs': {}, 'finite_mask_routes': {},
            'misfit_queries_after_nan_pattern_change_following_a_mask_query': 0}
    evaluations = 0
    for f0 in range(0, len(runs), per_file):
        rc, out = res[f"c13_h_{f0 // per_file}"]
        if rc != 0:
            dis.append({'what': 'model evaluation failed', 'log': out[-2000:]})
            continue
        ans = V.eval_answers(out)
        for n, h in enumerate(range(f0, min(f0 + per_file, len(runs)))):
            case, impl, states, outcomes, extras = runs[h]
            try:
                d = compare_history(case, impl, states, outcomes, extras, ans[3 * n:3 * n + 3])
            finally:
                impl.close()
            dis.extend(d)
            evaluations += len(case['ops'])
            key = history_key(case)
            seen.add(key)
            if nontrivial(case):
                nontriv.add(key)
            hist['shapes'][str(tuple(case['shape']))] = hist['shapes'].get(str(tuple(case['shape'])), 0) + 1
            hist['malformed_histories'] += int(bool(case.get('malformed')))
            rt = case.get('rec_type') or ['E'] * case['shape'][1]
            rk = ('electric-only' if set(rt) == {'E'} else 'magnetic-only' if set(rt) == {'M'}
                  else 'mixed-electric-first' if rt == sorted(rt) else 'mixed-magnetic-first-or-interleaved')
            hist['receiver_types'][rk] = hist['receiver_types'].get(rk, 0) + 1
            if rk == 'mixed-magnetic-first-or-interleaved':
                hist['offset_cuts_on_mixed_unsorted_receivers'] += sum(
                    1 for o in case['ops'] if o['op'] == 'add_noise'
                    and (o['min_offset'] > 0 or o['max_offset'] is not None))
            if case.get('finite_route'):
                for rt_ in case['finite_route'].split(' / '):
                    hist['finite_mask_routes'][rt_] = hist['finite_mask_routes'].get(rt_, 0) + 1
            looked, changed = set(), set()
            for o, oc in zip(case['ops'], outcomes):
                if o['op'] == 'query':
                    hist['queries'][o['what']] = hist['queries'].get(o['what'], 0) + 1
                    if o['what'] in ('isfinite', 'finite_data'):
                        looked.add(o['s'])
                    if o['what'] == 'misfit' and o['s'] in changed:
                        hist['misfit_queries_after_nan_pattern_change_following_a_mask_query'] += 1
                elif o['op'] == 'set_obs':
                    hist['set_obs'][o.get('how')] = hist['set_obs'].get(o.get('how'), 0) + 1
                if o['op'] in ('set_obs', 'obs_from_syn', 'add_noise') and o['s'] in looked \
                        and oc[0] != 'err':
                    changed.add(o['s'])
            for o, oc in zip(case['ops'], outcomes):
                hist['ops'][o['op']] = hist['ops'].get(o['op'], 0) + 1
                if 'layout' in o:
                    hist['layouts'][o['layout']] = hist['layouts'].get(o['layout'], 0) + 1
                k = oc[0] if oc[0] != 'err' else 'err:' + oc[1]
                hist['outcomes'][k] = hist['outcomes'].get(k, 0) + 1
                if o['op'] == 'select':
                    for ax_, kd in (o.get('kinds') or {}).items():
                        hist['select_name_lists'][kd] = hist['select_name_lists'].get(kd, 0) + 1
                if o['op'] == 'add_noise':
                    hist['ntype'][o['ntype']] = hist['ntype'].get(o['ntype'], 0) + 1
                    ma = 'half_nf' if o['min_amplitude'] == 'half_nf' else (
                        'None' if o['min_amplitude'] is None else 'float')
                    hist['add_noise_min_amplitude'][ma] = hist['add_noise_min_amplitude'].get(ma, 0) + 1
    samples = [brief_case(r[0]) for r in runs[3:5]]
    for s in samples:
        s.pop('observed', None)
        s.pop('synthetic', None)
    return {
        'evaluations': evaluations,
        'distinct_nontrivial': len(nontriv),
        'rule': "histories of 3..9 operations on random surveys (each dimension 1..3, thorough 1..4, "
                "6% forced 1x1x1; NaN gaps 0/15/35/70%, whole NaN lines), noise settings drawn from "
                "None / scalar / per-source / per-receiver / per-frequency / src x rec / full array / "
                "one-element array, add_noise with all ntypes, offset and amplitude cuts (thresholds "
                "often exactly on an offset), add_to existing/new data sets, select with re-ordered "
                "sub-lists / nothing selected / remove_empty, copy, to_dict+from_dict, save+load "
                "(h5, npz, json); every 6th history draws malformed arguments (non-positive values, "
                "unbroadcastable shapes, unknown / duplicate keys). evaluations = operations whose "
                "post-state was compared on both sides; distinct = distinct (shape, op skeleton); "
                "non-trivial = has an array-valued noise setting and at least one non-setter op. "
                "Receivers: electric only / magnetic only / mixed types in magnetic-first or interleaved "
                "order (55%) / mixed electric-first; absolute and relative receivers at clearly different "
                "offsets; sources away from the origin; offset thresholds between two offsets, exactly on an "
                "offset, or random; the NaN pattern after add_noise is compared BY LABEL with the model's "
                "cut_mask (offsets |rec_center_abs - src_center| from the harness table). "
                "Name lists of select(): ascending / descending / permuted sub-lists, pure re-orderings, "
                "repeated and unknown names (also in the valid stream); PLUS an exhaustive label stream: "
                "on a 3x2x2 (thorough 3x3x2) survey with per-source noise floor, full relative-error array "
                "and explicit std, EVERY ordered non-empty sub-list of the sources and of the receivers "
                "(thorough: and their products) and lists with a repeated name, each followed by a second "
                "selection from the result (composition). States are compared BY LABEL (every array as a "
                "map from (source, receiver, frequency) names to values) and positionally. "
                "Round 6: the history alphabet also has read-only QUERIES between the data changes "
                "(survey.isfinite, finite_data(), size, count, Simulation.misfit on a stub whose `data` IS "
                "survey.data as in the real class) and two more routes that change the NaN pattern of "
                "data.observed (`data.observed[...] = array` filling / moving / adding gaps, and the real "
                "Simulation.compute(observed=True, add_noise=False)); every answer and the memoised mask "
                "found on the survey object are compared with the model after every operation; PLUS a "
                "finite-mask stream enumerating (route of NaN-pattern change) x (first query: isfinite / "
                "finite_data / none), each history: query -> change -> size|count, misfit, isfinite|"
                "finite_data -> second survey (shared / copy / selection) -> query -> second change on either "
                "survey -> count + misfit on both",
        'samples': samples,
        'traces_validated_against_impl': len(runs),
        'histogram': hist,
        'disagreements': dis,
    }


# ------------------------------------------------------------------ searcher
def snapshot(s):
    """noise settings of a survey by value (independent of the model)"""
    def cp(v):
        return None if v is None else (np.array(v, copy=True) if isinstance(v, np.ndarray) else float(v))
    keys = list(s.data.keys())
    return {'noise_floor': cp(s.noise_floor), 'relative_error': cp(s.relative_error),
            'standard_deviation': (np.array(s.data['standard_deviation'].data, copy=True)
                                   if 'standard_deviation' in keys else None)}


def snap_equal(a, b):
    for k in a:
        x, y = a[k], b[k]
        if (x is None) != (y is None):
            return k
        if x is None:
            continue
        if isinstance(x, np.ndarray) != isinstance(y, np.ndarray):
            return k
        if isinstance(x, np.ndarray):
            if x.shape != y.shape or not np.array_equal(x, y, equal_nan=True):
                return k
        elif x != y:
            return k
    return None


def snap_json(a):
    return {k: (None if v is None else (v.tolist() if isinstance(v, np.ndarray) else v))
            for k, v in a.items()}


def property_on_history(case):
    """Evaluate the property itself (settings frame, std formula, misfit,
    selection) on the implementation for a fully specified history.
    Returns a hit dict or None."""
    case = _copy.deepcopy(case)
    impl = Impl(case)
    try:
        snaps = [snapshot(s) for s in impl.surveys]
        for n, o in enumerate(case['ops']):
            if n < impl.ctor_ops:
                continue
            nbefore = len(impl.surveys)
            parent_data = None
            if o['op'] == 'select' and o['s'] < nbefore:
                p = impl.surveys[o['s']]
                parent_data = {k: np.array(p.data[k].data, copy=True) for k in p.data.keys()}
                parent_keys = ([impl.key_id(k) for k in p.sources], [impl.key_id(k) for k in p.receivers],
                               [impl.key_id(k) for k in p.frequencies])
            out, extra = impl.apply(o)
            if (out[0] == 'err' and o['op'] in ('set_nf', 'set_re')
                    and (o.get('layout') in ('scalar', 'none') or str(o.get('layout')).startswith('arr-'))):
                return {'signature': 'C13: broadcastable array / scalar rejected by the setter',
                        'history': brief_case(case, n + 1), 'op_index': n, 'operation': o,
                        'observed': out[1], 'required': 'accepted (documented shape ({1;nsrc},{1;nrec},{1;nfreq}))',
                        'what': f"{o['op']} with a valid {o.get('layout')} value raised {out[1]}"}
            if o['op'] == 'query' and o['what'] == 'misfit' and out[0] == 'query':
                h = check_misfit_value(impl.surveys[o['s']], o['s'], out[1])
                if h:
                    h.update({'history': brief_case(case, n + 1), 'op_index': n, 'operation': o})
                    return h
            if o['op'] == 'add_noise' and out[0] == 'noise':
                h = check_cuts(impl, case, o, extra, snaps[o['s']])
                if h:
                    h.update({'history': brief_case(case, n + 1), 'op_index': n, 'operation': o})
                    return h
            setter_on = o['s'] if o['op'] in ('set_nf', 'set_re', 'set_std') and out[0] == 'ok' else None
            for si in range(nbefore):
                if si == setter_on:
                    snaps[si] = snapshot(impl.surveys[si])
                    continue
                now = snapshot(impl.surveys[si])
                k = snap_equal(snaps[si], now)
                if k is not None:
                    sig = 'C13: settings changed by ' + o['op']
                    if (o['op'] == 'add_noise' and k == 'noise_floor'
                            and o['min_amplitude'] == 'half_nf'
                            and isinstance(now[k], np.ndarray)
                            and np.array_equal(now[k] * 2.0, snaps[si][k])):
                        sig = SIG_HALF
                    return {'signature': sig, 'history': brief_case(case, n + 1), 'op_index': n,
                            'operation': o, 'survey': si, 'setting': k,
                            'observed': snap_json(now)[k], 'required': snap_json(snaps[si])[k],
                            'what': f"{k} of survey {si} changed by operation {n} ({o['op']} on survey "
                                    f"{o['s']}), which is not an assignment to it"}
            # new surveys inherit / sub-select the settings
            if len(impl.surveys) > nbefore:
                new = impl.surveys[-1]
                snaps.append(snapshot(new))
                if o['op'] == 'dict' and o['kind'] >= 1:
                    par = impl.surveys[o['s']]
                    for ka in par.data.keys():
                        if ka in new.data.keys() and np.shares_memory(par.data[ka].data, new.data[ka].data):
                            return {'signature': 'C13: copy shares arrays with the original',
                                    'history': brief_case(case, n + 1), 'op_index': n, 'operation': o,
                                    'observed': f'data[{ka!r}] of the copy shares memory with the original',
                                    'required': 'independent arrays (an in-place update of one would '
                                                'change the settings/data of the other)',
                                    'what': 'copy()/save+load must not alias the stored arrays'}
                if o['op'] == 'dict':
                    k = snap_equal(snaps[o['s']], snaps[-1])
                    if k is not None:
                        return {'signature': 'C13: copy/to_dict/save changes ' + k,
                                'history': brief_case(case, n + 1), 'op_index': n, 'operation': o,
                                'observed': snap_json(snaps[-1])[k],
                                'required': snap_json(snaps[o['s']])[k],
                                'what': f'{k} differs between a survey and its copy'}
                if o['op'] == 'select' and parent_data is not None:
                    h = check_selection(impl, o, parent_data, parent_keys, snaps[o['s']], new)
                    if h:
                        h.update({'history': brief_case(case, n + 1), 'op_index': n, 'operation': o})
                        return h
        # end: std formula and misfit on every survey
        for si, s in enumerate(impl.surveys):
            h = check_std_misfit(s, si)
            if h:
                h['history'] = brief_case(case)
                return h
        if impl.inputs_mutated():
            return {'signature': 'C13: array handed to a setter was mutated',
                    'history': brief_case(case), 'what': 'input arrays changed'}
    finally:
        impl.close()
    return None


def check_cuts(impl, case, o, extra, snap):
    """add_noise sets exactly the entries with |d_obs| < min_amplitude or an
    offset outside [min_offset, max_offset] to NaN (numpy oracle from the
    property text; settings as they were BEFORE the call)."""
    s = impl.surveys[o['s']]
    ob, before, after = extra['obs_before'], extra['before'], extra['after']
    cut = np.zeros(ob.shape, bool)
    ma = o['min_amplitude']
    thr = None
    if ma == 'half_nf':
        nf0 = snap['noise_floor']
        thr = None if nf0 is None else np.asarray(nf0, float) / 2.0
    elif ma is not None:
        thr = float(ma)
    with warnings.catch_warnings():
        warnings.simplefilter('ignore')
        if thr is not None:
            cut |= np.abs(ob) < thr
    tab = offsets2(case)
    for i, ks in enumerate(s.sources):
        for j, kr in enumerate(s.receivers):
            off = math.sqrt(float(tab[(impl.key_id(ks), impl.key_id(kr))]))
            if off < o['min_offset'] or (o['max_offset'] is not None and off > o['max_offset']):
                cut[i, j, :] = True
    nan_after = np.isnan(after)
    if (cut & ~nan_after).any():
        idx = tuple(int(x) for x in np.argwhere(cut & ~nan_after)[0])
        return {'signature': 'C13: add_noise cut does not remove an entry it must remove',
                'entry': idx, 'observed': str(after[idx]), 'required': 'nan',
                'what': 'amplitude/offset cut'}
    keep = ~cut & ~np.isnan(before) & ~np.isnan(ob)
    if (keep & nan_after).any():
        idx = tuple(int(x) for x in np.argwhere(keep & nan_after)[0])
        return {'signature': 'C13: add_noise removes an entry outside the cuts',
                'entry': idx, 'observed': 'nan', 'required': 'finite (|d|=%r)' % abs(ob[idx]),
                'what': 'amplitude/offset cut'}
    return None


def check_selection(impl, o, parent_data, parent_keys, parent_snap, new):
    """the new survey holds exactly the chosen sub-cube of every array"""
    want = []
    for ax, pk in zip(('sources', 'receivers', 'frequencies'), parent_keys):
        want.append(list(pk) if o[ax] is None else list(o[ax]))
    data = parent_data['observed']
    idx = [[pk.index(k) for k in w] for w, pk in zip(want, parent_keys)]
    sub = data[np.ix_(*idx)]
    if o['remove_empty'] and np.isfinite(sub).any():
        keep = [~np.isnan(sub).all(axis=(1, 2)), ~np.isnan(sub).all(axis=(0, 2)),
                ~np.isnan(sub).all(axis=(0, 1))]
        want = [[k for k, m in zip(w, kp) if m] for w, kp in zip(want, keep)]
        idx = [[pk.index(k) for k in w] for w, pk in zip(want, parent_keys)]
    got_keys = [[impl.key_id(k) for k in d] for d in (new.sources, new.receivers, new.frequencies)]
    if got_keys != want:
        return {'signature': 'C13: selection has wrong keys', 'observed': got_keys, 'required': want,
                'what': 'keys of the selected survey'}
    for k, arr in parent_data.items():
        sub = arr[np.ix_(*idx)]
        got = new.data[k].data if k in new.data.keys() else None
        if got is None or got.shape != sub.shape or not np.array_equal(got, sub, equal_nan=True):
            return {'signature': 'C13: selection is not the chosen sub-cube', 'dataset': k,
                    'observed': None if got is None else np.array(got).astype(str).tolist(),
                    'required': sub.astype(str).tolist(), 'what': f'data set {k} of the selection'}
    # by label through the xarray coordinates as well (names attached to the data)
    pk = [[impl.name_of(ax, i) for i in ids]
          for ax, ids in zip(('sources', 'receivers', 'frequencies'), parent_keys)]
    for k, arr in parent_data.items():
        da = new.data[k]
        for a in da.src.values.tolist():
            for b in da.rec.values.tolist():
                for f in da.freq.values.tolist():
                    got = complex(da.sel(src=a, rec=b, freq=f).data)
                    ref = complex(arr[pk[0].index(a), pk[1].index(b), pk[2].index(f)])
                    if not (got == ref or (np.isnan(got) and np.isnan(ref))):
                        return {'signature': 'C13: selection attaches data to the wrong names',
                                'dataset': k, 'label': [a, b, f], 'observed': str(got),
                                'required': str(ref), 'what': f'data set {k} looked up by name'}
    for nm in ('noise_floor', 'relative_error'):
        a, b = parent_snap[nm], getattr(new, nm)
        if isinstance(a, np.ndarray):
            if not isinstance(b, np.ndarray) or not np.array_equal(a[np.ix_(*idx)], b):
                return {'signature': 'C13: selection drops or changes ' + nm,
                        'observed': None if b is None else np.asarray(b).tolist(),
                        'required': a[np.ix_(*idx)].tolist(), 'what': nm + ' of the selection'}
        elif a != b:
            return {'signature': 'C13: selection drops or changes ' + nm, 'observed': b,
                    'required': a, 'what': nm + ' of the selection'}
    return None


def ref_std(s):
    """documented standard deviation from the CURRENT settings and data (numpy, independent
    of emg3d's getter and of the Coq model); None if nothing is set"""
    d = s.data.observed.data
    nf, re_ = s.noise_floor, s.relative_error
    if 'standard_deviation' in s.data.keys():
        return np.asarray(s.data['standard_deviation'].data, float)
    if nf is None and re_ is None:
        return None
    want = np.zeros(d.shape)
    with warnings.catch_warnings():
        warnings.simplefilter('ignore')
        if nf is not None:
            want = want + np.broadcast_to(np.asarray(nf, float), d.shape) ** 2
        if re_ is not None:
            want = want + (np.broadcast_to(np.asarray(re_, float), d.shape) * np.abs(d)) ** 2
        return np.sqrt(want)


def check_misfit_value(s, si, got):
    """`got` = what Simulation.misfit returned for survey `s` in its CURRENT state; required:
    0.5 * sum over the currently finite observations of |syn - obs|^2 / std^2."""
    if 'synthetic' not in s.data.keys():
        return None
    std = ref_std(s)
    d = np.asarray(s.data.observed.data)
    syn = np.asarray(s.data['synthetic'].data)
    if std is None:
        if got == 'ValueError':
            return None
        return {'signature': 'C13: misfit without any standard deviation', 'survey': si,
                'observed': got, 'required': 'ValueError', 'what': 'misfit needs a standard deviation'}
    fin = np.isfinite(d)
    if np.any(std[fin] == 0.0):
        return None           # std = 0: outside the domain
    with warnings.catch_warnings():
        warnings.simplefilter('ignore')
        t = np.abs(syn[fin] - d[fin]) ** 2 / std[fin] ** 2
    ref = float(np.nansum(t)) / 2       # a NaN synthetic datum is skipped by the NaN-skipping sum
    if isinstance(got, str) or not math.isclose(got, ref, rel_tol=1e-7, abs_tol=1e-300):
        return {'signature': 'C13: misfit differs from 1/2 sum over the currently finite observations '
                             'of |syn-obs|^2/std^2', 'survey': si, 'observed': got, 'required': ref,
                'finite_observations_now': int(fin.sum()),
                'what': 'misfit formula on the current observed / synthetic / std arrays'}
    return None


def check_std_misfit(s, si):
    emg3d = _emg3d()
    with warnings.catch_warnings():
        warnings.simplefilter('ignore')
        std = s.standard_deviation
        d = s.data.observed.data
        nf, re_ = s.noise_floor, s.relative_error
        if 'standard_deviation' in s.data.keys():
            want = s.data['standard_deviation'].data
        elif nf is None and re_ is None:
            want = None
        else:
            want = np.zeros(d.shape)
            if nf is not None:
                want = want + np.broadcast_to(np.asarray(nf, float), d.shape) ** 2
            if re_ is not None:
                want = want + (np.broadcast_to(np.asarray(re_, float), d.shape) * np.abs(d)) ** 2
            want = np.sqrt(want)
        if (std is None) != (want is None):
            return {'signature': 'C13: standard deviation None-ness', 'survey': si,
                    'what': 'standard_deviation is None iff nothing is set'}
        if want is None:
            return None
        got = np.asarray(std.data, float)
        ok = np.isclose(got, want, rtol=1e-7, atol=0.0, equal_nan=True)
        if not ok.all():
            return {'signature': 'C13: standard deviation differs from sqrt(nf^2+(re|d|)^2)',
                    'survey': si, 'observed': got.astype(str).tolist(),
                    'required': want.astype(str).tolist(), 'what': 'documented noise model'}
        if 'synthetic' not in s.data.keys():
            return None
        syn = s.data['synthetic'].data

        def misfit_of(sv):
            return impl_misfit(sv)
        if np.any(want[np.isfinite(d)] == 0.0):
            return None       # std = 0 (zero datum, relative error only): outside the domain
        terms = np.abs(syn - d) ** 2 / want ** 2
        ref = float(np.nansum(terms)) / 2
        got_m = impl_misfit_enum(s)
        if isinstance(got_m, str) or not math.isclose(got_m, ref, rel_tol=1e-7, abs_tol=1e-300):
            return {'signature': 'C13: misfit differs from 1/2 sum |syn-obs|^2/std^2', 'survey': si,
                    'observed': got_m, 'required': ref, 'what': 'misfit formula'}
        # permutation invariance: reverse every axis through select
        rev = s.select(sources=list(s.sources)[::-1], receivers=list(s.receivers)[::-1],
                       frequencies=list(s.frequencies)[::-1], remove_empty=False)
        got_r = misfit_of(rev)
        if not math.isclose(got_r, got_m, rel_tol=1e-7, abs_tol=1e-300):
            return {'signature': 'C13: misfit changes under re-ordering', 'survey': si,
                    'observed': got_r, 'required': got_m, 'what': 'misfit permutation invariance'}
    return None


def search(ctx, broken):
    rng = ctx.rng
    hits = []
    # 1. the property itself on the disagreeing cases of the correspondence
    for b in broken:
        d = b.get('detail')
        if isinstance(d, dict) and isinstance(d.get('case'), dict) and 'ops' in d['case']:
            c = dict(d['case'])
            c.setdefault('malformed', False)
            try:
                h = property_on_history(c)
            except Exception as e:      # noqa: BLE001
                ctx.notes.append(f'searcher: replay of a disagreeing case raised {e!r}')
                h = None
            if h:
                hits.append(h)
                return hits
    # 2. fixed histories, then random ones (valid arguments only)
    for c in fixed_cases():
        h = property_on_history(c)
        if h:
            return [h]
    n = 300 if ctx.thorough else 120
    for _ in range(n):
        case, impl, states, outcomes, extras = run_history(rng, rng.randint(3, 8), False, ctx.thorough)
        impl.close()
        h = property_on_history(case)
        if h:
            return [h]
    ctx.notes.append(f"searcher: {n} random histories + {len(fixed_cases())} fixed, settings snapshot "
                     "around every operation, numpy std/misfit/selection oracles")
    return hits


def replay(ctx, payload):
    fi = payload.get('failing_input')
    if not fi or 'history' not in fi:
        return False
    c = dict(fi['history'])
    c.setdefault('malformed', False)
    h = property_on_history(c)
    if h:
        print('replay: ' + h.get('what', '') + f"; observed {h.get('observed')!r} "
              f"required {h.get('required')!r}")
    return h is None
