"""C20 -- time-domain helper: emg3d.time.Fourier partitions and fills the
required frequencies consistently.

(H) hand model coq/Model/Fourier.v; theorems coq/Props/C20.v.
Tie: correspondence on generated Fourier instances (time vectors, bands,
signals, dlf lagged/standard/splined with several filters, fftlog,
every_x_freq, input_freq): masks, freq_coarse, freq_compute, the structure of
interpolate() (which slot holds which datum / which oracle call / zero / error)
are computed by the Coq model on exact rationals and compared with the
implementation; the oracle calls the model prescribes (spline / PCHIP with the
extended points) are replayed with scipy and compared with the implementation's
output; the explicit first-interval PCHIP model is validated against scipy;
freq2time is compared with empymod.model.tem on the filled spectrum.
"""
import warnings

import numpy as np

from vlib import core as V
from vlib import kernels as K

ID = 'C20'
PROPS = 'Props/C20.v'
GEN = []
TECHNIQUE = ("Coq proof (lists over an abstract total order; ring/field; real-closed-field "
             "arithmetic for the monotone cubic) about a hand model + differential "
             "correspondence (vm_compute on exact rationals) with emg3d.time.Fourier")
DESIGN_REF = "DESIGN.md section 6 C20"
LEVEL_TEXT = (
    "Theorems (Props/C20.v) for EVERY list of required frequencies and every band fmin <= fmax over "
    "any totally ordered number type (instantiated for R): the three masks are pairwise disjoint "
    "and cover every frequency, the never-written (zero) group is exactly f > fmax, computed "
    "frequencies lie in the band for every coarse option, without coarse option data pass through "
    "unchanged to the coinciding required frequency, below fmin the value is PCHIP of the extended "
    "points, freq2time is the reference transform of the filled spectrum; on PCHIP's first "
    "interval (explicit model of scipy's slope rules) the real part is constant (any field); over "
    "R a Hermite cubic with slopes in the Fritsch-Carlson box is monotone. Tests check two literal "
    "configurations.")
LEVEL_NOTE = (
    "Hand model tied by correspondence only (no generated model). Oracles: np.log, "
    "InterpolatedUnivariateSpline, PchipInterpolator (outside its first interval), "
    "empymod.utils.check_time (required frequencies are an INPUT of the model) and "
    "empymod.model.tem. Partial: extrap_imag_monotone_partial assumes the PCHIP end slopes lie in "
    "the Fritsch-Carlson box; that scipy's slopes do is validated against scipy on generated "
    "knots, not proved. NaN frequencies are outside the model (total order). Rounding not "
    "modelled. History: before the fix the pass-through branch of interpolate() was selected by "
    "len(freq_coarse) == len(freq_required) (interpolate_unfixed_same_length_raises / "
    "_misplaces); the model now requires equality of the frequency lists "
    "(differing_coarse_is_interpolated) and the generated cases include input_freq of the same "
    "length as freq_required. Standard DLF (pts_per_dec=0) is outside C20's quantifier "
    "(lagged / splined dlf, fftlog) and outside the 1-D model: documented exclusion.")
TRUSTED = [
    "Model/Fourier.v as the reading of emg3d/time.py (validated by the correspondence on every run)",
    "scipy PchipInterpolator / InterpolatedUnivariateSpline, empymod check_time / tem as oracles",
]
ASSUMES = [
    "frequencies are finite numbers (no NaN); fmin <= fmax",
    "PCHIP end slopes lie in the Fritsch-Carlson box (validated against scipy, not proved)",
]

SPL, PCH = 5555, 7777      # oracle markers used when executing the model


# ------------------------------------------------------------------ cases
FILTERS = ['key_81_2009', 'key_201_2012', 'key_101_2012']


def gen_case(rng, thorough=False):
    nt = rng.randint(2, 6)
    t0 = 10 ** rng.uniform(-2, 0.5)
    t1 = t0 * 10 ** rng.uniform(0.3, 1.5)
    time = np.logspace(np.log10(t0), np.log10(t1), nt)
    signal = rng.choice([-1, 0, 1])
    # 'standard' DLF (pts_per_dec=0) is excluded: empymod then returns a 2-D array of
    # required frequencies and Fourier.interpolate raises IndexError (see probe_standard_dlf)
    kind = rng.choice(['lagged', 'lagged', 'splined', 'fftlog', 'fftlog'])
    if kind == 'fftlog':
        ft = 'fftlog'
        ftarg = {'pts_per_dec': rng.choice([3, 5, 8]), 'add_dec': [-rng.choice([1, 2]), 1],
                 'q': rng.choice([0, 0.5, -0.5])}
    else:
        ft = rng.choice(['sin', 'cos', 'dlf']) if False else 'dlf'
        ppd = {'lagged': -1, 'standard': 0, 'splined': rng.choice([5, 10])}[kind]
        ftarg = {'dlf': rng.choice(FILTERS), 'pts_per_dec': ppd}
        if kind == 'standard':
            time = time[:2]
            ftarg['dlf'] = 'key_81_2009'
    return dict(time=[float(x) for x in time], signal=signal, ft=ft, ftarg=ftarg, kind=kind)


def make_fourier(case, **kw):
    import emg3d
    with warnings.catch_warnings():
        warnings.simplefilter('ignore')
        return emg3d.Fourier(time=np.array(case['time']), fmin=case.get('fmin', 0.01),
                             fmax=case.get('fmax', 10.0), signal=case['signal'],
                             ft=case['ft'], ftarg=dict(case['ftarg']), verb=0, **kw)


def complete_case(rng, case):
    """Choose band and coarse option knowing the required frequencies."""
    F0 = make_fourier(case)
    req = np.array(F0.freq_required, float)
    n = req.size
    srt = np.sort(req)

    def pick():
        if rng.random() < 0.5:          # exactly on a required frequency: <, <= slips show
            return float(srt[rng.randrange(n)])
        lo, hi = np.log10(srt[0]) - 0.5, np.log10(srt[-1]) + 0.5
        return float(10 ** rng.uniform(lo, hi))
    a, b = pick(), pick()
    if a > b:
        a, b = b, a
    if a == b and rng.random() < 0.7:
        b = float(b * 2)
    case['fmin'], case['fmax'] = a, b
    opt = rng.choice(['none', 'none', 'every', 'every', 'input', 'input_same_len', 'both'])
    case['coarse'] = opt
    case['every_x_freq'] = None
    case['input_freq'] = None
    if opt in ('every', 'both'):
        case['every_x_freq'] = rng.choice([1, 2, 3, 5, 7])
    if opt in ('input', 'both'):
        m = rng.randint(4, 12)
        lo, hi = np.log10(a) - rng.uniform(0, 1), np.log10(b) + rng.uniform(0, 1)
        case['input_freq'] = [float(x) for x in np.logspace(lo, hi, m)]
    if opt == 'input_same_len':
        lo, hi = np.log10(srt[0]) + rng.uniform(-1, 1), np.log10(srt[-1]) + rng.uniform(-1, 1)
        case['input_freq'] = [float(x) for x in np.logspace(min(lo, hi), max(lo, hi), n)]
    return case


def build(case):
    kw = {}
    if case.get('every_x_freq') is not None:
        kw['every_x_freq'] = case['every_x_freq']
    if case.get('input_freq') is not None:
        kw['input_freq'] = np.array(case['input_freq'])
    return make_fourier(case, **kw)


def run_impl(rng, case):
    Fo = build(case)
    return Fo, observe_instance(rng, Fo)


def observe_instance(rng, Fo, allow_malformed=True):
    """Bookkeeping attributes of the instance as it is NOW and one interpolate() call."""
    r = dict(req=[float(x) for x in Fo.freq_required],
             coarse=[float(x) for x in Fo.freq_coarse],
             compute=[float(x) for x in Fo.freq_compute],
             m_compute=[bool(x) for x in Fo.ifreq_compute],
             m_extrap=[bool(x) for x in Fo.ifreq_extrapolate],
             m_interp=[bool(x) for x in Fo.ifreq_interpolate],
             f_extrap=[float(x) for x in Fo.freq_extrapolate],
             f_interp=[float(x) for x in Fo.freq_interpolate],
             every=Fo.every_x_freq, has_input=Fo.input_freq is not None)
    nc = len(r['compute'])
    # data for freq_compute (valid), sometimes of a wrong length (malformed stream)
    nd = nc
    malformed = allow_malformed and rng.random() < 0.12
    if malformed:
        nd = max(0, nc + rng.choice([-1, 1, 2]))
    fdata = np.array([complex(K.dy(rng, bits=3) + 0.0625 * (j + 1), K.dy(rng, bits=3)
                              - 0.0625 * (j + 1)) for j in range(nd)], dtype=complex)
    # make values pairwise distinct so that positions are identifiable
    fdata = fdata + np.arange(nd) * 16.0
    r['fdata'] = [(float(z.real), float(z.imag)) for z in fdata]
    r['malformed'] = malformed
    try:
        with warnings.catch_warnings():
            warnings.simplefilter('ignore')
            out = Fo.interpolate(fdata)
        r['out'] = out
        r['out_copy'] = np.array(out, copy=True)     # as returned, before any later call
        r['err'] = None
    except Exception as e:      # noqa
        # where was it raised?  inside scipy = the oracle refuses its input (too few points
        # for a cubic spline, ...); in emg3d/time.py itself = masked assignment / fdata[0]
        tb = e.__traceback__
        while tb.tb_next is not None:
            tb = tb.tb_next
        inside = tb.tb_frame.f_code.co_filename
        r['out'] = None
        r['err'] = ('oracle:' if 'scipy' in inside else '') + type(e).__name__
    return r


# ------------------------------------------------------------------ Coq side
def qlist(xs):
    return '[' + '; '.join(V.q(x) for x in xs) + ']'


def coq_case(case, r):
    ev = 'None' if r['every'] is None else f"(Some {int(r['every'])}%nat)"
    inp = '(Some inp)' if r['has_input'] else 'None'
    fd = '[' + '; '.join(f"({V.q(a)}, {V.q(b)})" for a, b in r['fdata']) + ']'
    L = [K.CASE_HEADER, "From V Require Import Model.Fourier.",
         f"Definition req : list Q := {qlist(r['req'])}.",
         f"Definition inp : list Q := {qlist(case['input_freq'] or [])}.",
         f"Definition fmin : Q := {V.q(case['fmin'])}. Definition fmax : Q := {V.q(case['fmax'])}.",
         f"Definition fdata : list (Q * Q) := {fd}.",
         f"Definition coarse := freq_coarse {ev} {inp} req.",
         "Definition ob (b : bool) : Z := if b then 1 else 0.",
         "Eval vm_compute in map ob (mask_extrapolate Qle_bool fmin req).",
         "Eval vm_compute in map ob (mask_interpolate Qle_bool fmin fmax req).",
         "Eval vm_compute in map ob (mask_zero Qle_bool fmin fmax req).",
         "Eval vm_compute in map ob (mask_compute Qle_bool fmin fmax coarse).",
         "Eval vm_compute in map out_q coarse.",
         "Eval vm_compute in map out_q (freq_compute Qle_bool fmin fmax coarse).",
         f"Eval vm_compute in match interpolate (O := QOps) Qle_bool (fun x => x) "
         f"(fun _ _ _ => {SPL}%Q) (fun _ _ _ => {PCH}%Q) {V.q(1e-100)} fmin fmax {ev} {inp} req fdata "
         "with Some o => (1%Z, map out_c o) | None => (0%Z, nil) end."]
    return '\n'.join(L) + '\n'


def parse_bits(a):
    import re
    return [x == '1' for x in re.findall(r'\d', a)]


def compare_case(case, r, answers, dis, brief):
    """Model vs implementation for one case.  Returns the branch label."""
    from scipy import interpolate as spi
    me, mi, mz, mc = (parse_bits(a) for a in answers[:4])
    coarse = [float(x) for x in V.parse_pairs(answers[4])]
    comp = [float(x) for x in V.parse_pairs(answers[5])]

    def diff(what, impl, model):
        dis.append({'what': what, 'case': brief, 'impl': impl, 'model': model})
    if me != r['m_extrap']:
        i = next(k for k in range(len(me)) if me[k] != r['m_extrap'][k]) \
            if len(me) == len(r['m_extrap']) else -1
        diff('ifreq_extrapolate differs', f"index {i}: {r['m_extrap'][i] if i >= 0 else 'len'}",
             f"{me[i] if i >= 0 else 'len'} (freq {r['req'][i] if i >= 0 else ''})")
    if mi != r['m_interp']:
        i = next((k for k in range(min(len(mi), len(r['m_interp']))) if mi[k] != r['m_interp'][k]), -1)
        diff('ifreq_interpolate differs', f"index {i}", f"freq {r['req'][i] if i >= 0 else ''}")
    if mc != r['m_compute']:
        diff('ifreq_compute differs', sum(r['m_compute']), sum(mc))
    if coarse != r['coarse']:
        diff('freq_coarse differs', len(r['coarse']), len(coarse))
    if comp != r['compute']:
        diff('freq_compute differs', len(r['compute']), len(comp))
    if coarse != r['coarse'] or comp != r['compute']:
        return 'bookkeeping-differs'      # the data no longer belong to the model's frequencies
    # interpolate
    ok = answers[6].lstrip('(').startswith('1')
    if not ok:
        if r['err'] is None:
            diff('interpolate: model says error (masked assignment / empty data), '
                 'implementation returned', 'array', 'None')
        return 'error'
    if r['err'] is not None:
        if r['err'].startswith('oracle:'):
            return 'oracle-refused'
        diff('interpolate: implementation raised, model returns a spectrum', r['err'], 'Some')
        return 'error'
    vals = V.parse_cpairs(answers[6].split(',', 1)[1])
    out = r['out']
    if len(vals) != out.size:
        diff('interpolate: output length differs', out.size, len(vals))
        return 'error'
    fd = np.array([complex(a, b) for a, b in r['fdata']])
    fc = np.array(comp)
    passthrough = coarse == r['req']          # np.array_equal(freq_coarse, freq_required)
    # the oracle calls the MODEL prescribes, evaluated with scipy
    want = np.zeros(out.size, complex)
    label = 'passthrough' if passthrough else 'spline'
    fi = np.array([x for x, m in zip(r['req'], mi) if m])
    fe = np.array([x for x, m in zip(r['req'], me) if m])
    spl_vals = None
    if not passthrough and fi.size:
        S = spi.InterpolatedUnivariateSpline
        spl_vals = S(np.log(fc), fd.real)(np.log(fi)) + 1j * S(np.log(fc), fd.imag)(np.log(fi))
    ext_vals = None
    if fe.size:
        P = spi.PchipInterpolator
        fx = np.r_[1e-100, fc]
        ext_vals = (P(fx, np.r_[fd[0].real, fd.real])(fe)
                    + 1j * P(fx, np.r_[-1e-100, fd.imag])(fe))
    ki = ke = 0
    for i, (re_, im_) in enumerate(vals):
        mv = complex(float(re_), float(im_))
        if mv.real == PCH:
            want[i] = ext_vals[ke]
            ke += 1
        elif mv.real == SPL:
            want[i] = spl_vals[ki]
            ki += 1
        else:
            want[i] = mv               # zero or a datum passed through (exact)
    bad = [i for i in range(out.size) if not (out[i] == want[i]
                                              or abs(out[i] - want[i]) <= 1e-12 * max(1.0, abs(want[i])))]
    exact_bad = [i for i, (re_, im_) in enumerate(vals)
                 if float(re_) not in (PCH, SPL) and out[i] != complex(float(re_), float(im_))]
    if bad or exact_bad:
        i = (exact_bad or bad)[0]
        diff('interpolate: filled spectrum differs from the model at index ' + str(i),
             str(out[i]), f"{want[i]} (freq {r['req'][i]}, group "
             f"{'extrap' if me[i] else 'interp' if mi[i] else 'zero'})")
    return label


def correspondence_fourier(ctx, dis, hist):
    rng = ctx.rng
    n = 220 if ctx.thorough else 48
    cases, texts = [], []
    for c in range(n):
        case = complete_case(rng, gen_case(rng, ctx.thorough))
        Fo, r = run_impl(rng, case)
        cases.append((case, Fo, r))
        texts.append((f"c20_f_{c}", coq_case(case, r)))
    res = V.coq_eval_many(texts)
    distinct, samples, tem_checked = set(), [], 0
    for c, (case, Fo, r) in enumerate(cases):
        rc, out = res[f"c20_f_{c}"]
        brief = {k: case[k] for k in ('time', 'signal', 'ft', 'ftarg', 'fmin', 'fmax',
                                      'every_x_freq', 'coarse')}
        brief['n_required'] = len(r['req'])
        brief['n_input_freq'] = len(case['input_freq'] or [])
        brief['n_fdata'] = len(r['fdata'])
        if rc != 0:
            dis.append({'what': 'Coq model evaluation failed', 'case': brief, 'impl': '',
                        'model': out[-1200:]})
            continue
        answers = V.eval_answers(out)
        if len(answers) != 7:
            dis.append({'what': 'Coq model: unexpected number of answers', 'case': brief,
                        'impl': 7, 'model': len(answers)})
            continue
        try:
            label = compare_case(case, r, answers, dis, brief)
        except Exception as e:      # noqa
            dis.append({'what': 'comparison of model and implementation failed: '
                                + type(e).__name__ + ': ' + str(e)[:200],
                        'case': brief, 'impl': '', 'model': ''})
            label = 'error'
        groups = (any(r['m_extrap']), any(r['m_interp']),
                  any(not a and not b for a, b in zip(r['m_extrap'], r['m_interp'])))
        edge = case['fmin'] in r['req'] or case['fmax'] in r['req']
        key = f"{case['kind']}/{case['coarse']}/{label}"
        hist[key] = hist.get(key, 0) + 1
        hist['band edge on a required frequency'] = hist.get('band edge on a required frequency', 0) + int(edge)
        hist['malformed fdata length'] = hist.get('malformed fdata length', 0) + int(r['malformed'])
        if sum(groups) >= 2 and label != 'error':
            distinct.add((case['kind'], case['coarse'], label, groups, edge, len(r['req'])))
        if len(samples) < 3 and label in ('passthrough', 'spline'):
            samples.append(dict(brief, groups=[sum(r['m_extrap']), sum(r['m_interp']),
                                               len(r['req']) - sum(r['m_extrap']) - sum(r['m_interp'])],
                                branch=label))
        # freq2time = reference transform of the filled spectrum
        if r['out'] is not None and tem_checked < (40 if ctx.thorough else 10):
            import empymod
            fd = np.array([complex(a, b) for a, b in r['fdata']])
            off = 1000.0
            try:
                with warnings.catch_warnings():
                    warnings.simplefilter('ignore')
                    t_impl = Fo.freq2time(fd, off)
                    t_ref, _ = empymod.model.tem(r['out'][:, None], np.array(off),
                                                 freq=Fo.freq_required, time=Fo.time,
                                                 signal=Fo.signal, ft=Fo.ft, ftarg=Fo.ftarg)
                t_ref = np.squeeze(t_ref)
                tem_checked += 1
                if not np.array_equal(np.asarray(t_impl), np.asarray(t_ref), equal_nan=True):
                    dis.append({'what': 'freq2time differs from empymod.model.tem applied to '
                                        'interpolate(fdata)', 'case': brief,
                                'impl': str(np.asarray(t_impl)[:3]), 'model': str(t_ref[:3])})
            except Exception as e:      # noqa  (transform refuses the configuration)
                hist['tem refused'] = hist.get('tem refused', 0) + 1
    hist['freq2time checked'] = tem_checked
    return len(cases), len(distinct), samples



# ------------------------------------------------------------------ histories
def state_kwargs(st):
    kw = {}
    if st['every'] is not None:
        kw['every_x_freq'] = st['every']
    if st['input'] is not None:
        kw['input_freq'] = np.array(st['input'])
    return kw


def fresh_instance(st):
    """A new Fourier instance with the CURRENT parameters of a history."""
    import emg3d
    with warnings.catch_warnings():
        warnings.simplefilter('ignore')
        return emg3d.Fourier(time=np.array(st['time']), fmin=st['fmin'], fmax=st['fmax'],
                             signal=st['signal'], ft=st['ft'], ftarg=dict(st['ftarg']), verb=0,
                             **state_kwargs(st))


def pick_in_band(rng, Fo, lower):
    """A required frequency strictly inside the current band (so that lowering fmax /
    raising fmin to it leaves previously filled entries outside the new band)."""
    req = np.sort(np.asarray(Fo.freq_required, float))
    inside = req[(req > Fo.fmin) & (req < Fo.fmax)]
    if inside.size < 3:
        return None
    k = rng.randrange(1, inside.size - 1)
    return float(inside[k])


def apply_op(rng, Fo, st, kind):
    """Apply one public setter to the instance; returns the op (JSON-able) or None."""
    with warnings.catch_warnings():
        warnings.simplefilter('ignore')
        if kind == 'fmax':
            x = pick_in_band(rng, Fo, True)
            if x is None:
                return None
            Fo.fmax = x
            st['fmax'] = x
            return {'op': 'SetFmax', 'x': x}
        if kind == 'fmin':
            x = pick_in_band(rng, Fo, False)
            if x is None:
                return None
            Fo.fmin = x
            st['fmin'] = x
            return {'op': 'SetFmin', 'x': x}
        if kind == 'widen':
            req = np.asarray(Fo.freq_required, float)
            lo, hi = float(req.min()) / 3, float(req.max()) * 3
            Fo.fmin, Fo.fmax = lo, hi
            st['fmin'], st['fmax'] = lo, hi
            return [{'op': 'SetFmin', 'x': lo}, {'op': 'SetFmax', 'x': hi}]
        if kind == 'every':
            k = rng.choice([1, 2, 3])
            Fo.every_x_freq = k
            st['every'], st['input'] = k, None
            return {'op': 'SetEvery', 'k': k}
        if kind == 'input':
            m = rng.randint(6, 12)
            lo, hi = np.log10(Fo.fmin) - rng.uniform(0, 0.5), np.log10(Fo.fmax) + rng.uniform(0, 0.5)
            inp = [float(x) for x in np.logspace(lo, hi, m)]
            Fo.input_freq = np.array(inp)
            st['every'], st['input'] = None, inp
            return {'op': 'SetInput', 'l': inp}
        if kind == 'time':
            t = np.asarray(Fo.time, float)
            new = [float(x) for x in t[:-1] * rng.choice([0.5, 2.0, 1.5])] if t.size > 2 \
                else [float(x) for x in t * 2.0]
            Fo.time = np.array(new)
            st['time'] = new
            return {'op': 'SetReq', 'via': 'time', 'time': new,
                    'l': [float(x) for x in Fo.freq_required]}
        if kind == 'ftarg':
            if st['ft'] == 'fftlog':
                ftarg = dict(st['ftarg'], pts_per_dec=rng.choice([4, 6, 7]))
            else:
                ftarg = dict(st['ftarg'], dlf=rng.choice(FILTERS))
            Fo.fourier_arguments(st['ft'], dict(ftarg))
            st['ftarg'] = ftarg
            return {'op': 'SetReq', 'via': 'fourier_arguments', 'ft': st['ft'], 'ftarg': ftarg,
                    'l': [float(x) for x in Fo.freq_required]}
    return None


def run_history(rng, plan=None):
    """One history on ONE Fourier instance: interpolate; setter; interpolate; ...
    Returns dict(init, steps=[{ops, r, state}], returned arrays and their copies)."""
    case = gen_case(rng)
    Fo0 = make_fourier(case)
    req = np.asarray(Fo0.freq_required, float)
    case['fmin'], case['fmax'] = float(req.min()) / 3, float(req.max()) * 3     # wide band first
    case['every_x_freq'], case['input_freq'], case['coarse'] = None, None, 'none'
    st = dict(time=case['time'], fmin=case['fmin'], fmax=case['fmax'], signal=case['signal'],
              ft=case['ft'], ftarg=dict(case['ftarg']), every=None, input=None)
    Fo = build(case)
    init = dict(st, req=[float(x) for x in Fo.freq_required])
    steps = [dict(ops=[], r=observe_instance(rng, Fo, False), state=dict(st))]
    kinds = plan or [rng.choice(['fmax', 'fmax', 'fmin', 'every', 'input', 'time', 'ftarg',
                                 'widen']) for _ in range(rng.randint(2, 4))]
    for kind in kinds:
        op = apply_op(rng, Fo, st, kind)
        if op is None:
            continue
        ops = op if isinstance(op, list) else [op]
        steps.append(dict(ops=ops, r=observe_instance(rng, Fo, False), state=dict(st)))
    return dict(init=init, steps=steps, Fo=Fo, kinds=kinds)


def coq_history(h):
    """The same history in the Coq model: state after each prefix of the op list."""
    init = h['init']
    L = [K.CASE_HEADER, "From V Require Import Model.Fourier.",
         "Definition ob (b : bool) : Z := if b then 1 else 0.",
         "Definition on (o : option nat) : Z := match o with Some k => Z.of_nat k | None => (-1)%Z end.",
         "Definition ol (o : option (list Q)) : Z := match o with Some l => Z.of_nat (List.length l) | None => (-1)%Z end.",
         f"Definition s0 : @fstate Q := finit {V.q(init['fmin'])} {V.q(init['fmax'])} None None "
         f"{qlist(init['req'])}."]
    allops = []
    for k, stp in enumerate(h['steps']):
        for o in stp['ops']:
            if o['op'] in ('SetFmin', 'SetFmax'):
                allops.append(f"{o['op']} {V.q(o['x'])}")
            elif o['op'] == 'SetEvery':
                allops.append(f"SetEvery (Some {int(o['k'])}%nat)")
            elif o['op'] == 'SetInput':
                allops.append(f"SetInput (Some {qlist(o['l'])})")
            else:
                allops.append(f"SetReq {qlist(o['l'])}")
        fd = '[' + '; '.join(f"({V.q(a)}, {V.q(b)})" for a, b in stp['r']['fdata']) + ']'
        L.append(f"Definition s{k}_ : @fstate Q := frun s0 [{'; '.join(allops)}].")
        s_ = f"s{k}_"
        L += [f"Definition coarse{k} := freq_coarse (s_every {s_}) (s_inp {s_}) (s_req {s_}).",
              f"Eval vm_compute in (on (s_every {s_}), ol (s_inp {s_}), Z.of_nat (List.length (s_req {s_}))).",
              f"Eval vm_compute in map ob (mask_extrapolate Qle_bool (s_fmin {s_}) (s_req {s_})).",
              f"Eval vm_compute in map ob (mask_interpolate Qle_bool (s_fmin {s_}) (s_fmax {s_}) (s_req {s_})).",
              f"Eval vm_compute in map ob (mask_zero Qle_bool (s_fmin {s_}) (s_fmax {s_}) (s_req {s_})).",
              f"Eval vm_compute in map ob (mask_compute Qle_bool (s_fmin {s_}) (s_fmax {s_}) coarse{k}).",
              f"Eval vm_compute in map out_q coarse{k}.",
              f"Eval vm_compute in map out_q (freq_compute Qle_bool (s_fmin {s_}) (s_fmax {s_}) coarse{k}).",
              f"Eval vm_compute in match interpolate_state (O := QOps) Qle_bool (fun x => x) "
              f"(fun _ _ _ => {SPL}%Q) (fun _ _ _ => {PCH}%Q) {V.q(1e-100)} {s_} {fd} "
              "with Some o => (1%Z, map out_c o) | None => (0%Z, nil) end."]
    return '\n'.join(L) + '\n'


def history_brief(h):
    return dict(init={k: h['init'][k] for k in ('time', 'fmin', 'fmax', 'signal', 'ft', 'ftarg')},
                history=[[{k: (v if k != 'l' else f"<{len(v)} frequencies>") for k, v in o.items()}
                          for o in stp['ops']] + ['interpolate'] for stp in h['steps']])


def history_property(h):
    """Independent of the Coq model: every answer equals that of a FRESH instance with
    the current parameters; arrays returned earlier are not modified / shared."""
    bad = []
    for k, stp in enumerate(h['steps']):
        r = stp['r']
        Ff = fresh_instance(stp['state'])
        if not np.array_equal(np.asarray(Ff.freq_required), np.array(r['req'])):
            bad.append(f"step {k}: freq_required differs from a fresh instance")
            continue
        if r['out'] is None:
            continue
        fd = np.array([complex(a, b) for a, b in r['fdata']])
        try:
            with warnings.catch_warnings():
                warnings.simplefilter('ignore')
                want = Ff.interpolate(fd)
        except Exception:      # noqa
            continue
        if not np.array_equal(r['out_copy'], want):
            i = int(np.flatnonzero(r['out_copy'] != want)[0])
            bad.append(f"step {k}: interpolate differs from a fresh instance with the current "
                       f"parameters at index {i} (freq {r['req'][i]!r}, fmax {stp['state']['fmax']!r}): "
                       f"{r['out_copy'][i]} vs {want[i]}")
    outs = [(k, s['r']) for k, s in enumerate(h['steps']) if s['r']['out'] is not None]
    for k, r in outs:
        if not np.array_equal(r['out'], r['out_copy']):
            bad.append(f"array returned by interpolate() at step {k} was modified by a later call")
    for a in range(len(outs)):
        for b in range(a + 1, len(outs)):
            if np.shares_memory(outs[a][1]['out'], outs[b][1]['out']):
                bad.append(f"interpolate() at steps {outs[a][0]} and {outs[b][0]} returned arrays "
                           "sharing memory")
    return bad


def correspondence_history(ctx, dis, hist):
    rng = ctx.rng
    n = 40 if ctx.thorough else 10
    hs = []
    # deterministic first history: wide band; lower fmax; (raise fmin)
    plans = [['fmax'], ['fmin', 'fmax'], ['fmax', 'widen', 'every']]
    for c in range(n):
        hs.append(run_history(rng, plans[c] if c < len(plans) else None))
    res = V.coq_eval_many([(f"c20_h_{c}", coq_history(h)) for c, h in enumerate(hs)])
    nsteps, distinct = 0, set()
    for c, h in enumerate(hs):
        brief = history_brief(h)
        for b in history_property(h):
            dis.append({'what': 'history on one Fourier instance: ' + b,
                        'signature': HISTORY_HIT, 'case': brief, 'impl': b,
                        'model': 'answer of the current parameters only; returned arrays are fresh'})
        rc, out = res[f"c20_h_{c}"]
        if rc != 0:
            dis.append({'what': 'Coq history model evaluation failed', 'case': brief, 'impl': '',
                        'model': out[-1200:]})
            continue
        answers = V.eval_answers(out)
        if len(answers) != 8 * len(h['steps']):
            dis.append({'what': 'Coq history model: unexpected number of answers', 'case': brief,
                        'impl': 8 * len(h['steps']), 'model': len(answers)})
            continue
        for k, stp in enumerate(h['steps']):
            r = stp['r']
            a = answers[8 * k: 8 * k + 8]
            import re
            ev, ni, nr = (int(x) for x in re.findall(r'-?\d+', a[0]))
            impl_state = (-1 if r['every'] is None else int(r['every']),
                          len(stp['state']['input']) if r['has_input'] else -1, len(r['req']))
            if (ev, ni, nr) != impl_state:
                dis.append({'what': f'history step {k}: coarse options / number of required '
                                    'frequencies differ from the model state',
                            'case': brief, 'impl': impl_state, 'model': (ev, ni, nr)})
                continue
            rr = dict(r, out=r['out_copy'] if r['out'] is not None else None)
            try:
                compare_case({}, rr, a[1:], dis, dict(brief, step=k))
            except Exception as e:      # noqa
                dis.append({'what': 'history comparison failed: ' + type(e).__name__ + ': '
                                    + str(e)[:200], 'case': brief, 'impl': '', 'model': ''})
            nsteps += 1
        distinct.add(tuple(o['op'] for stp in h['steps'] for o in stp['ops']))
        for stp in h['steps']:
            for o in stp['ops']:
                hist['history op ' + o['op']] = hist.get('history op ' + o['op'], 0) + 1
    hist['history interpolate calls'] = nsteps
    return len(hs), len(distinct), nsteps


# --------------------------------------------- user inputs and creation history
def _same_obj(a, b):
    """Deep equality of user inputs (dicts of scalars / lists / arrays, arrays)."""
    if isinstance(a, dict) and isinstance(b, dict):
        return list(a.keys()) == list(b.keys()) and all(_same_obj(a[k], b[k]) for k in a)
    if isinstance(a, np.ndarray) or isinstance(b, np.ndarray):
        return isinstance(a, np.ndarray) and isinstance(b, np.ndarray) and \
            a.dtype == b.dtype and np.array_equal(a, b)
    return type(a) is type(b) and a == b


def _kind_of(Fo):
    k = Fo.ftarg.get('kind') if isinstance(Fo.ftarg, dict) else None
    return k


def _filter_name(Fo):
    f = Fo.ftarg.get('dlf') if isinstance(Fo.ftarg, dict) else None
    return getattr(f, 'name', f)


ALIAS_PLANS = [            # (ft, user ftarg, signals of the instances created in this order)
    ('dlf', {'pts_per_dec': -1}, [-1, 0]),
    ('dlf', {'dlf': 'key_81_2009', 'pts_per_dec': -1}, [-1, 0, 1]),
    ('dlf', {}, [0, -1, 0]),
    ('fftlog', {'pts_per_dec': 5, 'add_dec': [-2, 1], 'q': 0}, [1, -1]),
    ('dlf', {'pts_per_dec': 10}, [1, 0, -1]),
]


def run_alias_plan(rng, ft, user_ftarg, signals, via_setter=False):
    """Several Fourier instances created, in this order, from ONE set of user objects
    (ftarg dict, time array, input_freq array).  Returns list of problems."""
    import copy
    import emg3d
    t_user = np.logspace(-1, 1, 4) * (1 + rng.randint(0, 3) / 4)
    inp_user = np.logspace(-2, 1.5, 9) if rng.random() < 0.5 else None
    ftarg_user = copy.deepcopy(user_ftarg)
    keep = dict(ftarg=copy.deepcopy(ftarg_user), time=t_user.copy(),
                inp=None if inp_user is None else inp_user.copy())
    bad, insts = [], []
    fmin, fmax = 0.02, 20.0
    with warnings.catch_warnings():
        warnings.simplefilter('ignore')
        for j, sig in enumerate(signals):
            kw = {} if inp_user is None else {'input_freq': inp_user}
            if via_setter and j > 0:
                Fo = emg3d.Fourier(t_user, fmin, fmax, signal=sig, ft=ft, verb=0, **kw)
                Fo.fourier_arguments(ft, ftarg_user)
            else:
                Fo = emg3d.Fourier(t_user, fmin, fmax, signal=sig, ft=ft, ftarg=ftarg_user,
                                   verb=0, **kw)
            insts.append((sig, Fo))
        fd_cache = {}
        for j, (sig, Fo) in enumerate(insts):
            fresh = emg3d.Fourier(keep['time'].copy(), fmin, fmax, signal=sig, ft=ft,
                                  ftarg=copy.deepcopy(keep['ftarg']), verb=0,
                                  **({} if keep['inp'] is None
                                     else {'input_freq': keep['inp'].copy()}))
            tag = f"instance {j} (signal={sig})"
            if not np.array_equal(Fo.freq_required, fresh.freq_required):
                bad.append(tag + ': freq_required differs from an instance created from fresh '
                                 'copies of the same inputs')
                continue
            if ft == 'dlf' and (_kind_of(Fo), _filter_name(Fo)) != (_kind_of(fresh),
                                                                    _filter_name(fresh)):
                bad.append(f"{tag}: uses filter kind {(_kind_of(Fo), _filter_name(Fo))}, an "
                           f"instance of its own setting uses {(_kind_of(fresh), _filter_name(fresh))}")
            fc = Fo.freq_compute
            fdata = 1.0 / (1.0 + 1j * np.asarray(fresh.freq_compute))
            try:
                a = np.asarray(Fo.freq2time(fdata, 900.0))
                b = np.asarray(fresh.freq2time(fdata.copy(), 900.0))
                if not np.array_equal(a, b, equal_nan=True):
                    bad.append(f"{tag}: freq2time differs from the reference transform of its "
                               f"own setting: {a[:2]} vs {b[:2]}")
            except Exception as e:      # noqa
                bad.append(f"{tag}: freq2time raised {type(e).__name__}: {str(e)[:120]}")
    if not _same_obj(ftarg_user, keep['ftarg']):
        bad.append(f"the user's ftarg dict was modified: {ftarg_user!r:.200} (was {keep['ftarg']!r})")
    if not np.array_equal(t_user, keep['time']):
        bad.append("the user's time array was modified")
    if inp_user is not None and not np.array_equal(inp_user, keep['inp']):
        bad.append("the user's input_freq array was modified")
    kinds = [(sig, _kind_of(Fo)) for sig, Fo in insts] if ft == 'dlf' else []
    return bad, kinds


def alias_brief(ft, user_ftarg, signals, via_setter):
    return dict(ft=ft, ftarg=user_ftarg, signals_in_creation_order=signals,
                second_via_fourier_arguments=via_setter,
                time='logspace(-1,1,4)*c', fmin=0.02, fmax=20.0)


def correspondence_aliasing(ctx, dis, hist):
    rng = ctx.rng
    plans = [(ft, fa, sg, False) for ft, fa, sg in ALIAS_PLANS]
    plans += [(ft, fa, sg, True) for ft, fa, sg in ALIAS_PLANS[:2]]
    for _ in range(12 if ctx.thorough else 2):
        ft = rng.choice(['dlf', 'dlf', 'fftlog'])
        fa = ({'pts_per_dec': rng.choice([-1, 5, 10])} if ft == 'dlf'
              else {'pts_per_dec': rng.choice([4, 6]), 'add_dec': [-2, 1], 'q': 0})
        if ft == 'dlf' and rng.random() < 0.5:
            fa['dlf'] = rng.choice(FILTERS)
        plans.append((ft, fa, [rng.choice([-1, 0, 1]) for _ in range(rng.randint(2, 3))],
                      rng.random() < 0.3))
    all_kinds, n = [], 0
    for ft, fa, sg, vs in plans:
        bad, kinds = run_alias_plan(rng, ft, fa, sg, vs)
        n += len(sg)
        all_kinds += [(s_, k, alias_brief(ft, fa, sg, vs)) for s_, k in kinds]
        for b in bad:
            dis.append({'what': 'user inputs / creation history: ' + b, 'signature': ALIAS_HIT,
                        'case': alias_brief(ft, fa, sg, vs), 'impl': b,
                        'model': 'inputs untouched; every instance = instance of its own setting'})
    # the sine / cosine choice against the Coq model of each instance's own setting
    if all_kinds:
        txt = (K.CASE_HEADER + "From V Require Import Model.Fourier.\n"
               "Eval vm_compute in map (fun s => trig_code (dlf_kind s None)) ["
               + '; '.join(f"({s_})%Z" for s_, _, _ in all_kinds) + "].\n")
        rc, out = V.coq_eval('c20_kind', txt)
        if rc != 0:
            dis.append({'what': 'dlf_kind model evaluation failed', 'case': {}, 'impl': '',
                        'model': out[-800:]})
        else:
            import re
            codes = [int(x) for x in re.findall(r'-?\d+', V.eval_answers(out)[0])]
            for (s_, k, br), c in zip(all_kinds, codes):
                if k != ('sin', 'cos')[c]:
                    dis.append({'what': "DLF 'kind' of an instance differs from dlf_kind of its "
                                        'own setting', 'signature': ALIAS_HIT, 'case': br,
                                'impl': f"signal {s_}: {k}", 'model': ('sin', 'cos')[c]})
    hist['alias: instances'] = n
    hist['alias: plans'] = len(plans)
    return n, len(plans)


# --------------------------------------------- PCHIP first interval vs scipy
def correspondence_pchip(ctx, dis, hist):
    from scipy.interpolate import PchipInterpolator
    rng = ctx.rng
    n = 160 if ctx.thorough else 40
    items, lines = [], [K.CASE_HEADER, "From V Require Import Model.Fourier."]
    for c in range(n):
        two = rng.random() < 0.15
        xs = sorted({K.dy_pos(rng, bits=4) for _ in range(8)})[: (2 if two else rng.choice([3, 4, 5]))]
        if len(xs) < (2 if two else 3):
            continue
        flat = rng.random() < 0.3
        ys = [K.dy(rng, bits=3) for _ in xs]
        if flat:
            ys[1] = ys[0]
        style = rng.random()
        if style < 0.3:                 # monotone data (the C20 imaginary-part situation)
            ys = sorted(ys) if rng.random() < 0.5 else sorted(ys, reverse=True)
        qs = [xs[0] + (xs[1] - xs[0]) * k / 8 for k in range(9)]
        items.append((xs, ys, qs, two))
        for x in qs:
            if two:
                lines.append(f"Eval vm_compute in out_q (pchip_two (O := QOps) {V.q(xs[0])} {V.q(xs[1])} "
                             f"{V.q(ys[0])} {V.q(ys[1])} {V.q(x)}).")
            else:
                lines.append(f"Eval vm_compute in out_q (pchip_first (O := QOps) Qle_bool {V.q(xs[0])} "
                             f"{V.q(xs[1])} {V.q(xs[2])} {V.q(ys[0])} {V.q(ys[1])} {V.q(ys[2])} "
                             f"{V.q(x)}).")
    rc, out = V.coq_eval('c20_pchip', '\n'.join(lines) + '\n')
    if rc != 0:
        dis.append({'what': 'PCHIP model evaluation failed', 'case': {}, 'impl': '',
                    'model': out[-1200:]})
        return 0, 0
    ans = V.eval_answers(out)
    k = 0
    box_bad = 0
    for xs, ys, qs, two in items:
        P = PchipInterpolator(np.array(xs), np.array(ys))
        for x in qs:
            m = float(V.parse_pairs(ans[k])[0])
            k += 1
            s = float(P(x))
            if abs(s - m) > 1e-9 * max(1.0, abs(m)):
                dis.append({'what': 'first-interval PCHIP model differs from scipy',
                            'case': {'x': xs, 'y': ys, 'at': x}, 'impl': s, 'model': m})
                break
        # Fritsch-Carlson box of the slopes scipy uses (hypothesis of the partial theorem)
        h = xs[1] - xs[0]
        delta = ys[1] - ys[0]
        d = P.derivative()
        d0, d1 = float(d(xs[0])), float(d(xs[1]))
        for dd in (d0, d1):
            lo, hi = sorted([0.0, 3 * delta / h])
            if not (lo - 1e-9 * (1 + abs(hi)) <= dd <= hi + 1e-9 * (1 + abs(hi))):
                box_bad += 1
                dis.append({'what': 'scipy PCHIP slope outside the Fritsch-Carlson box '
                                    '(hypothesis of extrap_imag_monotone_partial)',
                            'case': {'x': xs, 'y': ys}, 'impl': [d0, d1], 'model': [lo, hi]})
                break
    hist['pchip first-interval evaluations'] = k
    hist['pchip knot sets'] = len(items)
    return len(items), sum(1 for it in items if it[1][0] != it[1][1])


def probe_standard_dlf():
    """Documented option ftarg={'pts_per_dec': 0} (standard DLF): freq_required is
    2-D (ntime x nfilter) and interpolate() cannot index its 1-D output."""
    import emg3d
    with warnings.catch_warnings():
        warnings.simplefilter('ignore')
        Fo = emg3d.Fourier(np.array([0.1, 1.0]), 0.01, 10.0, ft='dlf',
                           ftarg={'dlf': 'key_81_2009', 'pts_per_dec': 0}, verb=0)
        try:
            Fo.interpolate(np.ones(Fo.freq_compute.size, complex))
            return f"freq_required.shape={Fo.freq_required.shape}: interpolate returned"
        except Exception as e:      # noqa
            return (f"freq_required.shape={Fo.freq_required.shape}: interpolate raises "
                    f"{type(e).__name__}")


def correspondence(ctx):
    dis, hist = [], {}
    try:
        ctx.notes.append('observation (outside the 1-D model): standard DLF pts_per_dec=0: '
                         + probe_standard_dlf())
    except Exception as e:      # noqa
        ctx.notes.append('standard DLF probe crashed: ' + repr(e))
    n1, d1, samples = correspondence_fourier(ctx, dis, hist)
    n2, d2 = correspondence_pchip(ctx, dis, hist)
    n3, d3, nsteps = correspondence_history(ctx, dis, hist)
    n4, d4 = correspondence_aliasing(ctx, dis, hist)
    return {
        'evaluations': n1 + n2 + nsteps + n4,
        'distinct_nontrivial': d1 + d2 + d3 + d4,
        'rule': ("Fourier cases: random log-spaced time vector (2..6 times), signal in {-1,0,1}, "
                 "transform in {dlf lagged, dlf splined, fftlog} with 3 filters / "
                 "random fftlog arguments, band edges either exactly on a required frequency (50%) "
                 "or log-uniform around the required range, coarse option in {none, every_x_freq in "
                 "{1,2,3,5,7}, input_freq (4..12 values), input_freq of the same length as "
                 "freq_required, both}; random pairwise-distinct dyadic complex data for "
                 "freq_compute, 12% with a wrong length (malformed stream). The Coq model (on exact "
                 "rationals of the very floats) yields masks, freq_coarse, freq_compute and the "
                 "filled spectrum with oracle markers; markers are replaced by the scipy calls the "
                 "model prescribes and the result compared with Fourier.interpolate (exact for "
                 "pass-through and zeros, 1e-12 for oracle values). distinct non-trivial = distinct "
                 "(transform kind, coarse option, branch, non-empty groups, edge-on-frequency, "
                 "n_required) with at least two non-empty groups. PCHIP cases: 2..5 dyadic knots, "
                 "30% with equal first values, 30% monotone; model pchip_first / pchip_two at 9 "
                 "points of the first interval vs scipy (1e-9); scipy end slopes checked to lie in "
                 "the Fritsch-Carlson box. Histories on ONE instance: wide band, interpolate, then "
                 "2-4 public setters (fmax lowered / fmin raised to a required frequency inside the "
                 "band, band widened, every_x_freq, input_freq, time, fourier_arguments), "
                 "interpolate after each; the first three histories are fixed (lower fmax; raise "
                 "fmin then lower fmax; lower, widen, every_x_freq). Every answer is compared with "
                 "the Coq state machine (frun over the same op list) and with a FRESH instance of "
                 "the current parameters (bitwise); arrays returned earlier must be unmodified and "
                 "must not share memory with later ones. User inputs / creation history: 2-3 "
                 "instances created in a given order (signals from {-1,0,1}) from ONE user ftarg "
                 "dict, time array and input_freq array (5 fixed plans, 2 with the later instances "
                 "configured through fourier_arguments, plus random ones): the user objects must be "
                 "unchanged; every instance must equal (freq_required, filter and kind, freq2time "
                 "bitwise) an instance created from fresh copies with its own setting; its DLF "
                 "'kind' is compared with dlf_kind of the Coq model."),
        'samples': samples,
        'traces_validated_against_impl': n1 + n2 + n3,
        'histogram': hist,
        'disagreements': dis,
    }


# ------------------------------------------------------------------ searcher
def property_on_case(rng, case):
    """The property itself, stated with numpy only.  Returns a hit or None."""
    Fo, r = run_impl(rng, case)
    req = np.array(r['req'])
    fmin, fmax = case['fmin'], case['fmax']
    e, m = np.array(r['m_extrap']), np.array(r['m_interp'])
    below, within, above = req < fmin, (req >= fmin) & (req <= fmax), req > fmax
    base = dict(kind='fourier', case={k: case[k] for k in (
        'time', 'signal', 'ft', 'ftarg', 'fmin', 'fmax', 'every_x_freq', 'input_freq', 'kind',
        'coarse')})
    if (e & m).any() or not np.array_equal(e, below) or not np.array_equal(m, within):
        i = int(np.flatnonzero((e != below) | (m != within) | (e & m))[0])
        return dict(base, signature='required frequency in the wrong group / in two groups',
                    observed=f"freq {req[i]!r}: extrapolate={bool(e[i])} interpolate={bool(m[i])}",
                    required=f"below={bool(below[i])} within={bool(within[i])} above={bool(above[i])}")
    comp = np.array(r['compute'])
    if ((comp < fmin) | (comp > fmax)).any():
        return dict(base, signature='computed frequency outside the band',
                    observed=str(comp[(comp < fmin) | (comp > fmax)][:3]), required=f"[{fmin}, {fmax}]")
    if r['out'] is None or r['malformed']:
        return None
    out = r['out']
    fd = np.array([complex(a, b) for a, b in r['fdata']])
    if (out[above] != 0).any():
        return dict(base, signature='non-zero value above fmax',
                    observed=str(out[above][:3]), required='0j')
    coarse = np.array(r['coarse'])
    if not np.array_equal(coarse, req) and within.any() and fd.size >= 4:
        from scipy.interpolate import InterpolatedUnivariateSpline as S
        want = (S(np.log(comp), fd.real)(np.log(req[within]))
                + 1j * S(np.log(comp), fd.imag)(np.log(req[within])))
        if np.max(np.abs(out[within] - want)) > 1e-7 * max(1.0, np.max(np.abs(want))):
            return dict(base, signature=SAMELEN_HIT,
                        observed=str(out[within][:3]), required=str(want[:3]))
    if np.array_equal(coarse, req):
        if not np.array_equal(out[within], fd) or not np.array_equal(req[within], comp):
            return dict(base, signature='data not passed through unchanged at coinciding frequencies',
                        observed=str(out[within][:3]), required=str(fd[:3]))
    if below.any() and fd.size >= 2:
        ex = out[below]
        if np.max(np.abs(ex.real - fd[0].real)) > 1e-7 * max(1.0, abs(fd[0].real)):
            return dict(base, signature='extrapolated real part is not the lowest computed value',
                        observed=str(ex.real[:3]), required=repr(fd[0].real))
        order = np.argsort(req[below])
        im = ex.imag[order]
        tol = 1e-9 * max(1.0, abs(fd[0].imag))
        if (np.diff(np.abs(im)) < -tol).any() or np.max(np.abs(im)) > abs(fd[0].imag) + tol:
            return dict(base, signature='extrapolated imaginary part is not monotone towards zero',
                        observed=str(im[:5]), required=f"|imag| nondecreasing up to {abs(fd[0].imag)}")
    return None


def search(ctx, broken):
    rng = ctx.rng
    n = 150 if ctx.thorough else 60
    # the witness of interpolate_unfixed_same_length_misplaces on the implementation
    try:
        d = same_length_demo()
        if d and d['placed_unchanged'] and d['max_rel_error_vs_smooth_truth'] > 1e-3:
            return [dict(kind='same_length_input_freq', signature=SAMELEN_HIT, **d,
                         input="time=logspace(-1,1,5), fmin=0.01, fmax=10, ft='fftlog', "
                               "ftarg={'pts_per_dec':5,'add_dec':[-1,1],'q':0}, "
                               "input_freq=1.3*freq_required, fdata=1/(1+1j*freq_compute)",
                         observed="interpolate(fdata)[ifreq_interpolate] == fdata (data computed "
                                  f"at {d['freq_compute_0']:.5g} Hz ... written at "
                                  f"{d['freq_interpolate_0']:.5g} Hz ...), rel. error "
                                  f"{d['max_rel_error_vs_smooth_truth']:.3g}",
                         required="spline interpolation from freq_compute to freq_interpolate "
                                  "(freq_coarse differs from freq_required)")]
    except Exception as e:      # noqa
        ctx.notes.append('same-length probe crashed: ' + repr(e))
    # user inputs / creation history (deterministic plans)
    for ft, fa, sg in ALIAS_PLANS:
        for vs in (False, True):
            bad, _k = run_alias_plan(rng, ft, fa, sg, vs)
            if bad:
                return [dict(kind='alias', signature=ALIAS_HIT, **alias_brief(ft, fa, sg, vs),
                             observed='; '.join(bad[:4]),
                             required="the user's ftarg / time / input_freq objects are unchanged; "
                                      'every instance equals an instance created from fresh copies '
                                      'with its own signal (freq2time = reference transform of its '
                                      'own setting)')]
    # histories on one instance (deterministic first: lower fmax after a wide band)
    for c, plan in enumerate([['fmax'], ['fmin', 'fmax'], ['fmax', 'widen', 'every']]
                             + [None] * (12 if ctx.thorough else 4)):
        hh = run_history(rng, plan)
        bad = history_property(hh)
        if bad:
            return [dict(kind='history', signature=HISTORY_HIT, **history_brief(hh),
                         observed='; '.join(bad[:4]),
                         required='every interpolate() equals that of a fresh instance with the '
                                  'current parameters; returned arrays are not modified later')]
    for _ in range(n):
        case = complete_case(rng, gen_case(rng))
        h = property_on_case(rng, case)
        if h:
            return [h]
    ctx.notes.append(f"searcher: {n} generated Fourier configurations, property stated with numpy")
    return []


def replay(ctx, payload):
    fi = payload.get('failing_input')
    if fi and fi.get('kind') == 'alias':
        bad, _k = run_alias_plan(ctx.rng, fi['ft'], fi['ftarg'], fi['signals_in_creation_order'],
                                 fi['second_via_fourier_arguments'])
        return not bad
    if fi and fi.get('kind') == 'history':
        for plan in (['fmax'], ['fmin', 'fmax'], ['fmax', 'widen', 'every']):
            if history_property(run_history(ctx.rng, plan)):
                return False
        return True
    if fi and fi.get('kind') == 'same_length_input_freq':
        d = same_length_demo()
        return not (d and d['placed_unchanged'])
    if not fi or fi.get('kind') != 'fourier':
        return False
    return property_on_case(ctx.rng, fi['case']) is None


# ---- observation: pass-through chosen by length only ------------------------
SAMELEN_SIG = "C20: interpolate() selects pass-through by len(freq_coarse) == len(freq_required)"  # historical
ALIAS_HIT = "result depends on the creation history / user inputs are modified"
HISTORY_HIT = "interpolate() depends on the history of the Fourier instance"
SAMELEN_HIT = "data passed through at required frequencies they were not computed for"


def same_length_demo():
    """input_freq with as many entries as freq_required, same in-band count,
    different frequencies: the data are written unchanged at required
    frequencies they were not computed for (no interpolation, no error)."""
    import emg3d
    time = np.logspace(-1, 1, 5)
    with warnings.catch_warnings():
        warnings.simplefilter('ignore')
        F0 = emg3d.Fourier(time, 0.01, 10.0, ft='fftlog',
                           ftarg={'pts_per_dec': 5, 'add_dec': [-1, 1], 'q': 0}, verb=0)
        req = F0.freq_required
        n = req.size
        inp = req * 1.3                       # same length, every frequency shifted by 30 %
        F1 = emg3d.Fourier(time, 0.01, 10.0, ft='fftlog',
                           ftarg={'pts_per_dec': 5, 'add_dec': [-1, 1], 'q': 0},
                           input_freq=inp, verb=0)
        fc = F1.freq_compute
        fdata = 1.0 / (1.0 + 1j * fc)          # a smooth spectrum sampled at freq_compute
        if F1.freq_interpolate.size != fc.size:
            return None
        out = F1.interpolate(fdata)
    fi = F1.freq_interpolate
    truth = 1.0 / (1.0 + 1j * fi)
    placed_unchanged = np.array_equal(out[F1.ifreq_interpolate], fdata)
    err = float(np.max(np.abs(out[F1.ifreq_interpolate] - truth) / np.abs(truth)))
    return dict(n_required=int(n), n_compute=int(fc.size), placed_unchanged=bool(placed_unchanged),
                max_rel_error_vs_smooth_truth=err,
                freq_compute_0=float(fc[0]), freq_interpolate_0=float(fi[0]))


def known_checks(ctx):
    """Repaired defect (fix: pass-through only when freq_coarse equals freq_required):
    nothing is listed any more; a reproduction is a violation reported by search()."""
    return []
