"""C18 -- the command-line interface is equivalent to the Python API for every option.

(G) Gen/CliTable.v is rewritten on every run from the CURRENT sources by
    vlib/clitab.py (parser.py, main.py, run.py via ast; cli.rst; API signatures
    via inspect + the explicit key lists inside emg3d).
(H) Model/Cli.v interprets these tables (`parse`, `run`); theorems in
    Proofs/Cli.v, statements in Props/C18.v.
Tie: correspondence of emg3d.cli.parser.parse_config_file and of the call
    sequence of emg3d.cli.run.simulation against the Coq model on generated
    configuration files + terminal dictionaries; end-to-end runs of
    emg3d.cli.main.main against the equivalent API calls (sample in the quick
    tier, every documented key + combinations in the searcher).
"""
import configparser
import contextlib
import fractions
import io as _io
import json
import math
import os
import shutil
import sys
import tempfile
import warnings

from vlib import core as V
from vlib import clitab
from vlib import coqterm

ID = 'C18'
LEVEL_TEXT = (
    "Theorems (Props/C18.v) about the option tables regenerated from the current sources and the "
    "hand model interpreting them: every documented key is parsed with the documented type, every "
    "key the parser can emit is accepted by the API function it is routed to (after the key "
    "translations run.py applies), every documented terminal flag exists and is consumed, every "
    "section rejects unknown keys; for ALL configurations and terminal dictionaries: a terminal "
    "argument overrides the file, an unknown key makes parsing fail, the stored value is the typed "
    "reading of the text, the call sequence of each function is the reference API sequence, a dry "
    "run computes nothing, every parsed simulation option reaches the Simulation constructor, a "
    "section holding only unknown options raises the TypeError of that section (no documented "
    "option of the section needs to be present), the API calls of a run do not depend on the "
    "names/formats of the files. "
    "Finite tables are decided by vm_compute (bound = the regenerated tables, 57 parser entries / "
    "58 documented keys on the pinned tree); the generic statements are proved for all tables.")
LEVEL_NOTE = (
    "Trusted: the table extractor (vlib/clitab.py) and its reading of parser.py/run.py shapes "
    "(fails closed; its result is additionally exercised because the model that interprets the "
    "tables is compared with parse_config_file on generated files); configparser, argparse, "
    "os.path.abspath, h5py/npz/json I/O are oracles. 'Same data, misfit and gradient as the "
    "equivalent API calls' rests on correspondence: mocked call-sequence comparison plus real "
    "end-to-end runs on a 4^3 problem compared exactly; that the result does not depend on the "
    "format (h5/npz/json) of the survey and model files rests on the deterministic end-to-end "
    "product (format x gridding values, [data] selections, layered): the objects io.load returns "
    "are opaque to the model. The extractor accepts an unknown-key rejection only when it is "
    "executed unconditionally within its section (fails closed otherwise). Python's '_' digit "
    "separators and "
    "configparser interpolation ('%') are not modelled. Unknown SECTIONS are silently ignored by "
    "the implementation (observation, see docs/C18.md).")
TECHNIQUE = ("Coq proof (vm_compute over regenerated finite tables + generic proofs about a "
             "table-interpreting model) + differential correspondence (vm_compute)")
DESIGN_REF = "DESIGN.md section 6 C18"
PROPS = 'Props/C18.v'
GEN = []
TRUSTED = ["vlib/clitab.py: extraction of the option tables from parser.py/main.py/run.py/cli.rst "
           "and of the accepted keyword sets (inspect.signature + explicit key lists)",
           "configparser / argparse / os.path (oracles of the model)"]
ASSUMES = ["random noise: CLI and API runs are compared under the same seeded numpy Generator",
           "end-to-end equivalence is checked on a 4^3 model with 2 sources x 3 receivers x 2 "
           "frequencies; exact comparison (same process, same kernels)"]


# ================================================================ PREBUILD
def gen_cli_table(ctx):
    """Rewrite coq/Gen/CliTable.v from the current sources (fail closed)."""
    T = clitab.tables(V.REPO)
    text = clitab.coq_text(T)
    p = os.path.join(V.COQ, 'Gen', 'CliTable.v')
    os.makedirs(os.path.dirname(p), exist_ok=True)
    old = open(p).read() if os.path.exists(p) else None
    if old != text:
        with open(p, 'w') as f:
            f.write(text)
    ctx.c18_tables = T
    try:                                  # last good tables, for the fallback below
        os.makedirs(os.path.join(V.COQ, 'Corr'), exist_ok=True)
        with open(_tables_cache(), 'w') as f:
            json.dump(T, f)
    except OSError:
        pass


PREBUILD = [gen_cli_table]


def _tables_cache():
    return os.path.join(V.COQ, 'Corr', 'c18_tables_last_good.json')


def _tables(ctx):
    """Tables of the current sources.  When the extractor fails closed (the check
    is already failing then) fall back to the last good tables -- the ones
    Gen/CliTable.v still holds -- so that the correspondences and the searcher
    can still turn the change into a concrete failing input."""
    if not hasattr(ctx, 'c18_tables'):
        try:
            ctx.c18_tables = clitab.tables(V.REPO)
        except Exception as ex:
            if not os.path.exists(_tables_cache()):
                raise
            with open(_tables_cache()) as f:
                ctx.c18_tables = json.load(f)
            ctx.notes.append('table extraction failed (' + repr(ex)[:200] + '); correspondences and '
                             'searcher use the last good tables (those of the stale Gen/CliTable.v)')
    return ctx.c18_tables


# ============================================================== generators
BOOL_TXT = ['True', 'False', 'true', 'false', 'yes', 'no', 'on', 'off', '1', '0', 'TRUE', 'No']
BOOL_BAD = ['maybe', '2', 'tru', '']
INT_TXT = ['0', '1', '2', '3', '5', '12', '-1', '-3', '+4', '007', '100']
INT_BAD = ['1.5', 'abc', '1e3', '', '--2', '3 4']
FLOAT_TXT = ['1.0', '-200', '1e-4', '7.77', '.5', '5.', '1E5', '+3.25e+2', '0', '0.0', '1320',
             '1.111', '-4000', '100000.0', 'inf', '-inf', 'Infinity', '1e-06', '2.5E-3', '0.8']
FLOAT_BAD = ['abc', '--1', '1e', 'e5', '.', '1.2.3', '', '1 2', '0x10']
STR_TXT = ['single', 'same', 'V', 'F', 'W', 'LnResistivity', 'Conductivity', 'xy', 'yz', 'cubic',
           'linear', 'PyTest simulation', 'here', 'prism', 'cylinder', 'white_noise',
           'gaussian_uncorrelated', 'A b c', 'None', 'x.y']
LOL_PART = ['None', 'none', 'True', 'False', 'true', '-10000, 10000', '1.05, 1.5', '50',
            '20, 40', ' 1.1,2.0 ', 'NONE', 'xNoney', '30,60', '-4000, 1.111']
STRS_TXT = ['TxED-1', 'RxEP-05, RxEP-10 ,RxEP-02', 'f-1', 'f-1, f-3', 'Tx11', 'Rx1, Rx2',
            'a,b,,c', '', ' , ', 'RxEP-5, RxEP-2, RxEP-3', 'RxEP-2, RxEP-10, RxEP-1', 'b, a, b',
            'f-2, f-1', 'Rx2, Rx1,', 'Tx2,Tx1,Tx2,Tx1']
FILE_TXT = ['survey', 'model.h5', 'data.json', 'x.npz', 'name.txt', 'my.sim.h5', 'noext',
            'a.b.c', '.hidden', 'trail.', 'unkno.wn', 'results.npz', 'out.JSON', 'sub/inner.npz']


def gen_text(rng, ty, bad=False):
    if ty == 'TBool':
        return rng.choice(BOOL_BAD if bad else BOOL_TXT)
    if ty == 'TInt':
        return rng.choice(INT_BAD if bad else INT_TXT)
    if ty == 'TFloat':
        return rng.choice(FLOAT_BAD if bad else FLOAT_TXT)
    if ty == 'TStr':
        return rng.choice(STR_TXT)
    if ty == 'TFloatList':
        n = rng.randint(1, 5)
        parts = [rng.choice(FLOAT_TXT) for _ in range(n)]
        if bad:
            parts[rng.randrange(n)] = rng.choice(['a', '', '1 2'])
        sep = rng.choice([', ', ',', ' , '])
        return sep.join(parts)
    if ty == 'TLoL':
        n = rng.choice([1, 3, 3, 3, 4]) if not bad else 2
        return rng.choice(['; ', ';', ' ;']).join(rng.choice(LOL_PART) for _ in range(n))
    if ty == 'TStrList':
        return rng.choice(STRS_TXT)
    raise ValueError(ty)


def gen_parse_case(rng, T, base):
    """One configuration file text + terminal dictionary.  Mostly valid; the
    malformed stream injects ONE defect (unknown key, key in the wrong section,
    bad typed value, two-part list of lists, unexpected terminal key, several
    functions, empty file name)."""
    entries = T['parser']['entries']
    by_sec = {}
    for (s, k, ty, pa) in entries:
        by_sec.setdefault(s, []).append((k, ty))
    kind = 'valid'
    r = rng.random()
    if r < 0.36:
        kind = rng.choice(['unknown_key', 'wrong_section', 'bad_value', 'lol2', 'term_extra',
                           'multi_function', 'empty_file', 'unknown_section'])
    secs = {}
    for s, ks in by_sec.items():
        if rng.random() < 0.55:
            n = rng.randint(0, min(len(ks), 5))
            secs[s] = [(k, gen_text(rng, ty)) for (k, ty) in rng.sample(ks, n)]
    if rng.random() < 0.6:
        fk = rng.sample(['path', 'survey', 'model', 'output', 'save', 'load', 'cache'],
                        rng.randint(0, 4))
        secs['files'] = [(k, base if k == 'path' else rng.choice(FILE_TXT)) for k in fk]
    defect = None
    if kind == 'unknown_key':
        s = rng.choice(list(by_sec) + ['files'])
        k = rng.choice(['another', 'whatever', 'cell_numbers', 'tolerance', 'nproc'])
        secs.setdefault(s, []).append((k, 'True'))
        defect = [s, k]
    elif kind == 'wrong_section':
        s, k, ty, _ = rng.choice(entries)
        s2 = rng.choice([x for x in list(by_sec) + ['files'] if x != s])
        if k not in [kk for kk, _ in by_sec.get(s2, [])] and not (s2 == 'files' and k in (
                'path', 'survey', 'model', 'output', 'save', 'load', 'cache')):
            secs.setdefault(s2, []).append((k, gen_text(rng, ty)))
            defect = [s2, k]
    elif kind == 'bad_value':
        cands = [(s, k, ty) for (s, k, ty, _) in entries
                 if ty in ('TBool', 'TInt', 'TFloat', 'TFloatList')]
        s, k, ty = rng.choice(cands)
        secs[s] = [(kk, vv) for kk, vv in secs.get(s, []) if kk != k] + [(k, gen_text(rng, ty, True))]
        defect = [s, k]
    elif kind == 'lol2':
        cands = [(s, k) for (s, k, ty, _) in entries if ty == 'TLoL']
        s, k = rng.choice(cands)
        secs[s] = [(kk, vv) for kk, vv in secs.get(s, []) if kk != k] + [(k, gen_text(rng, 'TLoL', True))]
        defect = [s, k]
    elif kind == 'unknown_section':
        secs[rng.choice(['solver', 'gridding', 'whatever'])] = [('maxit', '3')]
    # render
    lines = []
    order = list(secs)
    rng.shuffle(order)
    for s in order:
        lines.append(f'[{s}]')
        seen = set()
        for k, v in secs[s]:
            if k in seen:
                continue
            seen.add(k)
            kk = k.upper() if rng.random() < 0.08 else k
            eq = rng.choice([' = ', '=', ': ', ' =  '])
            com = '   # a comment' if rng.random() < 0.15 else ''
            lines.append(f'{kk}{eq}{v}{com}')
    text = '\n'.join(lines) + '\n'
    # terminal dictionary
    fn = rng.choice(['none', 'forward', 'misfit', 'gradient'])
    term = {
        'verbosity': rng.choice([0, 0, 1, 2, -1, 5, -3]),
        'nproc': rng.choice([None, None, 1, 4, -2, 0]),
        'dry_run': rng.random() < 0.3, 'clean': rng.random() < 0.2,
        'layered': rng.choice([None, None, True, False]),
        'forward': fn == 'forward', 'misfit': fn == 'misfit', 'gradient': fn == 'gradient',
        'path': rng.choice([None, None, base, base + '/sub']),
    }
    for k in ('survey', 'model', 'output', 'save', 'load', 'cache'):
        term[k] = rng.choice(FILE_TXT) if rng.random() < 0.2 else None
    if kind == 'multi_function':
        term['forward'], term['misfit'], term['gradient'] = (rng.random() < 0.7, rng.random() < 0.7,
                                                              rng.random() < 0.5)
    if kind == 'empty_file':
        term[rng.choice(['survey', 'output', 'save'])] = ''
    extra = kind == 'term_extra'
    return dict(kind=kind, defect=defect, text=text, term=term, extra=extra)


# Mistyped / unknown names per section: the API name where the documented one
# differs, plurals, names of neighbouring sections, near misses.
UNKNOWN_NAMES = {
    'files': ['surveys', 'modell'],
    'simulation': ['max_worker', 'griding'],
    'noise_opts': ['add_noises', 'std'],
    'layered': ['methods', 'ellipse'],
    'solver_opts': ['maxiter', 'tolerance'],
    'data': ['source', 'whatever'],
    'gridding_opts': ['min_width', 'cell_numbers'],
}


def _term0(fn='forward', **kw):
    t = {'verbosity': 0, 'nproc': None, 'dry_run': False, 'clean': False, 'layered': None,
         'forward': fn == 'forward', 'misfit': fn == 'misfit', 'gradient': fn == 'gradient',
         'path': None, 'survey': None, 'model': None, 'output': None, 'save': None, 'load': None,
         'cache': None}
    t.update(kw)
    return t


def lone_unknown_cases(T, base):
    """Deterministic: for EVERY section the parser processes, configurations in
    which the section holds ONLY unknown / mistyped options -- (a) that section
    alone, one unknown key; (b) two unknown keys; (c) next to well-formed
    other sections; (d) with terminal arguments that override options of that
    section.  The clause 'unknown options are rejected with an error' does not
    depend on a documented option being present in the same section."""
    entries = T['parser']['entries']
    by_sec = {}
    for (s, k, ty, pa) in entries:
        by_sec.setdefault(s, []).append((k, ty))
    secs = ['files'] + [s for s in T['parser']['section_order']]
    rng0 = __import__('random').Random(18)            # fixed: only picks well-formed texts
    out = []
    for sec in secs:
        names = UNKNOWN_NAMES.get(sec, ['another', 'whatever'])
        names = [n for n in names if n not in [k for k, _ in by_sec.get(sec, [])]] or ['another_c18']
        others = [s for s in by_sec if s != sec]
        variants = [
            (f'[{sec}]\n{names[0]} = 1\n', _term0('forward'), [names[0]]),
            (f'[{sec}]\n' + ''.join(f'{n} = True\n' for n in names), _term0('gradient'), names),
        ]
        txt = ''
        for s2 in others:
            ks = by_sec[s2][:2]
            txt += f'[{s2}]\n' + ''.join(f'{k} = {gen_text(rng0, ty)}\n' for k, ty in ks)
        variants.append((txt + f'[{sec}]\n{names[-1]} = 3.5\n', _term0('misfit'), [names[-1]]))
        variants.append((f'[{sec}]\n{names[0]} = x\n',
                         _term0('forward', nproc=2, layered=True, dry_run=True, path=base,
                                survey='s.h5', model='m.npz', output='o.json'), [names[0]]))
        for text, term, ns in variants:
            out.append(dict(kind='lone_unknown', defect=[sec, ns], text=text, term=term, extra=False))
    return out


# ------------------------------------------------------- canonical values
def fl_of_model(t):
    """('FNum', neg, m, e10) | ('FInf', neg) | ('FNan',) -> python float"""
    if t[0] == 'FNan':
        return float('nan')
    neg = t[1] == ('true',)
    if t[0] == 'FInf':
        return -math.inf if neg else math.inf
    m, e = t[2], t[3]
    try:
        x = float(fractions.Fraction(m) * fractions.Fraction(10) ** e)
    except OverflowError:
        x = math.inf
    return -x if neg else x


def canon_float(x):
    x = float(x)
    if math.isnan(x):
        return 'nan'
    return float.hex(x + 0.0) if x != 0 else float.hex(0.0)


def canon_py(v):
    """Canonical form of a python value produced by the parser."""
    if v is None:
        return ['none']
    if isinstance(v, bool):
        return ['b', v]
    if isinstance(v, int):
        return ['i', v]
    if isinstance(v, float):
        return ['f', canon_float(v)]
    if isinstance(v, str):
        return ['s', v]
    if isinstance(v, dict):
        if sorted(v) == ['x', 'y', 'z']:
            return ['xyz', canon_py(v['x']), canon_py(v['y']), canon_py(v['z'])]
        return ['dict', {k: canon_py(x) for k, x in sorted(v.items())}]
    if isinstance(v, (list, tuple)):
        if all(isinstance(x, str) for x in v) and v:
            return ['sl', list(v)]
        if all(isinstance(x, float) for x in v):
            return ['fl', [canon_float(x) for x in v]]
        return ['list', [canon_py(x) for x in v]]
    return ['other', repr(v)]


def canon_item(t):
    if t[0] == 'INone':
        return ['none']
    if t[0] == 'ITrue':
        return ['b', True]
    if t[0] == 'IFalse':
        return ['b', False]
    return ['fl', [canon_float(fl_of_model(x)) for x in t[1]]]


def canon_model_value(t):
    k = t[0]
    if k == 'VBool':
        return ['b', t[1] == ('true',)]
    if k == 'VInt':
        return ['i', t[1]]
    if k == 'VFloat':
        return ['f', canon_float(fl_of_model(t[1]))]
    if k == 'VStr':
        return ['s', t[1]]
    if k == 'VFloats':
        return ['fl', [canon_float(fl_of_model(x)) for x in t[1]]]
    if k == 'VLoL1':
        return canon_item(t[1])
    if k == 'VLoL3':
        return ['xyz', canon_item(t[1]), canon_item(t[2]), canon_item(t[3])]
    if k == 'VStrs':
        return ['sl', list(t[1])]
    raise ValueError('unknown model value ' + repr(t))


def flatten_py(d, path):
    """Nested option dicts -> {(path, key): canonical value}; the x/y/z dicts of
    list-of-lists options are values, other dicts are nesting."""
    out = {}
    for k, v in d.items():
        if isinstance(v, dict) and sorted(v) != ['x', 'y', 'z']:
            out.update(flatten_py(v, path + '.' + k))
        else:
            out[path + '|' + k] = canon_py(v)
    return out


ERRMAP = {'TypeError': 'TypeError', 'ValueError': 'ValueError', 'IndexError': 'IndexError',
          'UnboundLocalError': 'Unbound', 'NameError': 'Unbound'}


def impl_parse(case, cfgfile):
    """Run emg3d.cli.parser.parse_config_file; canonical result."""
    from emg3d.cli import parser as P
    with open(cfgfile, 'w') as f:
        f.write(case['text'])
    args = dict(case['term'])
    args['config'] = cfgfile
    if case['extra']:
        args['unknown'] = True
    with warnings.catch_warnings(record=True) as w:
        warnings.simplefilter('always')
        try:
            cfg, term = P.parse_config_file(args)
        except Exception as e:
            name = type(e).__name__
            what = ''
            if isinstance(e, TypeError):
                s = str(e)
                what = ('args_dict' if 'args_dict' in s
                        else s.split('[')[1].split(']')[0] if 'Unexpected parameter in [' in s else s)
            return {'err': ERRMAP.get(name, name), 'what': what}
    opts = {}
    opts.update(flatten_py(cfg['simulation_options'], 'simulation_options'))
    opts.update(flatten_py(cfg['data'], 'data'))
    opts.update(flatten_py(cfg['noise_kwargs'], 'noise_kwargs'))
    files = {k: (v if v else None) for k, v in cfg['files'].items()}
    return {'function': term['function'], 'verbosity': term['verbosity'],
            'dry_run': bool(term['dry_run']), 'clean': bool(term['clean']),
            'files': files, 'opts': opts,
            'warn': any(issubclass(x.category, FutureWarning) for x in w),
            'term_keys': sorted(term)}


def read_cfg(text):
    """The configuration as configparser delivers it (oracle of the model)."""
    cfg = configparser.ConfigParser(inline_comment_prefixes='#')
    cfg.read_file(_io.StringIO(text))
    return [(s, list(cfg.items(s))) for s in cfg.sections()]


def coq_opt_str(x):
    return 'None' if x is None else f'(Some {V.coq_str(x)})'


def coq_term(case):
    t = case['term']
    ob = (lambda b: 'None' if b is None else f'(Some {V.coq_bool(b)})')
    oz = (lambda z: 'None' if z is None else f'(Some {V.coq_z(z)})')
    return ("(Term " + ' '.join([
        V.coq_z(t['verbosity']), oz(t['nproc']), V.coq_bool(t['dry_run']), V.coq_bool(t['clean']),
        ob(t['layered']), V.coq_bool(t['forward']), V.coq_bool(t['misfit']),
        V.coq_bool(t['gradient']), coq_opt_str(t['path']), coq_opt_str(t['survey']),
        coq_opt_str(t['model']), coq_opt_str(t['output']), coq_opt_str(t['save']),
        coq_opt_str(t['load']), coq_opt_str(t['cache']), V.coq_bool(case['extra'])]) + ")")


def coq_config(secs):
    return '[' + '; '.join(
        '(' + V.coq_str(s) + ', [' + '; '.join(f'({V.coq_str(k)}, {V.coq_str(v)})' for k, v in kvs)
        + '])' for s, kvs in secs) + ']'


COQ_HEADER = """From Coq Require Import String Ascii List ZArith Bool.
From V Require Import Model.CliTypes Gen.CliTable Model.Cli.
Import ListNotations.
Set Printing Depth 10000000.
Local Open Scope string_scope.
Local Open Scope Z_scope.
"""


def coq_abspath(cwd):
    return f'(fun s : string => if String.eqb s "." then {V.coq_str(cwd)} else s)'


def model_result(t):
    """Parsed Coq `res output` -> canonical dict like impl_parse."""
    if t[0] == 'Err':
        e = t[1]
        if e[0] == 'ETypeError':
            return {'err': 'TypeError', 'what': e[1]}
        return {'err': {'EValueError': 'ValueError', 'EIndexError': 'IndexError',
                        'EUnbound': 'Unbound'}[e[0]], 'what': ''}
    o = t[1]
    opts = {}
    for (pa, k, v) in o['o_opts']:
        opts[pa + '|' + k] = canon_model_value(v)      # later entries override
    files = {}
    for (k, v) in o['o_files']:
        files[k] = None if v == ('None',) else v[1]
    return {'function': o['o_function'], 'verbosity': o['o_verbosity'],
            'dry_run': o['o_dry_run'] == ('true',), 'clean': o['o_clean'] == ('true',),
            'files': files, 'opts': opts, 'warn': o['o_warn'] == ('true',)}


def parse_correspondence(ctx, n, dis, hist, samples):
    rng = ctx.rng
    T = _tables(ctx)
    base = tempfile.mkdtemp(prefix='c18p_')
    cwd = os.getcwd()
    cases, texts = [], []
    lone = lone_unknown_cases(T, base)
    try:
        for i in range(n):
            c = lone[i] if i < len(lone) else gen_parse_case(rng, T, base)
            try:
                c['secs'] = read_cfg(c['text'])
            except configparser.Error:
                continue
            if any('%' in v for _, kvs in c['secs'] for _, v in kvs):
                continue
            c['impl'] = impl_parse(c, os.path.join(base, 'emg3d.cfg'))
            cases.append(c)
            if c['kind'] == 'lone_unknown':
                # independent of the model: the property text requires the rejection
                im = c['impl']
                if not (im.get('err') == 'TypeError' and im.get('what') == c['defect'][0]):
                    dis.append({'what': f"unknown option(s) {c['defect'][1]} as the ONLY keys of "
                                        f"[{c['defect'][0]}] are not rejected by parse_config_file",
                                'signature': f"C18: unknown key in [{c['defect'][0]}] is not rejected",
                                'case': {'kind': c['kind'], 'config_text': c['text'],
                                         'term': c['term']},
                                'impl': _brief({k: v for k, v in im.items() if k != 'term_keys'}),
                                'required': f"TypeError: Unexpected parameter in [{c['defect'][0]}]"})
        per = 40
        for j in range(0, len(cases), per):
            body = [COQ_HEADER, f"Definition ap := {coq_abspath(cwd)}."]
            for c in cases[j:j + per]:
                body.append(f"Eval vm_compute in parse ap {coq_config(c['secs'])} {coq_term(c)}.")
            texts.append((f"c18_parse_{j // per}", '\n'.join(body) + '\n'))
        res = V.coq_eval_many(texts)
    finally:
        shutil.rmtree(base, ignore_errors=True)
    nontriv = set()
    k = 0
    for j in range(0, len(cases), per):
        rc, out = res[f"c18_parse_{j // per}"]
        chunk = cases[j:j + per]
        if rc != 0:
            dis.append({'what': 'Coq model of parse does not evaluate', 'log': out[-1500:]})
            continue
        ans = V.eval_answers(out)
        if len(ans) != len(chunk):
            dis.append({'what': 'parse: answer count mismatch', 'log': out[-800:]})
            continue
        for c, a in zip(chunk, ans):
            k += 1
            m = model_result(coqterm.parse(a))
            im = dict(c['impl'])
            im.pop('term_keys', None)
            tag = im.get('err') and ('err:' + im['err']) or 'ok'
            hist['parse:' + c['kind'] + ':' + tag] = hist.get('parse:' + c['kind'] + ':' + tag, 0) + 1
            if im != m:
                diff = _first_diff(im, m)
                dis.append({'what': 'parse_config_file differs from Model/Cli.v parse: ' + diff,
                            'case': {'kind': c['kind'], 'config_text': c['text'], 'term': c['term'],
                                     'extra_terminal_key': c['extra'], 'cwd': cwd},
                            'impl': _brief(im), 'model': _brief(m)})
            if c['secs'] or any(v not in (None, False, 0) for v in c['term'].values()):
                nontriv.add(json.dumps([c['secs'], sorted((k2, str(v)) for k2, v in c['term'].items()),
                                        c['extra']], sort_keys=True, default=str))
            if len(samples) < 3:
                samples.append({'config_text': c['text'], 'term': c['term'], 'impl': _brief(im)})
    return k, len(nontriv)


def _first_diff(a, b):
    if a.get('err') or b.get('err'):
        return f"impl {a.get('err', 'ok')}({a.get('what', '')}) / model {b.get('err', 'ok')}({b.get('what', '')})"
    for key in ('function', 'verbosity', 'dry_run', 'clean', 'warn'):
        if a.get(key) != b.get(key):
            return f"{key}: impl {a.get(key)!r} / model {b.get(key)!r}"
    for sub in ('files', 'opts'):
        ka, kb = a.get(sub, {}), b.get(sub, {})
        for k in sorted(set(ka) | set(kb)):
            if ka.get(k, '<absent>') != kb.get(k, '<absent>'):
                return f"{sub}[{k}]: impl {ka.get(k, '<absent>')!r} / model {kb.get(k, '<absent>')!r}"
    return 'unknown difference'


def _brief(d):
    s = json.dumps(d, sort_keys=True, default=str)
    return json.loads(s) if len(s) < 3000 else s[:3000]


# =================================================== run: call sequences
class _Trace:
    def __init__(self, sim_layered):
        self.ev = []
        self.sim_layered = sim_layered
        self.saved = None


def _flat_kwargs(kw):
    out = {}
    for k, v in kw.items():
        if isinstance(v, dict) and sorted(v) != ['x', 'y', 'z']:
            for kk, vv in flatten_py(v, 'simulation_options.' + k).items():
                out[kk] = vv
        else:
            out['simulation_options|' + k] = canon_py(v)
    return out


def impl_run_trace(case, cfgfile, sim_layered):
    """Run emg3d.cli.run.simulation with the API replaced by recorders."""
    import numpy as np
    import logging
    from emg3d.cli import run as R
    tr = _Trace(sim_layered)
    EXP = object()

    class FData:
        @property
        def observed(self):
            tr.ev.append(['GetObserved'])
            return 'OBS'

        @property
        def synthetic(self):
            tr.ev.append(['GetSynthetic'])
            return 'SYN'

    class FSurvey:
        shape = (1, 2, 1)

        @property
        def count(self):
            tr.ev.append(['GetCount'])
            return 2

        def select(self, **kw):
            tr.ev.append(['Select', {k: canon_py(v) for k, v in sorted(kw.items())}])
            return self

    class FModel:
        shape = (2, 2, 2)
        case = 'isotropic'

    class FSim:
        def __init__(self, survey=None, model=None, verb=None, **kw):
            tq = kw.pop('tqdm_opts', None)
            tr.ev.append(['NewSim', _flat_kwargs(kw), tq is False])
            self.survey, self._model, self._layered = survey, model, kw.get('layered', False)
            self.data = FData()

        @classmethod
        def from_file(cls, fname, verb=None):
            tr.ev.append(['LoadSim', fname])
            o = cls.__new__(cls)
            o.survey, o._model, o._layered, o.data = FSurvey(), FModel(), tr.sim_layered, FData()
            return o, 'a\nb'

        def clean(self, what='<default>'):
            tr.ev.append(['Clean', what])

        model = property(lambda s: s._model,
                         lambda s, v: (tr.ev.append(['SetModel']) if v is not EXP else None,
                                       setattr(s, '_model', FModel()))[1])
        layered = property(lambda s: s._layered,
                           lambda s, v: (tr.ev.append(['SetLayered', bool(v)]),
                                         setattr(s, '_layered', v))[1])

        def compute(self, observed=False, **kw):
            tr.ev.append(['Compute', bool(observed), {'noise_kwargs|' + k: canon_py(v)
                                                      for k, v in kw.items()}])

        misfit = property(lambda s: (tr.ev.append(['GetMisfit']), 1.5)[1])
        gradient = property(lambda s: (tr.ev.append(['GetGradient']), 'GRAD')[1])

        def print_solver_info(self, *a, **k):
            return ''

        def print_grid_info(self, *a, **k):
            return ''

        def to_file(self, fname, verb=None):
            tr.ev.append(['SaveSim', fname])
            return 'a\nb'

        def __repr__(self):
            return 'FSim'

    class FSims:
        Simulation = FSim

    class FIO:
        @staticmethod
        def load(fname, verb=None):
            tr.ev.append(['Load', fname])
            return {'survey': FSurvey(), 'model': FModel()}, 'a\nb'

        @staticmethod
        def save(fname, verb=None, **out):
            zeros = sorted(k for k, v in out.items()
                           if (isinstance(v, np.ndarray) and not v.any()) or (k == 'misfit' and v == 0.0))
            tr.ev.append(['SaveOut', fname, sorted(out)])
            tr.saved = zeros
            return 'a\nb'

    class FModels:
        @staticmethod
        def expand_grid_model(model, expand, interface):
            tr.ev.append(['ExpandModel', canon_py(expand), canon_py(interface)])
            return EXP

    with open(cfgfile, 'w') as f:
        f.write(case['text'])
    args = dict(case['term'])
    args['config'] = cfgfile
    saved = (R.simulations, R.io, R.models)
    R.simulations, R.io, R.models = FSims, FIO, FModels
    err = None
    try:
        with warnings.catch_warnings(), contextlib.redirect_stderr(_io.StringIO()), \
                contextlib.redirect_stdout(_io.StringIO()):
            warnings.simplefilter('ignore')
            R.simulation(args)
    except SystemExit:
        err = 'Exit'
    except Exception as e:
        err = ERRMAP.get(type(e).__name__, type(e).__name__)
    finally:
        R.simulations, R.io, R.models = saved
        lg = logging.getLogger('emg3d.cli.run')
        for h in lg.handlers[:]:
            lg.removeHandler(h)
            h.close()
        pw = logging.getLogger('py.warnings')
        for h in pw.handlers[:]:
            pw.removeHandler(h)
        logging.captureWarnings(False)
    return {'err': err, 'events': tr.ev, 'zeros': tr.saved}


def model_trace(t):
    """Parsed Coq `option (list call)`-like answer -> canonical events."""
    if t[0] == 'inr':
        e = t[1]
        return {'err': {'ETypeError': 'TypeError', 'EValueError': 'ValueError',
                        'EIndexError': 'IndexError', 'EUnbound': 'Unbound'}[e[0]],
                'events': [], 'zeros': None}
    ev, zeros, err = [], [], None
    zmap = {'CZeroData': 'data', 'CZeroMisfit': 'misfit', 'CZeroGradient': 'gradient'}

    def od(opts):
        return {pa + '|' + k: canon_model_value(v) for (pa, k, v) in opts}
    for c in t[1]:
        k = c[0]
        if k == 'CExit':
            err = 'Exit'
        elif k in zmap:
            zeros.append(zmap[k])
        elif k == 'CLoadSim':
            ev.append(['LoadSim', c[1]])
        elif k in ('CLoadModel', 'CLoadSurvey'):
            ev.append(['Load', c[1]])
        elif k == 'CExpandModel':
            sea = ['f', canon_float(0.0)] if c[2] == ('None',) else canon_model_value(c[2][1])
            ev.append(['ExpandModel', canon_model_value(c[1]), sea])
        elif k == 'CSetLayered':
            ev.append(['SetLayered', c[1] == ('true',)])
        elif k == 'CSelect':
            d = {kk.split('|')[1]: v for kk, v in od(c[1]).items()}
            full = {'sources': ['none'], 'receivers': ['none'], 'frequencies': ['none'],
                    'remove_empty': ['b', False]}
            full.update(d)
            ev.append(['Select', dict(sorted(full.items()))])
        elif k == 'CNewSim':
            ev.append(['NewSim', od(c[1]), c[2] == ('true',)])
        elif k == 'CCompute':
            ev.append(['Compute', c[1] == ('true',), od(c[2])])
        elif k == 'CSaveOut':
            ev.append(['SaveOut', c[1], sorted(c[2])])
        elif k == 'CSaveSim':
            ev.append(['SaveSim', c[1]])
        elif k == 'CClean':
            ev.append(['Clean', c[1]])
        else:
            ev.append([k[1:]])
    return {'err': err, 'events': ev, 'zeros': sorted(zeros) if err is None else None}


def run_correspondence(ctx, n, dis, hist, samples):
    rng = ctx.rng
    T = _tables(ctx)
    base = tempfile.mkdtemp(prefix='c18r_')
    os.makedirs(os.path.join(base, 'sub'))
    cwd = os.getcwd()
    cases = []
    try:
        for i in range(n):
            c = gen_parse_case(rng, T, base)
            if c['kind'] not in ('valid', 'unknown_key', 'multi_function', 'unknown_section'):
                continue
            if c['term']['path'] is None and not any(s == 'files' and any(k == 'path' for k, _ in kv)
                                                     for s, kv in [(s, kv) for s, kv in read_cfg(c['text'])]):
                c['term']['path'] = base
            # emphasise load / cache / clean
            r = rng.random()
            if r < 0.25:
                c['term']['load'] = 'sim.h5'
                c['term']['clean'] = rng.random() < 0.6
            elif r < 0.35:
                c['term']['cache'] = 'cache.npz'
            c['extra'] = False
            try:
                c['secs'] = read_cfg(c['text'])
            except configparser.Error:
                continue
            c['sim_layered'] = rng.random() < 0.4
            c['files_ok'] = rng.random() < 0.9
            # create the input files the parser will name
            pc = impl_parse(c, os.path.join(base, 'emg3d.cfg'))
            made = []
            if 'files' in pc and c['files_ok']:
                for k in ('survey', 'model', 'load'):
                    f = pc['files'].get(k)
                    if f and os.path.isdir(os.path.dirname(f)):
                        open(f, 'w').close()
                        made.append(f)
                outdirs_ok = all(os.path.isdir(os.path.dirname(pc['files'][k]))
                                 for k in ('log', 'save') if pc['files'].get(k))
                ins_ok = all(os.path.isfile(pc['files'][k]) for k in ('survey', 'model', 'load')
                             if pc['files'].get(k))
                c['files_ok'] = outdirs_ok and ins_ok
            c['impl'] = impl_run_trace(c, os.path.join(base, 'emg3d.cfg'), c['sim_layered'])
            for f in made:
                try:
                    os.remove(f)
                except OSError:
                    pass
            cases.append(c)
        per, texts = 40, []
        for j in range(0, len(cases), per):
            body = [COQ_HEADER, f"Definition ap := {coq_abspath(cwd)}.",
                    "Definition tr (c : config) (t : term) (ok sl : bool) : list call + err :=",
                    "  match parse ap c t with Ok o => inl (run o ok sl) | Err e => inr e end."]
            for c in cases[j:j + per]:
                body.append(f"Eval vm_compute in tr {coq_config(c['secs'])} {coq_term(c)} "
                            f"{V.coq_bool(c['files_ok'])} {V.coq_bool(c['sim_layered'])}.")
            texts.append((f"c18_run_{j // per}", '\n'.join(body) + '\n'))
        res = V.coq_eval_many(texts)
    finally:
        shutil.rmtree(base, ignore_errors=True)
    k, nontriv = 0, set()
    for j in range(0, len(cases), per):
        rc, out = res[f"c18_run_{j // per}"]
        chunk = cases[j:j + per]
        if rc != 0:
            dis.append({'what': 'Coq model of run does not evaluate', 'log': out[-1500:]})
            continue
        ans = V.eval_answers(out)
        if len(ans) != len(chunk):
            dis.append({'what': 'run: answer count mismatch', 'log': out[-800:]})
            continue
        for c, a in zip(chunk, ans):
            k += 1
            m = model_trace(coqterm.parse(a))
            im = c['impl']
            if im['err'] is not None:
                im = {'err': im['err'], 'events': [], 'zeros': None}
            if m['err'] is not None:
                m = {'err': m['err'], 'events': [], 'zeros': None}
            shape = 'err:' + str(im['err']) if im['err'] else '>'.join(e[0] for e in im['events'])
            hist['run:' + shape] = hist.get('run:' + shape, 0) + 1
            nontriv.add(shape + '|' + json.dumps(im['events'], sort_keys=True, default=str)[:400])
            if json.dumps(im, sort_keys=True) != json.dumps(m, sort_keys=True):
                d = {'what': 'call sequence of cli.run.simulation differs from Model/Cli.v run',
                     'case': {'config_text': c['text'], 'term': c['term'], 'files_ok': c['files_ok'],
                              'sim_layered': c['sim_layered']},
                     'impl': _brief(im), 'model': _brief(m)}
                if (im['err'] == 'KeyError' and c['term'].get('clean')
                        and (c['term'].get('load') or c['term'].get('cache'))):
                    d['signature'] = SIG_CLEAN
                dis.append(d)
            if len(samples) < 5:
                samples.append({'config_text': c['text'], 'term': c['term'],
                                'calls': [e[0] for e in im['events']], 'err': im['err']})
    return k, len(nontriv)


SIG_CLEAN = "C18: --load/--cache with --clean and no [gridding_opts] option: KeyError 'gridding_opts'"
SIG_PATH = "C18: --path together with [files] path: TypeError instead of terminal override"


# ======================================================= end-to-end runs
# Values used for each documented key on the tiny problem (typed python
# values; rendered to configuration text on the CLI side, passed as they are
# on the API side).  Written from docs/manual/cli.rst and the API docs.
E2E_VALUES = {
    ('simulation', 'max_workers'): [1, 2],
    ('simulation', 'gridding'): ['single', 'same', 'frequency', 'source', 'both'],
    ('simulation', 'name'): ['MyTestSimulation'],
    ('simulation', 'file_dir'): ['FILEDIR'],
    ('simulation', 'receiver_interpolation'): ['linear', 'cubic'],
    ('simulation', 'layered'): [True, False],
    ('solver_opts', 'sslsolver'): [True, False],
    ('solver_opts', 'semicoarsening'): [True, False],
    ('solver_opts', 'linerelaxation'): [True, False],
    ('solver_opts', 'cycle'): ['V', 'W', 'F'],
    ('solver_opts', 'tol'): [1e-2, 1e-4],
    ('solver_opts', 'tol_gradient'): [1e-1, 1e-3],
    ('solver_opts', 'verb'): [0, 1, 2],
    ('solver_opts', 'maxit'): [1, 2, 3],
    ('solver_opts', 'nu_init'): [0, 1],
    ('solver_opts', 'nu_pre'): [1, 2],
    ('solver_opts', 'nu_coarse'): [1, 2],
    ('solver_opts', 'nu_post'): [1, 2],
    ('solver_opts', 'clevel'): [1, 2],
    ('solver_opts', 'plain'): [True, False],
    ('gridding_opts', 'properties'): [[1.0, 1.0], [0.5, 1.0, 2.0]],
    ('gridding_opts', 'center'): [[0.0, 0.0, 0.0], [50.0, 0.0, -50.0]],
    ('gridding_opts', 'cell_number'): [[8, 16], [8, 16, 32]],
    ('gridding_opts', 'min_width_pps'): [[2, 2, 2], [3, 3, 3]],
    ('gridding_opts', 'domain'): [[[-400.0, 400.0], None, None], [[-300.0, 300.0]] * 3],
    ('gridding_opts', 'distance'): [[None, None, [-300.0, 300.0]], [[-200.0, 400.0]] * 3],
    ('gridding_opts', 'stretching'): [[[1.0, 1.3]], [None, None, [1.05, 1.5]]],
    ('gridding_opts', 'min_width_limits'): [[[50.0, 200.0]], [[40.0, 100.0], None, [50.0]]],
    ('gridding_opts', 'mapping'): ['Conductivity', 'Resistivity'],
    ('gridding_opts', 'vector'): ['xyz', 'xy', 'z'],
    ('gridding_opts', 'frequency'): [1.0, 4.0],
    ('gridding_opts', 'seasurface'): [200.0],
    ('gridding_opts', 'max_buffer'): [2000.0, 100000.0],
    ('gridding_opts', 'lambda_factor'): [1.0, 0.7],
    ('gridding_opts', 'verb'): [0, 1],
    ('gridding_opts', 'lambda_from_center'): [True, False],
    ('noise_opts', 'add_noise'): [True, False],
    ('noise_opts', 'min_offset'): [250.0, 0.0],
    ('noise_opts', 'max_offset'): [350.0],
    ('noise_opts', 'mean_noise'): [0.5, 0.0],
    ('noise_opts', 'ntype'): ['white_noise', 'gaussian_correlated', 'gaussian_uncorrelated'],
    ('data', 'sources'): [['TxED-1'], ['TxED-2', 'TxED-1']],
    ('data', 'receivers'): [['RxEP-1', 'RxEP-3'], ['RxEP-2'], ['RxEP-3', 'RxEP-1', 'RxEP-2'],
                            ['RxEP-3', 'RxEP-2']],
    ('data', 'frequencies'): [['f-1'], ['f-2'], ['f-2', 'f-1']],
    ('data', 'remove_empty'): [True, False],
    ('layered', 'method'): ['cylinder', 'prism', 'midpoint', 'source', 'receiver'],
    ('layered', 'radius'): [300.0, 600.0],
    ('layered', 'factor'): [1.2, 1.0],
    ('layered', 'minor'): [0.8, 1.0],
    ('layered', 'merge'): [True, False],
    ('layered', 'check_foci'): [True, False],
}
# documented name -> API name, where they differ (cli.rst vs the API docs)
DOC_TO_API = {('gridding_opts', 'cell_number'): 'cell_numbers'}


def render_value(v):
    if isinstance(v, bool):
        return 'True' if v else 'False'
    if isinstance(v, (int, float)):
        return repr(v)
    if isinstance(v, str):
        return v
    if isinstance(v, list):
        if v and all(isinstance(x, str) for x in v):
            return ', '.join(v)
        if any(x is None or isinstance(x, list) for x in v):
            return '; '.join('None' if x is None else ', '.join(repr(y) for y in x) for x in v)
        return ', '.join(repr(x) for x in v)
    raise ValueError(v)


def render_config(opts, files=None):
    secs = {}
    for (s, k), v in opts.items():
        secs.setdefault(s, []).append(f'{k} = {render_value(v)}')
    if files:
        secs['files'] = [f'{k} = {v}' for k, v in files.items()]
    return ''.join(f'[{s}]\n' + '\n'.join(ls) + '\n' for s, ls in secs.items())


class E2E:
    """A tiny survey/model on disk, the CLI driver and the reference API script."""

    def __init__(self):
        import numpy as np
        import emg3d
        self.np, self.emg3d = np, emg3d
        self.dir = tempfile.mkdtemp(prefix='c18e_')
        hx = np.ones(4) * 250.
        grid = emg3d.TensorMesh([hx, hx, hx], origin=(-500, -500, -500))
        self.grid = grid
        model = emg3d.Model(grid, 1.0)
        model2 = emg3d.Model(grid, np.full(grid.shape_cells, 2.0), property_z=3.0)
        src = emg3d.surveys.txrx_lists_to_dict(
            [emg3d.TxElectricDipole((-100, 0, 0, 0, 0)), emg3d.TxElectricDipole((0, -100, 0, 90, 0))])
        rec = emg3d.surveys.txrx_coordinates_to_dict(
            emg3d.RxElectricPoint, ([100, 200, 300], 0, 0, 0, 0))
        data = (np.arange(12).reshape(2, 3, 2) + 1.0) * (1e-9 + 2e-9j)
        data[1, 2, 0] = np.nan
        survey = emg3d.Survey(sources=src, receivers=rec, frequencies=[1.0, 2.0], data=data,
                              noise_floor=1e-12, relative_error=0.05)
        for ext in ('h5', 'npz', 'json'):
            survey.to_file(os.path.join(self.dir, 'survey.' + ext), verb=0)
            emg3d.save(os.path.join(self.dir, 'model.' + ext), model=model, mesh=grid, verb=0)
            emg3d.save(os.path.join(self.dir, 'model2.' + ext), model=model2, mesh=grid, verb=0)
        self.n = 0
        self.stats = {}
        self.both_err = []

    def close(self):
        shutil.rmtree(self.dir, ignore_errors=True)

    @contextlib.contextmanager
    def seeded(self):
        np = self.np
        orig = np.random.default_rng
        np.random.default_rng = lambda *a, **k: np.random.Generator(np.random.PCG64(20240917))
        try:
            yield
        finally:
            np.random.default_rng = orig

    # ------------------------------------------------------------- CLI
    def cli(self, cfg_text, args, out='emg3d_out.h5', use_main=True):
        """emg3d.cli.main.main(args) in-process (sys.argv set as the console
        script would see it)."""
        import logging
        import emg3d.cli  # noqa
        M = sys.modules['emg3d.cli.main']
        cfgfile = os.path.join(self.dir, 'emg3d.cfg')
        with open(cfgfile, 'w') as f:
            f.write(cfg_text)
        outfile = os.path.join(self.dir, out)
        for f in (outfile, os.path.splitext(outfile)[0] + '.log'):
            if os.path.exists(f):
                os.remove(f)
        argv = [cfgfile] + list(args)
        old_argv, old_cwd = sys.argv, os.getcwd()
        sys.argv = ['emg3d'] + argv
        res = {}
        try:
            with warnings.catch_warnings(), self.seeded(), \
                    contextlib.redirect_stderr(_io.StringIO()), \
                    contextlib.redirect_stdout(_io.StringIO()):
                warnings.simplefilter('ignore')
                M.main(argv)
            res = self.read_output(outfile)
        except SystemExit as e:
            res = {'err': 'SystemExit', 'msg': str(e.code)[:300]}
        except Exception as e:
            res = {'err': type(e).__name__, 'msg': str(e)[:300]}
        finally:
            sys.argv = old_argv
            os.chdir(old_cwd)
            lg = logging.getLogger('emg3d.cli.run')
            for h in lg.handlers[:]:
                lg.removeHandler(h)
                h.close()
            pw = logging.getLogger('py.warnings')
            for h in pw.handlers[:]:
                pw.removeHandler(h)
            logging.captureWarnings(False)
        return res

    def read_output(self, outfile):
        d = self.emg3d.load(outfile, verb=0)
        return {k: d[k] for k in ('data', 'misfit', 'gradient', 'n_observations') if k in d}

    # ------------------------------------------------- reference API script
    def api(self, spec):
        """The equivalent Python API calls for a documented configuration."""
        emg3d, np = self.emg3d, self.np
        opts = spec['opts']
        fmt = spec.get('format', 'h5')
        fn = spec['function']
        try:
            with warnings.catch_warnings(), self.seeded(), \
                    contextlib.redirect_stderr(_io.StringIO()), \
                    contextlib.redirect_stdout(_io.StringIO()):
                warnings.simplefilter('ignore')
                survey = emg3d.load(os.path.join(self.dir, 'survey.' + fmt), verb=0)['survey']
                model = emg3d.load(os.path.join(self.dir, spec.get('model', 'model') + '.' + fmt),
                                   verb=0)['model']
                dsel = {k: v for (s, k), v in opts.items() if s == 'data'}
                if dsel:
                    survey = survey.select(sources=dsel.get('sources'),
                                           receivers=dsel.get('receivers'),
                                           frequencies=dsel.get('frequencies'),
                                           remove_empty=dsel.get('remove_empty', False))
                kw = {}
                for (s, k), v in opts.items():
                    if s == 'simulation':
                        kw[k] = (os.path.join(self.dir, 'fd_api') if v == 'FILEDIR' else v)
                    elif s in ('solver_opts', 'gridding_opts'):
                        name = DOC_TO_API.get((s, k), k)
                        if isinstance(v, list) and any(x is None or isinstance(x, list) for x in v):
                            v = v[0] if len(v) == 1 else {'x': v[0], 'y': v[1], 'z': v[2]}
                        kw.setdefault(s, {})[name] = v
                    elif s == 'layered':
                        lo = kw.setdefault('layered_opts', {})
                        if k in ('method', 'merge'):
                            lo[k] = v
                        else:
                            lo.setdefault('ellipse', {})[k] = v
                if fn == 'gradient':
                    kw.setdefault('receiver_interpolation', 'linear')
                kw.setdefault('name', 'emg3d CLI run')
                sim = emg3d.Simulation(survey=survey, model=model, verb=-1, tqdm_opts=False, **kw)
                out = {}
                if spec.get('dry_run'):
                    out['data'] = np.zeros(sim.survey.shape, dtype=complex)
                    if fn in ('misfit', 'gradient'):
                        out['misfit'] = 0.0
                        out['n_observations'] = sim.survey.count
                    if fn == 'gradient':
                        shp = sim.model.shape
                        ncomp = {'isotropic': 0, 'HTI': 2, 'VTI': 2, 'triaxial': 3}[sim.model.case]
                        out['gradient'] = np.zeros((ncomp, *shp) if ncomp else shp)
                    return out
                if fn == 'forward':
                    noise = {k: v for (s, k), v in opts.items() if s == 'noise_opts'}
                    sim.compute(observed=True, **noise)
                    out['data'] = sim.data.observed
                else:
                    sim.compute()
                    out['data'] = sim.data.synthetic
                    out['misfit'] = sim.misfit
                    out['n_observations'] = sim.survey.count
                    if fn == 'gradient':
                        out['gradient'] = sim.gradient
                return out
        except Exception as e:
            return {'err': type(e).__name__, 'msg': str(e)[:300]}

    # --------------------------------------------------------- comparison
    def same(self, a, b):
        np = self.np
        if ('err' in a) != ('err' in b):
            return False, f"CLI {a.get('err', 'succeeds')} / API {b.get('err', 'succeeds')}"
        if 'err' in a:
            if a['err'] != b['err']:
                return False, f"CLI raises {a['err']} / API raises {b['err']}"
            return True, ''
        if sorted(a) != sorted(b):
            return False, f"output keys CLI {sorted(a)} / API {sorted(b)}"
        for k in a:
            x, y = np.asarray(a[k]), np.asarray(b[k])
            if x.shape != y.shape:
                return False, f"{k}: shape CLI {x.shape} / API {y.shape}"
            if not np.array_equal(x, y, equal_nan=True):
                return False, f"{k}: values differ (max abs diff {np.nanmax(np.abs(x - y)):.3e})"
        return True, ''

    def spec_cli(self, spec):
        """(configuration text, argument list) of a spec."""
        fmt = spec.get('format', 'h5')
        files = {'survey': 'survey.' + fmt, 'model': spec.get('model', 'model') + '.' + fmt}
        opts = {k: (os.path.join(self.dir, 'fd_cli') if v == 'FILEDIR' else v)
                for k, v in spec['opts'].items()}
        text = render_config(opts, files)
        args = ['--path', self.dir, {'forward': '-f', 'misfit': '-m', 'gradient': '-g'}[spec['function']],
                '--output', 'emg3d_out.' + fmt]
        if spec.get('dry_run'):
            args.append('-d')
        args += spec.get('extra_args', [])
        return text, args

    def check_spec(self, spec):
        """Run CLI and API for a spec.  Returns None if equivalent, else a
        failing-input dict."""
        text, args = self.spec_cli(spec)
        fmt = spec.get('format', 'h5')
        a = self.cli(text, args, out='emg3d_out.' + fmt)
        b = self.api(spec)
        self.n += 1
        ok, why = self.same(a, b)
        tag = 'both_error:' + a['err'] if ok and 'err' in a else ('both_ok' if ok else 'differ')
        self.stats[tag] = self.stats.get(tag, 0) + 1
        if ok and 'err' in a:
            self.both_err.append([f'[{s}] {k}={v}' for (s, k), v in spec['opts'].items()
                                  if (s, k) not in BASE_FAST] + [spec['function'], a['err'],
                                                                  a.get('msg', '')[:80]])
        if ok:
            return None
        return {'config_text': text, 'cli_args': args, 'spec': spec_json(spec),
                'observed': why, 'cli': _outcome(a), 'api': _outcome(b),
                'required': 'CLI run == equivalent API calls (same files)'}


def _outcome(r):
    if 'err' in r:
        return {'error': r['err'], 'message': r.get('msg', '')}
    out = {}
    for k, v in r.items():
        shp = getattr(v, 'shape', None)
        if shp is None or shp == ():
            try:
                out[k] = float(v)
            except (TypeError, ValueError):
                out[k] = str(v)[:60]
        else:
            out[k] = f'array{tuple(shp)}'
    return out


def spec_json(spec):
    d = dict(spec)
    d['opts'] = [[s, k, v] for (s, k), v in spec['opts'].items()]
    return d


def spec_from_json(d):
    s = dict(d)
    s['opts'] = {(a, b): v for a, b, v in d['opts']}
    return s


BASE_FAST = {('solver_opts', 'maxit'): 1, ('solver_opts', 'plain'): True,
             ('simulation', 'max_workers'): 1}


def base_opts(sec, key):
    """Context a key needs to have an effect on the tiny problem."""
    o = dict(BASE_FAST)
    if sec == 'solver_opts' and key in ('sslsolver', 'semicoarsening', 'linerelaxation'):
        o.pop(('solver_opts', 'plain'))
    if sec == 'solver_opts' and key == 'maxit':
        o.pop(('solver_opts', 'maxit'))
    if sec == 'layered':
        o[('simulation', 'layered')] = True
    if sec == 'simulation' and key == 'gridding':
        pass
    return o


def single_key_spec(rng, sec, key, fn=None):
    v = rng.choice(E2E_VALUES[(sec, key)])
    o = base_opts(sec, key)
    o[(sec, key)] = v
    if (sec, key) == ('simulation', 'gridding') and v == 'same':
        pass
    if sec == 'noise_opts':
        fn = 'forward'
    if fn is None:
        fn = rng.choice(['forward', 'misfit', 'gradient'])
    if (sec, key) == ('solver_opts', 'tol_gradient'):
        fn = 'gradient'
    if sec == 'layered' or o.get(('simulation', 'layered')):
        fn = rng.choice(['forward', 'misfit']) if fn == 'gradient' and rng.random() < 0.5 else fn
    return {'function': fn, 'opts': o, 'format': rng.choice(['h5', 'npz', 'json'])}


def combo_spec(rng, keys):
    n = rng.randint(2, 6)
    picks = rng.sample(keys, n)
    o = dict(BASE_FAST)
    for (s, k) in picks:
        o.update({kk: vv for kk, vv in base_opts(s, k).items() if kk not in o or kk in BASE_FAST})
        o[(s, k)] = rng.choice(E2E_VALUES[(s, k)])
    if o.get(('simulation', 'gridding')) == 'same':
        o = {kk: vv for kk, vv in o.items() if kk[0] != 'gridding_opts'}
    fn = rng.choice(['forward', 'misfit', 'gradient'])
    return {'function': fn, 'opts': o, 'format': rng.choice(['h5', 'npz', 'json']),
            'dry_run': rng.random() < 0.15}


# ------------------------------------------------------------ scenarios
def _scen_precedence(e, name):
    """Terminal argument vs configuration file.  None = holds, else a hit."""
    d = e.dir
    fast = '[solver_opts]\nmaxit = 1\nplain = True\n'
    sim1 = '[simulation]\nmax_workers = 1\n'
    ref = {'function': 'misfit', 'opts': dict(BASE_FAST), 'format': 'h5'}
    common = ['-m', '--output', 'emg3d_out.h5']
    if name == 'path':
        text = '[files]\npath = /nonexistent_c18_dir\nsurvey = survey.h5\nmodel = model.h5\n' + fast + sim1
        args = ['--path', d] + common
    elif name == 'survey':
        text = '[files]\nsurvey = wrong_survey.h5\nmodel = model.h5\n' + fast + sim1
        args = ['--path', d, '--survey', 'survey.h5'] + common
    elif name == 'model':
        text = '[files]\nsurvey = survey.h5\nmodel = model.h5\n' + fast + sim1
        args = ['--path', d, '--model', 'model2.h5'] + common
        ref['model'] = 'model2'
    elif name == 'output':
        text = '[files]\nsurvey = survey.h5\nmodel = model.h5\noutput = from_file.h5\n' + fast + sim1
        args = ['--path', d, '-m', '--output', 'emg3d_out.h5']
    elif name == 'layered':
        text = ('[files]\nsurvey = survey.h5\nmodel = model.h5\n[simulation]\nlayered = False\n'
                'max_workers = 1\n' + fast)
        args = ['--path', d, '-l'] + common
        ref['opts'][('simulation', 'layered')] = True
    elif name == 'nproc':
        text = ('[files]\nsurvey = survey.h5\nmodel = model.h5\n[simulation]\nmax_workers = 3\n' + fast)
        args = ['--path', d, '-n', '1'] + common
        ref['opts'][('simulation', 'max_workers')] = 1
    elif name == 'function':
        text = '[files]\nsurvey = survey.h5\nmodel = model.h5\n' + fast + sim1
        args = ['--path', d, '-g', '--output', 'emg3d_out.h5']
        ref['function'] = 'gradient'
    else:
        raise ValueError(name)
    a = e.cli(text, args)
    b = e.api(ref)
    e.n += 1
    ok, why = e.same(a, b)
    if ok:
        return None
    sig = SIG_PATH if name == 'path' and a.get('err') == 'TypeError' else \
        f"C18: terminal argument does not override the configuration file ({name})"
    return {'signature': sig, 'scenario': 'precedence:' + name, 'config_text': text,
            'cli_args': args, 'observed': why, 'cli': _outcome(a), 'api': _outcome(b),
            'required': 'the terminal argument overrides the file; result == API call with the '
                        'terminal value'}


PRECEDENCE = ['path', 'survey', 'model', 'output', 'layered', 'nproc', 'function']


DOC_KEY_TEXT = {'files': '', 'simulation': 'name = c18\n', 'noise_opts': 'add_noise = False\n',
                'layered': 'method = prism\n', 'solver_opts': 'maxit = 1\n',
                'data': 'remove_empty = False\n', 'gridding_opts': 'verb = 0\n'}


def _scen_unknown(e, sec, variant='lone'):
    """A real run whose [sec] holds an unknown / mistyped option: 'lone' = the
    unknown option is the ONLY key of the section ([files]: besides survey and
    model), 'mixed' = next to a documented option of the same section.  Must
    raise TypeError before anything is computed."""
    name = UNKNOWN_NAMES.get(sec, ['another_c18'])[0]
    text = ('[files]\nsurvey = survey.h5\nmodel = model.h5\n'
            + ('' if sec == 'files' else f'[{sec}]\n')
            + (DOC_KEY_TEXT.get(sec, '') if variant == 'mixed' else '') + f'{name} = 1\n')
    args = ['--path', e.dir, '-f', '-d']
    a = e.cli(text, args)
    e.n += 1
    if 'err' in a and a['err'] in ('TypeError',):
        return None
    return {'signature': f"C18: unknown key in [{sec}] is not rejected",
            'scenario': 'unknown:' + sec + ('' if variant == 'lone' else ':' + variant),
            'config_text': text, 'cli_args': args, 'observed': 'CLI ' + str(_outcome(a)),
            'required': f'unknown options are rejected with an error (TypeError: Unexpected '
                        f'parameter in [{sec}]: [{name!r}])'}


def _sections(T):
    return ['files'] + (list(T['parser']['section_order']) if T is not None else
                        ['simulation', 'noise_opts', 'layered', 'solver_opts', 'data',
                         'gridding_opts'])


def _scen_mode(e, name):
    emg3d, np = e.emg3d, e.np
    d = e.dir
    fast = '[solver_opts]\nmaxit = 1\nplain = True\n[simulation]\ngridding = same\n'
    files = '[files]\nsurvey = survey.h5\nmodel = model.h5\n'

    def build():
        survey = emg3d.load(os.path.join(d, 'survey.h5'), verb=0)['survey']
        model = emg3d.load(os.path.join(d, 'model.h5'), verb=0)['model']
        sim = emg3d.Simulation(survey=survey, model=model, gridding='same', max_workers=1,
                               solver_opts={'maxit': 1, 'plain': True}, verb=-1, tqdm_opts=False,
                               receiver_interpolation='linear', name='c18')
        return sim
    try:
        with warnings.catch_warnings():
            warnings.simplefilter('ignore')
            if name == 'save':
                text, args = files + fast, ['--path', d, '-f', '--save', 'simS.h5']
                a = e.cli(text, args)
                if 'err' in a:
                    b = {}
                    ok, why = False, 'CLI ' + a['err'] + ': ' + a.get('msg', '')
                else:
                    s2 = emg3d.Simulation.from_file(os.path.join(d, 'simS.h5'), verb=0)
                    ok = np.array_equal(np.asarray(s2.data.observed), np.asarray(a['data']),
                                        equal_nan=True)
                    b, why = {}, 'saved simulation does not hold the data written to the output'
            else:
                sim = build()
                with e.seeded():
                    sim.compute()
                fL = os.path.join(d, 'simL.h5')
                sim.to_file(fL, what='all', verb=0)
                flag = {'load': ['--load', 'simL.h5'], 'clean': ['--load', 'simL.h5', '--clean',
                                                                 '--model', 'model2.h5'],
                        'clean_gopts': ['--load', 'simL.h5', '--clean', '--model', 'model2.h5'],
                        'cache': ['--cache', 'simL.h5']}[name]
                text = '[solver_opts]\nmaxit = 1\n' + ('[gridding_opts]\nverb = 0\n'
                                                       if name == 'clean_gopts' else '')
                args = ['--path', d, '-m'] + flag
                a = e.cli(text, args)
                with e.seeded(), contextlib.redirect_stderr(_io.StringIO()), \
                        contextlib.redirect_stdout(_io.StringIO()):
                    # reference: the same calls through the API
                    sim.to_file(fL, what='all', verb=0) if name != 'cache' else None
                    s2 = emg3d.Simulation.from_file(fL, verb=0) if name != 'cache' else build()
                    if name == 'cache':
                        s2.compute()
                    if name.startswith('clean'):
                        s2.clean('computed')
                        s2.model = emg3d.load(os.path.join(d, 'model2.h5'), verb=0)['model']
                    s2.compute()
                    b = {'data': s2.data.synthetic, 'misfit': s2.misfit,
                         'n_observations': s2.survey.count}
                ok, why = e.same(a, b)
    except Exception as ex:                                   # harness problem, not a finding
        return {'harness_error': repr(ex)[:300], 'scenario': 'mode:' + name}
    e.n += 1
    if ok:
        return None
    sig = SIG_CLEAN if name == 'clean' and a.get('err') == 'KeyError' else \
        f"C18: {name} run differs from the equivalent API calls"
    return {'signature': sig, 'scenario': 'mode:' + name, 'config_text': text, 'cli_args': args,
            'observed': why, 'cli': _outcome(a), 'api': _outcome(b),
            'required': 'CLI run == equivalent API calls'}


MODES = ['save', 'load', 'clean', 'clean_gopts', 'cache']


# ------------------------- file format x options that look at loaded values
# A survey / model read from .h5, .npz or .json holds the same numbers in
# different containers (e.g. npz: frequencies are 0-d arrays).  Every option
# whose handling looks at the loaded values (gridding per frequency / source,
# [data] selections by name, layered mode) is therefore run for EVERY file
# format: (a) CLI on the <fmt> files == API on the same <fmt> files, and
# (b) == API on the h5 files (the result must not depend on the format).
# Enumerated deterministically (no random choice of format or value).
FORMATS = ['h5', 'npz', 'json']
FORMAT_OPTS = (
    [('gridding=' + g, {('simulation', 'gridding'): g})
     for g in ('single', 'same', 'frequency', 'source', 'both')]
    + [('sources', {('data', 'sources'): ['TxED-2']}),
       ('receivers', {('data', 'receivers'): ['RxEP-3', 'RxEP-1']}),
       ('frequencies', {('data', 'frequencies'): ['f-2']}),
       ('remove_empty', {('data', 'remove_empty'): True, ('data', 'sources'): ['TxED-2', 'TxED-1']}),
       ('frequencies+gridding=frequency', {('data', 'frequencies'): ['f-2', 'f-1'],
                                           ('simulation', 'gridding'): 'frequency'}),
       ('sources+gridding=both', {('data', 'sources'): ['TxED-2'],
                                  ('simulation', 'gridding'): 'both'}),
       ('layered', {('simulation', 'layered'): True}),
       ('layered+method=source', {('simulation', 'layered'): True, ('layered', 'method'): 'source',
                                  ('data', 'receivers'): ['RxEP-2', 'RxEP-3']})])
_FNS = ['forward', 'misfit', 'gradient']


def format_cases(thorough=False):
    """(option name, function) pairs; the function rotates deterministically so
    that forward, misfit and gradient are all run on every format (thorough:
    the full product)."""
    if thorough:
        return [(nm, fn) for nm, _ in FORMAT_OPTS for fn in _FNS]
    return [(nm, _FNS[i % 3]) for i, (nm, _) in enumerate(FORMAT_OPTS)]


def _scen_format(e, name, fn, fmt, cache=None):
    """CLI run on the <fmt> survey/model files with an option that looks at the
    loaded values, against the API on the same files and on the h5 files.
    None = holds, else a hit."""
    extra = dict(FORMAT_OPTS)[name]
    opts = {**BASE_FAST, **extra}
    spec = {'function': fn, 'opts': opts, 'format': fmt}
    text, args = e.spec_cli(spec)
    a = e.cli(text, args, out='emg3d_out.' + fmt)
    b = e.api(spec)
    key = (name, fn)
    if cache is not None and key in cache:
        c = cache[key]
    else:
        c = b if fmt == 'h5' else e.api({**spec, 'format': 'h5'})
        if cache is not None:
            cache[key] = c
    e.n += 1
    ok_ab, why_ab = e.same(a, b)
    ok_bc, why_bc = e.same(b, c)
    ok_ac, why_ac = e.same(a, c)
    # the same error on every side is agreement only if it is not an artefact of the container
    tag = 'format:' + ('ok' if ok_ab and ok_bc and ok_ac else 'differ')
    e.stats[tag] = e.stats.get(tag, 0) + 1
    if ok_ab and ok_bc and ok_ac:
        return None
    np = e.np
    if not ok_ab:
        why = f'CLI on {fmt} files != API on the same {fmt} files: ' + why_ab + _detail(np, a, b)
    elif not ok_bc:
        why = f'API on {fmt} files != API on h5 files: ' + why_bc + _detail(np, b, c)
    else:
        why = f'CLI on {fmt} files != API on h5 files: ' + why_ac + _detail(np, a, c)
    osum = ', '.join(f'[{s}] {k} = {render_value(v)}' for (s, k), v in extra.items())
    return {'signature': f"C18: survey/model files in {fmt} format with {osum}: "
                         f"{'CLI != API' if not ok_ab else 'result depends on the file format'}",
            'scenario': f'format:{name}:{fn}:{fmt}', 'config_text': text, 'cli_args': args,
            'files': {'survey': 'survey.' + fmt, 'model': 'model.' + fmt},
            'observed': why, 'cli': _outcome(a), 'api_same_files': _outcome(b),
            'api_h5_files': _outcome(c),
            'required': 'the CLI run writes the same data/misfit/gradient as the equivalent API calls '
                        'on the same survey and model files, whatever the format of these files '
                        '(h5, npz, json hold the same survey and model)'}


def run_formats(e, cases, sink, hist=None):
    """Full product cases x FORMATS; sink(hit) once per signature."""
    cache, seen, n = {}, set(), 0
    for (nm, fn) in cases:
        for fmt in FORMATS:
            h = _scen_format(e, nm, fn, fmt, cache)
            n += 1
            if hist is not None:
                hist[f'e2e:format:{fmt}'] = hist.get(f'e2e:format:{fmt}', 0) + 1
            if h and h['signature'] not in seen:
                seen.add(h['signature'])
                sink(h)
    return n


# --------------------------------------- [data] selections as written
# text of the [data] section  ->  the lists the API equivalent is called with:
# split at ',', strip, ORDER AS WRITTEN, NO de-duplication, empty names kept
# (Props/C18.v strlist_order_as_written; Survey.select keeps the order it is given).
DATA_SCEN = {
    'unsorted': ('sources = TxED-2, TxED-1\nreceivers = RxEP-3, RxEP-1, RxEP-2\nfrequencies = f-2, f-1\n',
                 dict(sources=['TxED-2', 'TxED-1'], receivers=['RxEP-3', 'RxEP-1', 'RxEP-2'],
                      frequencies=['f-2', 'f-1'])),
    'unsorted_rec': ('receivers = RxEP-3,RxEP-2\n', dict(receivers=['RxEP-3', 'RxEP-2'])),
    'repeated': ('receivers = RxEP-2, RxEP-1, RxEP-2\n',
                 dict(receivers=['RxEP-2', 'RxEP-1', 'RxEP-2'])),
    'trailing': ('receivers = RxEP-3, RxEP-1,\n', dict(receivers=['RxEP-3', 'RxEP-1', ''])),
}


def _scen_data(e, name, fn='forward'):
    """Real run with a [data] selection written in non-sorted order / with a
    repeated name / with a trailing comma, against survey.select(<the lists as
    written>) + Simulation through the API; the written data array is compared
    entry by entry, and the survey inside the --save file must list sources,
    receivers and frequencies in the order written."""
    emg3d, np = e.emg3d, e.np
    d = e.dir
    dtext, lists = DATA_SCEN[name]
    text = ('[files]\nsurvey = survey.h5\nmodel = model.h5\n[simulation]\ngridding = same\n'
            'max_workers = 1\n[solver_opts]\nmaxit = 1\nplain = True\n[noise_opts]\nadd_noise = False\n'
            '[data]\n' + dtext)
    args = ['--path', d, _FLAG[fn], '--output', 'emg3d_out.h5', '--save', 'simD.h5']
    simf = os.path.join(d, 'simD.h5')
    if os.path.exists(simf):
        os.remove(simf)
    a = e.cli(text, args)
    order_api = None
    try:
        with warnings.catch_warnings(), contextlib.redirect_stderr(_io.StringIO()), \
                contextlib.redirect_stdout(_io.StringIO()):
            warnings.simplefilter('ignore')
            survey = emg3d.load(os.path.join(d, 'survey.h5'), verb=0)['survey']
            model = emg3d.load(os.path.join(d, 'model.h5'), verb=0)['model']
            survey = survey.select(sources=lists.get('sources'), receivers=lists.get('receivers'),
                                   frequencies=lists.get('frequencies'), remove_empty=False)
            order_api = [list(survey.sources), list(survey.receivers), list(survey.frequencies)]
            sim = emg3d.Simulation(survey=survey, model=model, gridding='same', max_workers=1,
                                   solver_opts={'maxit': 1, 'plain': True}, verb=-1, tqdm_opts=False,
                                   name='emg3d CLI run',
                                   **({'receiver_interpolation': 'linear'} if fn == 'gradient' else {}))
            if fn == 'forward':
                sim.compute(observed=True, add_noise=False)
                b = {'data': sim.data.observed}
            else:
                sim.compute()
                b = {'data': sim.data.synthetic, 'misfit': sim.misfit,
                     'n_observations': sim.survey.count}
                if fn == 'gradient':
                    b['gradient'] = sim.gradient
    except Exception as ex:
        b = {'err': type(ex).__name__, 'msg': str(ex)[:300]}
    e.n += 1
    ok, why = e.same(a, b)
    order_cli = None
    if ok and 'err' not in a:
        try:
            with warnings.catch_warnings():
                warnings.simplefilter('ignore')
                sv = emg3d.Simulation.from_file(simf, verb=0).survey
            order_cli = [list(sv.sources), list(sv.receivers), list(sv.frequencies)]
        except Exception as ex:
            order_cli = 'unreadable: ' + repr(ex)[:100]
        if order_cli != order_api:
            ok, why = False, f'order of the survey in the --save file: CLI {order_cli} / API {order_api}'
    if ok:
        return None
    if 'err' not in a and 'err' not in b:
        why += _detail(np, a, b) + _first_entry(np, a, b)
    return {'signature': f"C18: [data] selection as written ({name}): CLI != survey.select(...) + API",
            'scenario': f'data:{name}:{fn}', 'config_text': text, 'cli_args': args,
            'api_select': lists, 'observed': why, 'cli': _outcome(a), 'api': _outcome(b),
            'required': 'sources/receivers/frequencies are used in the order written, without '
                        'de-duplication: the data array equals the API result entry by entry'}


def _first_entry(np, a, b):
    x, y = np.asarray(a.get('data')), np.asarray(b.get('data'))
    if x.shape != y.shape or x.ndim != 3:
        return ''
    neq = ~((x == y) | (np.isnan(x) & np.isnan(y)))
    if not neq.any():
        return ''
    i = tuple(int(v) for v in np.argwhere(neq)[0])
    return f' [first differing entry data{list(i)}: CLI {complex(x[i])!r} / API {complex(y[i])!r}]'


# ------------------------------------------------- multi-step CLI sequences
SEQ_KINDS = ['load', 'load_clean', 'cache', 'cache_clean']
_FLAG = {'forward': '-f', 'misfit': '-m', 'gradient': '-g'}
SEQ_CFG = ('[simulation]\ngridding = same\nmax_workers = 1\nreceiver_interpolation = linear\n'
           '[solver_opts]\nmaxit = 2\nplain = True\n[noise_opts]\nadd_noise = False\n')


def _scen_sequence(e, fn1, kind, fn2, fn3):
    """A history through the real entry point, every step compared exactly with
    what the Python API gives for the survey and model the step works on:

      1. emg3d -{fn1} --model model.h5 --save simQ.h5          (real run)
      2. emg3d -{fn2} --load|--cache simQ.h5 [--clean --model model2.h5]
      3. emg3d -{fn3} --load simQ.h5                            (fn3 may be None)

    Reference of step 1 and of every --clean step = a FRESH
    Simulation(survey, model, same options): the survey with the observed data
    the step finds (survey file / stored simulation) and the model the step
    works on (the documented meaning of --clean is 'replace model and all
    computed data of loaded simulation').  Reference of a step without --clean
    = Simulation.from_file(stored simulation) and the same calls through the
    API (stored fields legitimately serve as starting guess of the solver).
    None = holds, else a hit."""
    emg3d, np = e.emg3d, e.np
    d = e.dir
    simf = os.path.join(d, 'simQ.h5')
    if os.path.exists(simf):
        os.remove(simf)
    sim_kw = dict(gridding='same', max_workers=1, receiver_interpolation='linear',
                  solver_opts={'maxit': 2, 'plain': True}, verb=-1, tqdm_opts=False,
                  name='emg3d CLI run')
    tail = {'load': ['--load', 'simQ.h5'],
            'load_clean': ['--load', 'simQ.h5', '--clean', '--model', 'model2.h5'],
            'cache': ['--cache', 'simQ.h5'],
            'cache_clean': ['--cache', 'simQ.h5', '--clean', '--model', 'model2.h5']}[kind]
    steps = [(fn1, ['--model', 'model.h5', '--save', 'simQ.h5'], 'model')]
    file_model = 'model'
    steps.append((fn2, tail, 'model2' if kind.endswith('clean') else file_model))
    if kind == 'cache_clean':
        file_model = 'model2'
    if fn3:
        steps.append((fn3, ['--load', 'simQ.h5'], file_model))
    scen = f"sequence:{fn1}:{kind}:{fn2}:{fn3 or '-'}"
    done = []
    try:
        for i, (fn, extra, mname) in enumerate(steps, 1):
            args = ['--path', d, '--survey', 'survey.h5', _FLAG[fn], '--output', 'emg3d_out.h5'] + extra
            done.append(args)
            with warnings.catch_warnings(), contextlib.redirect_stderr(_io.StringIO()), \
                    contextlib.redirect_stdout(_io.StringIO()):
                warnings.simplefilter('ignore')
                if i == 1:
                    survey = emg3d.load(os.path.join(d, 'survey.h5'), verb=0)['survey']
                else:
                    survey = emg3d.Simulation.from_file(simf, verb=0).survey.copy()
                    for k in list(survey.data.keys()):
                        if k != 'observed':
                            del survey.data[k]
                model = emg3d.load(os.path.join(d, mname + '.h5'), verb=0)['model']
                try:
                    if i == 1 or '--clean' in extra:
                        # nothing of an earlier model may survive: fresh simulation
                        ref = emg3d.Simulation(survey=survey, model=model, **sim_kw)
                    else:
                        # no --clean: the stored simulation continues (stored fields are the
                        # starting guess of the solver): the same calls through the API
                        ref = emg3d.Simulation.from_file(simf, verb=0)
                    if fn == 'forward':
                        ref.compute(observed=True, add_noise=False)
                        b = {'data': ref.data.observed}
                    else:
                        ref.compute()
                        b = {'data': ref.data.synthetic, 'misfit': ref.misfit,
                             'n_observations': ref.survey.count}
                        if fn == 'gradient':
                            b['gradient'] = ref.gradient
                except Exception as ex:
                    b = {'err': type(ex).__name__, 'msg': str(ex)[:300]}
            a = e.cli(SEQ_CFG, args)
            e.n += 1
            ok, why = e.same(a, b)
            if not ok:
                return {'signature': f"C18: CLI history {scen}: step {i} differs from "
                                     f"Simulation(survey, model) through the API",
                        'scenario': scen, 'config_text': SEQ_CFG, 'cli_steps': done,
                        'failing_step': i, 'model_of_step': mname + '.h5',
                        'observed': f'step {i} ({fn}): ' + why + _detail(np, a, b),
                        'cli': _outcome(a), 'api': _outcome(b),
                        'required': 'every step writes the data/misfit/gradient the API gives for '
                                    'the same survey and the model the step works on'}
    except Exception as ex:                                   # harness problem, not a finding
        return {'harness_error': repr(ex)[:300], 'scenario': scen}
    return None


def _detail(np, a, b):
    if 'err' in a or 'err' in b:
        return ''
    out = []
    for k in ('misfit', 'gradient', 'data'):
        if k in a and k in b:
            x, y = np.asarray(a[k]), np.asarray(b[k])
            if x.shape == y.shape and not np.array_equal(x, y, equal_nan=True):
                if x.shape == ():
                    out.append(f'{k}: CLI {float(x)!r} / API {float(y)!r}')
                else:
                    den = np.nanmax(np.abs(y)) or 1.0
                    out.append(f'{k}: max rel. diff {float(np.nanmax(np.abs(x - y)) / den):.3e}')
    return ' [' + '; '.join(out) + ']' if out else ''


def seq_product():
    fns = ['forward', 'misfit', 'gradient']
    out = []
    for fn1 in fns:
        for kind in SEQ_KINDS:
            for fn2 in fns:
                if kind.startswith('cache'):
                    out += [(fn1, kind, fn2, fn3) for fn3 in fns]
                else:
                    out.append((fn1, kind, fn2, None))
    return out


SEQ_QUICK = [('misfit', 'cache_clean', 'gradient', 'misfit'),
             ('gradient', 'load_clean', 'gradient', None)]


def run_sequences(ctx, e, seqs, sink):
    """sink(hit) for every failing sequence; returns number run."""
    seen = set()
    for sq in seqs:
        h = _scen_sequence(e, *sq)
        if h and 'harness_error' in h:
            ctx.notes.append('sequence harness error: ' + str(h))
        elif h and h['signature'] not in seen:
            seen.add(h['signature'])
            sink(h)
    return len(seqs)


def not_accepted(T):
    """Parser entries whose (translated) key the routed API function rejects --
    the python twin of Proofs.Cli.entry_accepted, used to aim the searcher."""
    acc = T['api']
    tr = {(p, o): n for (p, o, n) in T['run']['translations']}
    bad = []
    for (s, k, ty, pa) in T['parser']['entries']:
        if tr.get((pa, k), k) not in acc.get(pa, []):
            bad.append((s, k, ty, pa))
    return bad


def _hit_from_spec(e, spec, sig_prefix, scenario):
    h = e.check_spec(spec)
    if h is None:
        return None
    ks = ', '.join(f'[{s}] {k}' for (s, k) in spec['opts'] if (s, k) not in BASE_FAST)
    h['signature'] = f"{sig_prefix}: {ks}" if sig_prefix else f"C18: CLI != API for {ks}"
    h['scenario'] = scenario
    return h


def doc_keys(T):
    if T is None:
        return list(E2E_VALUES)
    return [(s, k) for (s, k, ty) in T['doc']['doc'] if (s, k) in E2E_VALUES]


def _tables_or_none(ctx):
    """Tables, or None when they can neither be extracted nor recalled (the
    end-to-end scenarios then run on the static documented-key list)."""
    try:
        return _tables(ctx)
    except Exception as ex:
        if not getattr(ctx, 'c18_no_tables_noted', False):
            ctx.c18_no_tables_noted = True
            ctx.notes.append('no option tables available (' + repr(ex)[:160] + '): parse/run '
                             'correspondences skipped, end-to-end scenarios use the static key list')
        return None


def e2e_sample(ctx, dis, hist, samples):
    """Small end-to-end sample for the quick tier (and first stage of the
    searcher): a few documented keys, all precedence scenarios, all modes."""
    T = _tables_or_none(ctx)
    rng = ctx.rng
    e = E2E()
    n = 0
    try:
        keys = doc_keys(T)
        picks = rng.sample(keys, 8 if ctx.thorough else 4)
        for (s, k) in picks:
            spec = single_key_spec(rng, s, k)
            h = _hit_from_spec(e, spec, '', 'spec')
            hist['e2e:key'] = hist.get('e2e:key', 0) + 1
            if h:
                dis.append({'what': 'end-to-end: ' + h['observed'], 'case': h,
                            'signature': h['signature']})
        for nm in PRECEDENCE:
            h = _scen_precedence(e, nm)
            hist['e2e:precedence'] = hist.get('e2e:precedence', 0) + 1
            if h:
                dis.append({'what': 'end-to-end precedence: ' + h['observed'], 'case': h,
                            'signature': h['signature']})
        for sec in _sections(T):
            for variant in ('lone', 'mixed'):
                h = _scen_unknown(e, sec, variant)
                hist['e2e:unknown:' + variant] = hist.get('e2e:unknown:' + variant, 0) + 1
                if h:
                    dis.append({'what': f'end-to-end unknown option ({variant}): ' + h['observed'],
                                'case': h, 'signature': h['signature']})
        nf = run_formats(e, format_cases(False),
                         lambda h: dis.append({'what': 'end-to-end file format: ' + h['observed'],
                                               'case': h, 'signature': h['signature']}), hist)
        hist['e2e:format'] = nf
        for nm in MODES:
            h = _scen_mode(e, nm)
            hist['e2e:mode'] = hist.get('e2e:mode', 0) + 1
            if h and 'harness_error' in h:
                ctx.notes.append('e2e mode harness error: ' + str(h))
            elif h:
                dis.append({'what': 'end-to-end mode: ' + h['observed'], 'case': h,
                            'signature': h['signature']})
        for nm in DATA_SCEN:
            h = _scen_data(e, nm, 'forward' if nm != 'unsorted_rec' else 'misfit')
            hist['e2e:data'] = hist.get('e2e:data', 0) + 1
            if h:
                dis.append({'what': 'end-to-end [data] selection: ' + h['observed'], 'case': h,
                            'signature': h['signature']})
        seqs = SEQ_QUICK + [ctx.rng.choice(seq_product())]
        if ctx.thorough:
            seqs += ctx.rng.sample(seq_product(), 6)
        hist['e2e:sequence'] = run_sequences(
            ctx, e, seqs, lambda h: dis.append({'what': 'end-to-end sequence: ' + h['observed'],
                                                'case': h, 'signature': h['signature']}))
        n = e.n
        hist.update({'e2e:' + k: v for k, v in e.stats.items()})
        samples.append({'e2e_keys': [list(p) for p in picks], 'precedence': PRECEDENCE, 'modes': MODES,
                        'unknown_only_sections': _sections(T),
                        'format_product': {'formats': FORMATS,
                                           'cases': [list(c) for c in format_cases(False)]}})
    finally:
        e.close()
    return n


# ------------------------------------------------------------ driver API
def correspondence(ctx):
    dis, hist, samples = [], {}, []
    T = _tables_or_none(ctx)
    np_ = nt_p = nr = nt_r = 0
    if T is not None:
        np_, nt_p = parse_correspondence(ctx, 2000 if ctx.thorough else 300, dis, hist, samples)
        nr, nt_r = run_correspondence(ctx, 900 if ctx.thorough else 140, dis, hist, samples)
    else:
        dis.append({'what': 'option tables unavailable: parse/run correspondences could not run'})
    ne = e2e_sample(ctx, dis, hist, samples)
    if T is not None:
        doc = {(s, k) for (s, k, t) in T['doc']['doc']}
        und = [f'[{s}] {k}' for (s, k, t, p) in T['parser']['entries'] if (s, k) not in doc]
        ctx.notes.append('parsed but undocumented options: ' + ', '.join(und))
    ctx.notes.append('unknown SECTIONS of the configuration file are silently ignored by '
                     'parse_config_file (only unknown keys inside known sections are rejected)')
    return {
        'evaluations': np_ + nr + ne,
        'distinct_nontrivial': nt_p + nt_r,
        'rule': "parse: generated configuration files (random subsets of the keys in the regenerated "
                "parser table, random typed texts, random layout/case/inline comments) + terminal "
                "dictionaries; ~36% malformed (unknown key, key in wrong section, bad typed text, "
                "2-part list of lists, unexpected terminal key, several functions, empty file name, "
                "unknown section); emg3d.cli.parser.parse_config_file vs Coq `parse` (vm_compute), "
                "compared on function, verbosity, files, every option value (floats exactly) and "
                "error class/section.  run: emg3d.cli.run.simulation with Simulation/io/models "
                "replaced by recorders vs Coq `run` (call sequence, constructor kwargs, noise kwargs, "
                "select kwargs, saved keys, dry-run zeros).  e2e: real runs of emg3d.cli.main.main on "
                "a 4^3 problem vs the equivalent API calls, outputs compared exactly; deterministic "
                "products: (every section) x (unknown option alone / next to a documented one) must "
                "raise TypeError, and (survey+model file format h5/npz/json) x (every [simulation] "
                "gridding value, [data] selections, layered) with CLI == API on the same files == API "
                "on the h5 files.  distinct = "
                "distinct (configuration, terminal) pairs / call traces; non-trivial = not the empty "
                "configuration with default terminal",
        'samples': samples[:6],
        'traces_validated_against_impl': nr + ne,
        'histogram': hist,
        'disagreements': dis,
    }


def search(ctx, broken):
    T = _tables_or_none(ctx)
    rng = ctx.rng
    hits = []
    e = E2E()
    try:
        # 1. aim at what the tables say is not accepted downstream
        for (s, k, ty, pa) in (not_accepted(T) if T is not None else []):
            if (s, k) in E2E_VALUES:
                spec = {'function': 'forward', 'format': 'h5',
                        'opts': {**base_opts(s, k), (s, k): E2E_VALUES[(s, k)][0]}}
                if s == 'gridding_opts' and k == 'expand':
                    continue
                h = _hit_from_spec(e, spec, 'C18: documented key is parsed but rejected downstream',
                                   'spec')
                if h:
                    hits.append(h)
            else:
                ctx.notes.append(f'parser entry [{s}] {k} -> {pa} is not accepted downstream but '
                                 f'is undocumented (no end-to-end value known)')
        # 2. precedence, unknown keys, modes
        for nm in PRECEDENCE:
            h = _scen_precedence(e, nm)
            if h:
                hits.append(h)
        for sec in _sections(T):
            for variant in ('lone', 'mixed'):
                h = _scen_unknown(e, sec, variant)
                if h and not any(x['signature'] == h['signature'] for x in hits):
                    hits.append(h)
        # 2a. file format x options that look at the loaded values (thorough: x every function)
        nfm = run_formats(e, format_cases(ctx.thorough), hits.append)
        ctx.notes.append(f'searcher: {nfm} file-format runs (options x h5/npz/json)')
        for nm in MODES:
            h = _scen_mode(e, nm)
            if h and 'harness_error' not in h:
                hits.append(h)
        for nm in DATA_SCEN:
            for fn in (['forward', 'misfit', 'gradient'] if ctx.thorough else ['forward']):
                h = _scen_data(e, nm, fn)
                if h and not any(x['signature'] == h['signature'] for x in hits):
                    hits.append(h)
        # 2b. CLI histories: save -> load / cache (+clean with another model) -> load
        allseq = seq_product()
        seqs = allseq if ctx.thorough else SEQ_QUICK + rng.sample(allseq, 10)
        nseq = run_sequences(ctx, e, seqs, hits.append)
        ctx.notes.append(f'searcher: {nseq} multi-step CLI histories '
                         f'({"full product" if ctx.thorough else "fixed two + 10 random"})')
        # 3. every documented key alone, then random combinations
        if ctx.thorough or not hits:
            keys = doc_keys(T)
            seen = {h['signature'] for h in hits}
            for (s, k) in keys:
                for fn in (['forward', 'gradient'] if ctx.thorough else [None]):
                    h = _hit_from_spec(e, single_key_spec(rng, s, k, fn), '', 'spec')
                    if h and h['signature'] not in seen:
                        seen.add(h['signature'])
                        hits.append(h)
            ok_keys = [p for p in keys if not any(f'[{p[0]}] {p[1]}' in sg for sg in seen)]
            for _ in range(40 if ctx.thorough else 12):
                h = _hit_from_spec(e, combo_spec(rng, ok_keys), '', 'spec')
                if h and h['signature'] not in seen:
                    seen.add(h['signature'])
                    hits.append(h)
        ctx.notes.append(f'searcher: {e.n} end-to-end CLI-vs-API comparisons; outcome classes {e.stats}; '
                         f'cases where CLI and API raise the same error: {e.both_err[:12]}')
    finally:
        e.close()
    return hits


def replay(ctx, payload):
    fi = payload.get('failing_input')
    if not fi or 'scenario' not in fi:
        return False
    e = E2E()
    try:
        sc = fi['scenario']
        if sc == 'spec':
            return e.check_spec(spec_from_json(fi['spec'])) is None
        kind, name = sc.split(':', 1)
        if kind == 'precedence':
            return _scen_precedence(e, name) is None
        if kind == 'unknown':
            sec, _, variant = name.partition(':')
            return _scen_unknown(e, sec, variant or 'lone') is None
        if kind == 'format':
            nm, fn, fmt = name.rsplit(':', 2)
            return _scen_format(e, nm, fn, fmt) is None
        if kind == 'mode':
            return _scen_mode(e, name) is None
        if kind == 'data':
            nm, fn = name.split(':')
            return _scen_data(e, nm, fn) is None
        if kind == 'sequence':
            fn1, k2, fn2, fn3 = name.split(':')
            return _scen_sequence(e, fn1, k2, fn2, None if fn3 == '-' else fn3) is None
        return False
    finally:
        e.close()
