"""C08 -- sensitivity products: J v is the data derivative, J^T its exact adjoint.

Theorems: coq/Props/C08.v (same abstract section as C07, Model/Adjoint.v).
Correspondence: every linear solve of real tiny Simulations is recorded; the Coq
definitions `jvec_source` (source of the jvec solve: chain rule, anisotropy
stacking, edge-mass derivative, -smu0), `rsource` with `jt_residual` (jtvec's
residual := vector / weights) and `gradient_pipeline` are evaluated on exact
rationals against what the implementation fed to / got from the solver and
against Simulation.jvec / .jtvec.  Numerical validation of the section
hypotheses that are third-party: V/VT transposes (emg3d volume averaging vs
discretize's matrix) for the non-'same' gridding modes.
Searcher: dot-product test over gridding modes and file_dir; FD of the data.
"""
import os
import re
import shutil
import tempfile

import numpy as np

from vlib import adjgen
from vlib import adjh as H
from vlib import core as V
from vlib import mapsgen

ID = 'C08'
LEVEL_TEXT = (
    "Coq theorems (Props/C08.v), same generality as C07 (any field with involution, any finite index "
    "sets): with exact solutions, d(sigma+delta) - d(sigma) = J delta + P rho where rho solves the "
    "system with the source -smu0 (e'-e) Av(delta) (exact form of 'J v is the directional "
    "derivative'); for EVERY pair V/VT of transposes between model space and the computational "
    "cells (identity, anisotropy aliasing, volume averaging to any grid -- hence every gridding "
    "mode), Re sum conj(w) (J v) = <J^T w, v> for all real v and all data-shaped w; jtvec of the "
    "weighted residual poses exactly the adjoint problem of the gradient; sums over source-frequency "
    "pairs accumulate; the model's volume-average pair (forward v_apply after the chain factor on the "
    "model grid in jvec, accumulating vt_add before the chain factor on the model grid in "
    "gradient/jtvec) is a transpose pair for every entry list. HISTORIES (Model/JtWeights.v: current "
    "standard deviation of the survey, weights cached by the first misfit, misfit cache; operations "
    "misfit / gradient / jvec / any noise-model change / clean('computed') / jtvec): by induction over "
    "ALL operation sequences from ALL states with real non-zero standard deviations, jtvec never fails, "
    "hands the back-propagation solve the source -P^T conj(w) -- independent of noise model, cached "
    "weights and history, equal for a re-used and a fresh simulation --, satisfies the adjoint identity "
    "on every reachable state, applied to the residual times the weights the state holds poses the "
    "gradient's adjoint problem, and leaves the weight book-keeping as a misfit evaluation leaves it.")
LEVEL_NOTE = (
    "Partial: exact linear solves are hypotheses (oracles in the correspondence; solver accuracy is "
    "C01), symmetry of K0 is C02, receiver rows C09. discretize's get_edge_inner_product_deriv and "
    "volume_average(...).T are third party: that the former equals e * M_e(vol dsigma) on the edges "
    "where e /= 0 is checked by the correspondence (model jvec_source vs the recorded source), that "
    "the latter is the transpose of emg3d's interp_volume_average is validated numerically per case "
    "(C15 territory). The Python glue is a hand model tied at 1e-9 relative; rounding not modelled. "
    "The weight state machine is a hand model of misfit/jvec/jtvec/_get_rfield/clean, tied by history "
    "streams over every documented noise-model change (data['weights'] after every operation, source "
    "of every back-propagation solve); NaN weights are outside it (fixed mask `fin`; vectors are zero "
    "where the observation is NaN); survey.add_noise / compute(observed=True, add_noise=True) draw from an "
    "unseedable generator and are exercised with add_noise=False only.")
TECHNIQUE = ("Coq proof (abstract linear algebra, finite sums) + differential correspondence with "
             "recorded solver oracles (vm_compute on exact rationals)")
DESIGN_REF = "DESIGN.md section 6 C08"
PROPS = 'Props/C08.v'
GEN = []


def gen_maps(ctx):
    mapsgen.generate(V.REPO, V.COQ)


def order_anchor(ctx):
    """Fail closed on a reordering of chain rule and volume averaging:
    in Simulation.jvec every map.derivative_chain call acts on the user vector
    with a property array of self.model and precedes maps.interpolate; in
    Simulation.gradient _interp_volume_average_adj precedes every
    derivative_chain call, which use self.model.property_*."""
    import ast
    src = open(os.path.join(V.REPO, 'emg3d', 'simulations.py')).read()
    cls = next(n for n in ast.parse(src).body if isinstance(n, ast.ClassDef) and n.name == 'Simulation')
    fns = {n.name: n for n in cls.body if isinstance(n, ast.FunctionDef)}

    def calls(fn, attr):
        return [c for c in ast.walk(fn) if isinstance(c, ast.Call)
                and isinstance(c.func, ast.Attribute) and c.func.attr == attr]

    def on_self_model(arg):
        return (isinstance(arg, ast.Attribute) and arg.attr.startswith('property_')
                and isinstance(arg.value, ast.Attribute) and arg.value.attr == 'model'
                and isinstance(arg.value.value, ast.Name) and arg.value.value.id == 'self')
    for name, first_attr, then_attr in (('jvec', 'derivative_chain', 'interpolate'),
                                        ('gradient', '_interp_volume_average_adj', 'derivative_chain')):
        fn = fns[name]
        a, b_ = calls(fn, first_attr), calls(fn, then_attr)
        if not a or not b_:
            raise RuntimeError(f"Simulation.{name}: expected calls of {first_attr} and {then_attr}")
        if max(c.lineno for c in a) >= min(c.lineno for c in b_):
            raise RuntimeError(f"Simulation.{name}: {first_attr} no longer precedes {then_attr} "
                               f"(chain rule / volume averaging reordered)")
        for c in calls(fn, 'derivative_chain'):
            if len(c.args) != 2 or not on_self_model(c.args[1]):
                raise RuntimeError(f"Simulation.{name}: derivative_chain is not applied with a property "
                                   f"array of self.model (line {c.lineno})")


PREBUILD = [adjgen.prebuild, gen_maps, order_anchor]
TRUSTED = [
    "recorder around emg3d._multiprocessing.solve (in-process): source fields and results of all solves",
    "chain factors of the log maps evaluated in floats from the expression trees of Gen/MapsMap.v",
    "py/vlib/adjgen.py desugaring of `nx, ny, nz = volumes.shape` before py2coq",
]
ASSUMES = [
    "exact linear solves (theorem hypotheses)",
    "frequency domain, real non-zero weights on finite data, real model vectors v",
    "J v = derivative clause: computational grid = model grid; adjointness: any V with transpose VT",
]


def model_vec(npr, spec):
    nx, ny, nz = len(spec['hx']), len(spec['hy']), len(spec['hz'])
    nc = H.NCOMP[spec['aniso']]
    v = np.round(npr.uniform(-1, 1, (nc, nx, ny, nz)) * 64) / 64
    return v[0] if nc == 1 and npr.uniform() < 0.5 else v


def data_vec(npr, shape, amp):
    y = (np.round(npr.uniform(-1, 1, shape) * 32) + 1j * np.round(npr.uniform(-1, 1, shape) * 32)) / 32
    amp = np.where(np.isfinite(amp) & (amp > 0), amp, 1.0)
    return y * 2.0 ** np.round(np.log2(amp))


def chain_arrays(spec, model):
    px = np.array(model.property_x)
    py = np.array(model.property_y) if model.property_y is not None else px
    pz = np.array(model.property_z) if model.property_z is not None else px
    return [H.chain_model(spec['mapping'], a) for a in (px, py, pz)]


def run_case(spec, seed):
    npr = np.random.RandomState(seed)
    v = model_vec(npr, spec)
    # ---- jvec on a fresh simulation
    with H.Recorder() as rec, H.quiet():
        sim = H.new_sim(spec, solver=H.LOOSE)
        vin = v.copy()
        jv = np.array(sim.jvec(vin))
    user_vector_untouched = bool(np.array_equal(vin, v))
    srcfreq = list(sim._srcfreq)
    nsf = len(srcfreq)
    assert len(rec.calls) == 2 * nsf
    fwd, jcalls = rec.calls[:nsf], rec.calls[nsf:]
    grid = sim.model.grid
    nx, ny, nz = grid.shape_cells
    vol = grid.cell_volumes.reshape(grid.shape_cells, order='F')
    cx, cy, cz = chain_arrays(spec, sim.model)
    nc = H.NCOMP[spec['aniso']]
    v4 = v.reshape((nc, nx, ny, nz))
    L = [H.HEADER, f"Definition vol := {H.karr3(vol)}."]
    for nm, a in (('cx', cx), ('cy', cy), ('cz', cz)):
        L.append(f"Definition {nm} := {H.karr3(a)}.")
    L.append("Definition vv := [" + '; '.join(H.karr3(v4[c]) for c in range(nc)) + "].")
    impl_js, hyp = [], []
    names_s = list(sim.survey.sources.keys())
    names_f = list(sim.survey.frequencies.keys())
    nrec = sim.survey.shape[1]
    for k, (sn, fn) in enumerate(srcfreq):
        e = fwd[k][1][0]
        L.append(f"Definition e_{k} := {H.kfield3(e)}.")
        L.append(f"Definition js_{k} := jvec_source {spec['aniso']} vol {H.kq(complex(e.smu0))} "
                 f"e_{k} vv cx cy cz.")
        L.append(f"Eval vm_compute in dump3 out_c {nx} {ny + 1} {nz + 1} (fst (fst js_{k})) ++ "
                 f"dump3 out_c {nx + 1} {ny} {nz + 1} (snd (fst js_{k})) ++ "
                 f"dump3 out_c {nx + 1} {ny + 1} {nz} (snd js_{k}).")
        sf = jcalls[k][0]['sfield']
        impl_js.append(np.r_[np.array(sf.fx).ravel(), np.array(sf.fy).ravel(), np.array(sf.fz).ravel()])
        # J v = P u  (u = recorded result of the solve)
        u = jcalls[k][1][0]
        rows = H.unit_rows(sim, sn, fn)
        si, fi = names_s.index(sn), names_f.index(fn)
        for j in range(nrec):
            hyp.append((complex(jv[si, j, fi]), complex(np.sum(rows[j] * u.field))))
    # ---- jtvec on another fresh simulation
    with H.Recorder() as rec2, H.quiet():
        sim2 = H.new_sim(spec, solver=H.LOOSE)
        _ = sim2.misfit
        wts = np.array(sim2.data.weights.data, dtype=float)
        amp = np.abs(np.array(spec['amp']))
        y = data_vec(npr, sim2.survey.shape, amp * np.where(np.isfinite(wts), wts, 1.0))
        yin = y.copy()
        jt = np.array(sim2.jtvec(yin))
        grad_after = np.array(sim2.gradient)
    assert len(rec2.calls) >= 2 * nsf
    fwd2, bwd2 = rec2.calls[:nsf], rec2.calls[nsf:2 * nsf]
    with np.errstate(invalid='ignore', divide='ignore'):
        res = y / wts
    fin = np.isfinite(res)
    impl_rs = []
    for k, (sn, fn) in enumerate(srcfreq):
        si, fi = names_s.index(sn), names_f.index(fn)
        rows = H.unit_rows(sim2, sn, fn)
        e = fwd2[k][1][0]
        supp = np.zeros(rows[0].size, bool)
        for r_ in rows:
            supp |= (r_ != 0)
        idx = list(np.flatnonzero(supp))
        yy = [y[si, j, fi] if fin[si, j, fi] else 3.0 for j in range(nrec)]
        ww = [wts[si, j, fi] if fin[si, j, fi] else 2.0 for j in range(nrec)]
        L.append(f"Definition p_{k} := lkr [" + ';\n '.join(H.klist(r_[idx]) for r_ in rows) + "].")
        L.append(f"Definition y_{k} := lk {H.klist(yy)}.")
        L.append(f"Definition w_{k} := lk {H.klist(ww)}.")
        L.append(f"Definition f_{k} := lkb [" +
                 '; '.join(V.coq_bool(fin[si, j, fi]) for j in range(nrec)) + "].")
        L.append(f"Eval vm_compute in map (fun i => out_c (rsource cj (range {nrec}) "
                 f"{H.kq(complex(e.smu0))} p_{k} f_{k} w_{k} (jt_residual w_{k} y_{k}) i)) "
                 f"(range {len(idx)}).")
        impl_rs.append(np.array(bwd2[k][0]['sfield'].field)[idx])
    items = []
    for k in range(nsf):
        e, b = fwd2[k][1][0], bwd2[k][1][0]
        L.append(f"Definition e2_{k} := {H.kfield3(e)}.")
        L.append(f"Definition b2_{k} := {H.kfield3(b)}.")
        items.append(f"({H.kq(complex(e.smu0))}, e2_{k}, b2_{k})")
    L.append(f"Eval vm_compute in map (dump3 out_c {nx} {ny} {nz}) (gradient_pipeline cj "
             f"{spec['aniso']} {nx} {ny} {nz} vol [{'; '.join(items)}] cx cy cz).")
    impl = dict(js=impl_js, rs=impl_rs, jt=jt, hyp=hyp, shape=(nx, ny, nz),
                untouched=user_vector_untouched and bool(np.array_equal(yin, y, equal_nan=True)),
                syn_finite=np.isfinite(np.array(sim.data.synthetic.data)),
                jv=jv, obs_nan=~np.isfinite(np.array(sim.data.observed.data)),
                grad_after_finite=bool(np.all(np.isfinite(grad_after))))
    return '\n'.join(L) + '\n', impl


def compare(spec, impl, out, dis):
    ans = V.eval_answers(out)
    b = H.brief(spec)
    nsf = len(impl['js'])
    if len(ans) != 2 * nsf + 1:
        dis.append({'what': 'unexpected number of model answers', 'case': b, 'log': out[-800:]})
        return
    for k in range(nsf):
        mod = np.array(H.parse_c(ans[k]))
        iv = impl['js'][k]
        scale = float(np.max(np.abs(iv)))
        if len(mod) != len(iv) or np.max(np.abs(mod - iv)) > 1e-9 * max(scale, 1e-300):
            kk = int(np.argmax(np.abs(mod - iv))) if len(mod) == len(iv) else -1
            dis.append({'what': 'jvec source field differs from model jvec_source', 'case': b,
                        'srcfreq': k, 'index': kk, 'impl': str(iv[kk]), 'model': str(mod[kk])})
            break
    for k in range(nsf):
        mod = np.array(H.parse_c(ans[nsf + k]))
        iv = impl['rs'][k]
        scale = float(np.max(np.abs(iv))) if len(iv) else 0.0
        if len(mod) != len(iv) or (len(iv) and np.max(np.abs(mod - iv)) > 1e-9 * max(scale, 1e-300)):
            dis.append({'what': 'jtvec residual source differs from model rsource(jt_residual)',
                        'case': b, 'srcfreq': k})
            break
    nx, ny, nz = impl['shape']
    nc = H.NCOMP[spec['aniso']]
    gm = np.array(H.parse_c(ans[2 * nsf])).reshape((nc, nx, ny, nz))
    jt = impl['jt']
    want = (nx, ny, nz) if nc == 1 else (nc, nx, ny, nz)
    if tuple(jt.shape) != want:
        dis.append({'what': 'jtvec shape', 'case': b, 'impl': list(jt.shape), 'model': list(want)})
    else:
        gi = jt.reshape((nc, nx, ny, nz))
        scale = float(np.max(np.abs(gi)))
        err = np.abs(gi - gm.real)
        if np.max(err) > 1e-9 * max(scale, 1e-300):
            kk = np.unravel_index(int(np.argmax(err)), err.shape)
            dis.append({'what': 'Simulation.jtvec differs from model gradient_pipeline', 'case': b,
                        'entry': [int(x) for x in kk], 'impl': float(gi[kk]),
                        'model': float(gm.real[kk])})
    for (d, pe) in impl['hyp']:
        if np.isfinite(d) and abs(d - pe) > 1e-9 * max(abs(d), abs(pe), 1e-300):
            dis.append({'what': 'Simulation.jvec entry is not <receiver row, solved field>',
                        'case': b, 'impl': str(d), 'model': str(pe)})
            break
    if not impl['untouched']:
        dis.append({'what': 'jvec/jtvec modified the user-provided vector', 'case': b})
    if not np.all(np.isfinite(impl['jv'][impl['syn_finite']])):
        dis.append({'what': 'jvec has non-finite entries', 'case': b})



def comp_grids_for(spec, mode, npr):
    """gridding_opts for the explicit non-'same' modes: one tiny grid ('input')
    or one per source-frequency pair ('dict')."""
    survey = H.make_survey(spec)
    if mode == 'input':
        return H.comp_grid(spec, npr)
    return {sn: {fn: H.comp_grid(spec, npr) for fn in survey.frequencies.keys()}
            for sn in survey.sources.keys()}


def run_tcase(spec, seed, mode):
    """jtvec with a computational grid /= model grid and >= 2 source-frequency
    pairs: the per-pair gradients must be ACCUMULATED on the model grid through
    the transposed volume averaging.  Coq: gradient_pipeline_T."""
    npr = np.random.RandomState(seed)
    gopts_ = comp_grids_for(spec, mode, npr)
    with H.Recorder() as rec, H.quiet():
        sim = H.new_sim(spec, solver=H.LOOSE, gridding=mode, gridding_opts=gopts_)
        _ = sim.misfit
        wts = np.array(sim.data.weights.data, dtype=float)
        amp = np.abs(np.array(spec['amp']))
        y = data_vec(npr, sim.survey.shape, amp * np.where(np.isfinite(wts), wts, 1.0))
        jt = np.array(sim.jtvec(y))
        g = np.array(sim.gradient)
    srcfreq = list(sim._srcfreq)
    nsf = len(srcfreq)
    assert nsf >= 2 and len(rec.calls) >= 2 * nsf
    fwd, bwd = rec.calls[:nsf], rec.calls[nsf:2 * nsf]
    mgrid = sim.model.grid
    nxm, nym, nzm = mgrid.shape_cells
    chains = chain_arrays(spec, sim.model)
    L = [H.HEADER]
    for nm, a in zip(('cx', 'cy', 'cz'), chains):
        L.append(f"Definition {nm} := {H.karr3(a)}.")
    items, pairs = [], []
    for k in range(nsf):
        e, b = fwd[k][1][0], bwd[k][1][0]
        cg = e.grid
        vol = cg.cell_volumes.reshape(cg.shape_cells, order='F')
        ent = H.vt_entries(mgrid, cg)
        pairs.append((complex(e.smu0), e, b, vol, ent))
        L.append(f"Definition e_{k} := {H.kfield3(e)}.")
        L.append(f"Definition b_{k} := {H.kfield3(b)}.")
        L.append(f"Definition vol_{k} := {H.karr3(vol)}.")
        L.append(f"Definition T_{k} := {H.kentries(ent)}.")
        nx, ny, nz = cg.shape_cells
        items.append(f"{{| pc_nx := {nx}; pc_ny := {ny}; pc_nz := {nz}; pc_vol := vol_{k}; "
                     f"pc_smu0 := {H.kq(complex(e.smu0))}; pc_e := e_{k}; pc_b := b_{k}; "
                     f"pc_T := T_{k} |}}")
    L.append(f"Eval vm_compute in map (dump3 out_c {nxm} {nym} {nzm}) (gradient_pipeline_T cj "
             f"{spec['aniso']} {nxm} {nym} {nzm} [{'; '.join(items)}] cx cy cz).")
    mirror = H.np_pipeline(spec['aniso'], (nxm, nym, nzm), pairs, chains)
    grids_differ = all(p[1].grid != mgrid for p in pairs)
    # ---- jvec on a fresh simulation with the same computational grids:
    # chain on the MODEL grid, THEN volume averaging (Coq jvec_source_T)
    v = model_vec(npr, spec)
    with H.Recorder() as recj, H.quiet():
        simj = H.new_sim(spec, solver=H.LOOSE, gridding=mode, gridding_opts=gopts_)
        vin = v.copy()
        jv = np.array(simj.jvec(vin))
    assert len(recj.calls) == 2 * nsf
    fwdj, jcalls = recj.calls[:nsf], recj.calls[nsf:]
    nc = H.NCOMP[spec['aniso']]
    v4 = v.reshape((nc, nxm, nym, nzm))
    L.append("Definition vv := [" + '; '.join(H.karr3(v4[c]) for c in range(nc)) + "].")
    js_impl, js_mirror = [], []
    for k in range(nsf):
        e = fwdj[k][1][0]
        cg = e.grid
        nx, ny, nz = cg.shape_cells
        L.append(f"Definition ej_{k} := {H.kfield3(e)}.")
        L.append(f"Definition js_{k} := jvec_source_T {spec['aniso']} {nx} {ny} {nz} vol_{k} "
                 f"{H.kq(complex(e.smu0))} ej_{k} T_{k} vv cx cy cz.")
        L.append(f"Eval vm_compute in dump3 out_c {nx} {ny + 1} {nz + 1} (fst (fst js_{k})) ++ "
                 f"dump3 out_c {nx + 1} {ny} {nz + 1} (snd (fst js_{k})) ++ "
                 f"dump3 out_c {nx + 1} {ny + 1} {nz} (snd js_{k}).")
        sf = jcalls[k][0]['sfield']
        js_impl.append(np.r_[np.array(sf.fx).ravel(), np.array(sf.fy).ravel(), np.array(sf.fz).ravel()])
        mm = H.np_jvec_source(spec['aniso'], e, complex(e.smu0), pairs[k][3], pairs[k][4], v4, chains)
        js_mirror.append(np.r_[mm[0].ravel(), mm[1].ravel(), mm[2].ravel()])
    return '\n'.join(L) + '\n', dict(jt=jt, grad=g, mirror=mirror, shape=(nxm, nym, nzm),
                                      nsf=nsf, mode=mode, grids_differ=grids_differ,
                                      js=js_impl, js_mirror=js_mirror,
                                      untouched=bool(np.array_equal(vin, v)))


def compare_tcase(spec, impl, out, dis):
    b = dict(H.brief(spec), gridding=impl['mode'], pairs=impl['nsf'])
    ans = V.eval_answers(out)
    if len(ans) != 1 + impl['nsf']:
        dis.append({'what': 'unexpected number of model answers', 'case': b, 'log': out[-800:]})
        return
    for k in range(impl['nsf']):
        mod = np.array(H.parse_c(ans[1 + k]))
        iv = impl['js'][k]
        scale = max(float(np.max(np.abs(iv))), float(np.max(np.abs(mod))) if len(mod) else 0.0, 1e-300)
        if len(mod) != len(iv) or np.max(np.abs(mod - iv)) > 1e-9 * scale:
            kk = int(np.argmax(np.abs(mod - iv))) if len(mod) == len(iv) else -1
            dis.append({'what': 'jvec source field (computational grid /= model grid) differs from model '
                                'jvec_source_T (chain factor on the MODEL grid, then volume averaging)',
                        'case': b, 'srcfreq': k, 'index': kk, 'impl': str(iv[kk]), 'model': str(mod[kk])})
            break
        if np.max(np.abs(impl['js_mirror'][k] - mod)) > 1e-9 * scale:
            dis.append({'what': 'harness: numpy mirror differs from Coq jvec_source_T', 'case': b})
            break
    if not impl['untouched']:
        dis.append({'what': 'jvec modified the user-provided vector', 'case': b})
    nx, ny, nz = impl['shape']
    nc = H.NCOMP[spec['aniso']]
    gm = np.array(H.parse_c(ans[0])).reshape((nc, nx, ny, nz)).real
    gi = impl['jt'].reshape((nc, nx, ny, nz))
    scale = max(float(np.max(np.abs(gi))), float(np.max(np.abs(gm))))
    if not impl['grids_differ']:
        dis.append({'what': 'harness: computational grid equals model grid', 'case': b})
    err = np.abs(gi - gm)
    if np.max(err) > 1e-9 * max(scale, 1e-300):
        kk = np.unravel_index(int(np.argmax(err)), err.shape)
        dis.append({'what': 'Simulation.jtvec (computational grid /= model grid, several '
                            'source-frequency pairs) differs from model gradient_pipeline_T',
                    'case': b, 'entry': [int(x) for x in kk], 'impl': float(gi[kk]),
                    'model': float(gm[kk]), 'scale': scale})
    if np.max(np.abs(impl['mirror'] - gm)) > 1e-9 * max(scale, 1e-300):
        dis.append({'what': 'harness: numpy mirror differs from Coq gradient_pipeline_T', 'case': b})


def direct_adj_case(npr):
    """maps._interp_volume_average_adj called directly with a NON-ZERO output
    array: Coq vt_add3 on the entries of discretize's matrix."""
    import emg3d
    from emg3d import maps
    g1 = emg3d.TensorMesh([np.round(npr.uniform(1, 3, npr.randint(2, 4)) * 8) / 8 for _ in range(3)],
                          (0, 0, 0))
    hs = []
    for d in range(3):
        ext = [g1.nodes_x, g1.nodes_y, g1.nodes_z][d][-1]
        h = np.round(npr.uniform(1, 3, npr.randint(2, 4)) * 8) / 8
        hs.append(h)
    g2 = emg3d.TensorMesh(hs, tuple(-np.round(npr.uniform(0, 1, 3) * 8) / 8))
    nval = np.asfortranarray(np.round(npr.uniform(-4, 4, (3, *g2.shape_cells)) * 16) / 16)
    oval0 = np.asfortranarray(np.round(npr.uniform(-4, 4, (3, *g1.shape_cells)) * 16) / 16)
    oval = oval0.copy(order='F')
    maps._interp_volume_average_adj(oval=oval, ogrid=g1, nval=nval, ngrid=g2)
    ent = H.vt_entries(g1, g2)
    n1 = g1.shape_cells
    L = [H.HEADER, f"Definition T := {H.kentries(ent)}.",
         "Definition nval := (" + ', '.join(H.karr3(nval[c]) for c in range(3)) + ").",
         "Definition oval := (" + ', '.join(H.karr3(oval0[c]) for c in range(3)) + ").",
         "Definition res := vt_add3 T nval oval.",
         f"Eval vm_compute in dump3 out_c {n1[0]} {n1[1]} {n1[2]} (fst (fst res)) ++ "
         f"dump3 out_c {n1[0]} {n1[1]} {n1[2]} (snd (fst res)) ++ "
         f"dump3 out_c {n1[0]} {n1[1]} {n1[2]} (snd res)."]
    return '\n'.join(L) + '\n', dict(oval=oval, shapes=[list(g1.shape_cells), list(g2.shape_cells)],
                                      nnz=len(ent))


def compare_direct(impl, out, dis):
    ans = V.eval_answers(out)
    if len(ans) != 1:
        dis.append({'what': 'vt_add3 model does not answer', 'log': out[-600:]})
        return
    mod = np.array(H.parse_c(ans[0])).real
    iv = impl['oval'].reshape(3, -1)
    iv = np.concatenate([impl['oval'][c].ravel() for c in range(3)])
    if len(mod) != len(iv) or np.max(np.abs(mod - iv)) > 1e-9 * max(1.0, float(np.max(np.abs(iv)))):
        kk = int(np.argmax(np.abs(mod - iv))) if len(mod) == len(iv) else -1
        dis.append({'what': '_interp_volume_average_adj (direct call, non-zero output array) differs '
                            'from model vt_add3 (accumulate semantics)',
                    'case': impl['shapes'], 'index': kk, 'impl': float(iv[kk]), 'model': float(mod[kk])})


def auto_mode_case(spec, mode, seed, dis, hist):
    """Automatic gridding modes (8^3 computational grids, too large for exact
    rationals): Simulation.jtvec vs the numpy mirror of gradient_pipeline_T
    (the mirror is compared with the Coq model on the small cases of this run),
    in memory; then the same query with file_dir must give the same arrays."""
    npr = np.random.RandomState(seed)
    kw = dict(gridding=mode, gridding_opts=gopts(spec))
    with H.Recorder() as rec, H.quiet():
        sim = H.new_sim(spec, solver=H.LOOSE, **kw)
        _ = sim.misfit
        wts = np.array(sim.data.weights.data, dtype=float)
        amp = np.abs(np.array(spec['amp']))
        y = data_vec(npr, sim.survey.shape, amp * np.where(np.isfinite(wts), wts, 1.0))
        jt = np.array(sim.jtvec(y))
    nsf = len(sim._srcfreq)
    fwd, bwd = rec.calls[:nsf], rec.calls[nsf:2 * nsf]
    mgrid = sim.model.grid
    pairs = []
    for k in range(nsf):
        e, b_ = fwd[k][1][0], bwd[k][1][0]
        cg = e.grid
        pairs.append((complex(e.smu0), e, b_, cg.cell_volumes.reshape(cg.shape_cells, order='F'),
                      H.vt_entries(mgrid, cg)))
    nc = H.NCOMP[spec['aniso']]
    mirror = H.np_pipeline(spec['aniso'], mgrid.shape_cells, pairs, chain_arrays(spec, sim.model))
    gi = jt.reshape((nc, *mgrid.shape_cells))
    scale = max(float(np.max(np.abs(gi))), float(np.max(np.abs(mirror))), 1e-300)
    b = dict(H.brief(spec), gridding=mode, pairs=nsf)
    hist['auto:' + mode] = hist.get('auto:' + mode, 0) + 1
    if np.max(np.abs(gi - mirror)) > 1e-8 * scale:
        kk = np.unravel_index(int(np.argmax(np.abs(gi - mirror))), gi.shape)
        dis.append({'what': 'Simulation.jtvec (automatic gridding, several source-frequency pairs) '
                            'differs from the accumulated per-pair pipeline', 'case': b,
                    'entry': [int(x) for x in kk], 'impl': float(gi[kk]), 'model': float(mirror[kk])})
    # jvec on a fresh simulation: recorded source of every jvec solve vs the mirror of jvec_source_T
    v = model_vec(npr, spec)
    with H.Recorder() as recj, H.quiet():
        simj = H.new_sim(spec, solver=H.LOOSE, **kw)
        _ = simj.jvec(v.copy())
    fwdj, jcalls = recj.calls[:nsf], recj.calls[nsf:2 * nsf]
    v4 = v.reshape((nc, *mgrid.shape_cells))
    chains_ = chain_arrays(spec, simj.model)
    for k in range(nsf):
        e = fwdj[k][1][0]
        mm = H.np_jvec_source(spec['aniso'], e, complex(e.smu0), pairs[k][3],
                              H.vt_entries(mgrid, e.grid), v4, chains_)
        sf = jcalls[k][0]['sfield']
        d = max(np.max(np.abs(np.array(getattr(sf, 'f' + c_)) - mm[a])) for a, c_ in enumerate('xyz'))
        sc = max(float(np.max(np.abs(sf.field))), 1e-300)
        if d > 1e-8 * sc:
            dis.append({'what': 'jvec source field (automatic gridding) differs from chain-on-model-grid, '
                                'then volume averaging, then edge-mass derivative', 'case': b,
                        'srcfreq': k, 'impl_minus_model_max': float(d), 'scale': sc})
            break
    tmp = tempfile.mkdtemp(prefix='c08_')
    try:
        with H.quiet():
            sim2 = H.new_sim(spec, solver=H.LOOSE, file_dir=tmp, **kw)
            _ = sim2.misfit
            jt2 = np.array(sim2.jtvec(y.copy()))
    finally:
        shutil.rmtree(tmp, ignore_errors=True)
    hist['auto-file:' + mode] = hist.get('auto-file:' + mode, 0) + 1
    if jt2.shape != jt.shape or np.max(np.abs(jt2 - jt)) > 1e-9 * scale:
        dis.append({'what': 'jtvec with file_dir differs from jtvec in memory', 'case': b})



# ------------------------------------------------ re-used simulation (history)
PROP_NAMES = {0: ['property_x'], 1: ['property_x', 'property_y'],
              2: ['property_x', 'property_z'], 3: ['property_x', 'property_y', 'property_z']}
HISTORY = ["Simulation(model m0)", "jvec(v)", "model.property_* = m1 (in place)",
           "clean('computed')", "jvec(v)", "jtvec(w)"]


def updated_props(spec, npr):
    out = []
    for p in spec['props']:
        p = np.asarray(p, float)
        if spec['mapping'] in ('Conductivity', 'Resistivity'):
            out.append(p * npr.uniform(0.6, 1.6, p.size))
        else:
            out.append(p + npr.uniform(-0.4, 0.4, p.size))
    return out


def gridding_kw(spec, mode, seed):
    if mode == 'same':
        return dict(gridding='same')
    if mode in ('input', 'dict'):
        return dict(gridding=mode,
                    gridding_opts=comp_grids_for(spec, mode, np.random.RandomState(seed % 2**31)))
    return dict(gridding=mode, gridding_opts=gopts(spec))


def reused_and_fresh(spec, mode, seed, solver):
    """One Simulation re-used after an in-place model update + clean('computed')
    versus a FRESH Simulation of the updated model; same queries on both.
    Every solver call is recorded."""
    npr = np.random.RandomState(seed)
    v = model_vec(npr, spec)
    props1 = updated_props(spec, npr)
    kw = gridding_kw(spec, mode, seed)
    shape = (len(spec['hx']), len(spec['hy']), len(spec['hz']))
    with H.Recorder() as r1, H.quiet():
        sim = H.new_sim(spec, solver=solver, **kw)
        _ = sim.jvec(v.copy())                       # fills whatever caches exist
        n0 = len(r1.calls)
        for name, arr in zip(PROP_NAMES[spec['aniso']], props1):
            setattr(sim.model, name, np.asarray(arr).reshape(shape, order='F'))
        sim.clean('computed')
        jv_re = np.array(sim.jvec(v.copy()))
        wts = np.array(sim.data.weights.data, dtype=float)
        amp = np.abs(np.array(spec['amp']))
        y = data_vec(npr, sim.survey.shape, amp * np.where(np.isfinite(wts), wts, 1.0))
        with np.errstate(invalid='ignore', divide='ignore'):
            y = np.where(np.isfinite(y / wts), y, 0.0)
        jt_re = np.array(sim.jtvec(y.copy()))
    calls_re = r1.calls[n0:]
    # Automatic gridding derives the computational grids from the model given at
    # construction and keeps them over clean('computed') (by design): the fresh
    # simulation gets the very same grids, so only the MODEL history differs.
    kw_f = kw
    if mode in ('single', 'frequency', 'source', 'both'):
        kw_f = dict(gridding='dict', gridding_opts={
            sn: {fn: sim.get_grid(sn, fn) for fn in sim.survey.frequencies.keys()}
            for sn in sim.survey.sources.keys()})
    with H.Recorder() as r2, H.quiet():
        fresh = H.new_sim(spec, props=props1, solver=solver, **kw_f)
        jv_f = np.array(fresh.jvec(v.copy()))
        jt_f = np.array(fresh.jtvec(y.copy()))
    return dict(v=v, y=y, jv_re=jv_re, jt_re=jt_re, jv_f=jv_f, jt_f=jt_f,
                calls_re=calls_re, calls_f=r2.calls, wts=wts)


def _solver_input(inp):
    """(model on the computational grid, source description) of one solve call."""
    m = inp['model'].interpolate_to_grid(inp['grid'])
    props = [np.array(a) for a in (m.property_x, m.property_y, m.property_z) if a is not None]
    if 'sfield' in inp:
        src = np.array(inp['sfield'].field)
    else:
        src = np.array([float(inp['frequency'])])
    return props, src


def history_case(spec, mode, seed, dis, hist):
    """Tie of the hypothesis 'every solve uses the system of the CURRENT model'
    (Hu/Hb of jt_adjoint share one sigma with He) for a re-used object: all
    solver inputs and all results must equal those of a fresh simulation."""
    r = reused_and_fresh(spec, mode, seed, H.LOOSE)
    b = dict(H.brief(spec), gridding=mode, history=HISTORY)
    hist['history:' + mode] = hist.get('history:' + mode, 0) + 1
    if len(r['calls_re']) != len(r['calls_f']):
        dis.append({'what': 're-used simulation issues a different number of solves than a fresh one',
                    'case': b, 'impl': len(r['calls_re']), 'model': len(r['calls_f'])})
        return
    for k, ((i1, _o1), (i2, _o2)) in enumerate(zip(r['calls_re'], r['calls_f'])):
        p1, s1 = _solver_input(i1)
        p2, s2 = _solver_input(i2)
        bad = len(p1) != len(p2) or any(
            a.shape != c.shape or np.max(np.abs(a - c)) > 1e-12 * np.max(np.abs(c)) for a, c in zip(p1, p2))
        if bad:
            dis.append({'what': 're-used simulation (model updated in place, clean(computed)) hands a '
                                'different MODEL to the solver than a fresh simulation', 'case': b,
                        'solve': k, 'kind': 'jvec/back' if 'sfield' in i1 else 'forward'})
            break
        if s1.shape != s2.shape or np.max(np.abs(s1 - s2)) > 1e-9 * max(np.max(np.abs(s2)), 1e-300):
            dis.append({'what': 're-used simulation hands a different SOURCE to the solver than a '
                                'fresh simulation', 'case': b, 'solve': k})
            break
    for nm in ('jv', 'jt'):
        a, c = r[nm + '_re'], r[nm + '_f']
        m = np.isfinite(c)
        if a.shape != c.shape or not np.array_equal(np.isfinite(a), m) or \
                (m.any() and np.max(np.abs(a[m] - c[m])) > 1e-9 * np.max(np.abs(c[m]))):
            dis.append({'what': ('jvec' if nm == 'jv' else 'jtvec') + ' of the re-used simulation differs '
                                'from a fresh simulation of the same model', 'case': b})


def history_dot_case(spec, mode, seed):
    """Searcher: adjoint identity on the re-used object and J v vs a fresh one."""
    r = reused_and_fresh(spec, mode, seed, H.TIGHT)
    for _inp, out_ in r['calls_re'] + r['calls_f']:
        info = out_[1]
        if isinstance(info, dict) and info.get('exit', 0) != 0 and info.get('rel_error', 1) > 1e-9:
            return None, float('nan')
    jv, jt, v, y = r['jv_re'], r['jt_re'], r['v'], r['y']
    mask = np.isfinite(jv) & (y != 0)
    lhs = float(np.sum(np.conj(y[mask]) * jv[mask]).real)
    rhs = float(np.sum(jt * v))
    scale = float(np.sum(np.abs(y[mask] * jv[mask])))
    err = abs(lhs - rhs) / max(scale, 1e-300)
    m2 = np.isfinite(r['jv_f'])
    dev = float(np.max(np.abs(jv[m2] - r['jv_f'][m2])) / max(np.max(np.abs(r['jv_f'][m2])), 1e-300))
    if err > 1e-7 or dev > 1e-7:
        sig = ('re-used simulation after model update: J v is not that of the current model '
               '(differs from a fresh simulation)' if dev > 1e-7 else
               'dot-product test Re<w,Jv> != <J^T w,v> (re-used and fresh simulation agree on J v)')
        return {'signature': sig,
                'history': HISTORY, 'gridding': mode, 'spec': spec, 'seed': int(seed),
                'observed': {'Re<w,Jv>': lhs, '<JTw,v>': rhs, 'relative': err,
                             'max |Jv(re-used) - Jv(fresh)| / max|Jv|': dev},
                'required': 'adjoint identity to solver tolerance; J v equal to a fresh simulation'}, \
            max(err, dev)
    return None, max(err, dev)


# ------------------------------------ weight book-keeping histories (round 6)
# One Simulation driven through public operations that (a) cache data.weights
# (misfit / gradient / jtvec), (b) change the noise model of the survey in every
# documented way, (c) call jtvec.  Coq: Model/JtWeights.v `trace` (state machine:
# current standard deviation, cached weights, misfit cache) evaluated on the
# same history; every observable (data.weights after every operation, the
# source handed to every back-propagation solve) is compared.  Independently of
# the Coq model: every jtvec result must equal that of a FRESH simulation and
# satisfy the dot-product test with J v of the same object.
WH_HEADER = (H.HEADER + "From V Require Import Model.JtWeights.\n"
             "Definition trow : Type := (option (list (Q * Q)) * option (list (Q * Q)) * bool)%type.\n")
WH_FILLERS = [['misfit'], ['gradient'], ['jvec', 'misfit'], ['jtvec'], ['jvec'],
              ['misfit', 'jvec', 'gradient']]
WH_CHANGES = ['nf_scalar', 'nf_array', 're_scalar', 're_array', 'std_array', 'std_none',
              'observed_assign', 'compute_observed']
WH_MODES = {'nf_scalar': ['scalar', 'nf_only', 'array_nf'], 'nf_array': ['array_nf', 'scalar', 'nf_only'],
            're_scalar': ['scalar', 're_only', 'array_re'], 're_array': ['array_re', 're_only', 'scalar'],
            'std_array': ['std', 'scalar', 're_only'], 'std_none': ['std', 'std', 'std'],
            'observed_assign': ['re_only', 'scalar', 'array_re'],
            'compute_observed': ['scalar', 're_only', 'array_nf']}
WH_DOC = {'nf_scalar': 'survey.noise_floor = float', 'nf_array': 'survey.noise_floor = ndarray',
          're_scalar': 'survey.relative_error = float', 're_array': 'survey.relative_error = ndarray',
          'std_array': 'survey.standard_deviation = ndarray',
          'std_none': 'survey.standard_deviation = None (back to noise_floor / relative_error)',
          'observed_assign': "survey.data['observed'][...] = new data",
          'compute_observed': 'simulation.compute(observed=True, add_noise=False)',
          'pre_nf_re': 'survey.noise_floor = float; survey.relative_error = float',
          'clean': "simulation.clean('computed')", 'misfit': 'simulation.misfit',
          'gradient': 'simulation.gradient', 'jvec': 'simulation.jvec(v)', 'jtvec': 'simulation.jtvec(w)'}


def wh_plan(klass):
    """Deterministic enumeration: change kind x noise mode x cache-filling prefix."""
    kind1 = WH_CHANGES[klass % len(WH_CHANGES)]
    rnd = klass // len(WH_CHANGES)
    mode = WH_MODES[kind1][rnd % 3]
    filler = WH_FILLERS[(klass + 2 * rnd) % len(WH_FILLERS)]
    kind2 = 'std_none' if (kind1 == 'std_array' and mode != 'std') else 'std_array'
    ops = (['pre_nf_re'] if kind1 == 'std_none' else []) + list(filler) + \
        [kind1, 'jtvec', kind2, 'jtvec', 'clean', 'jtvec']
    return mode, ops


def wh_change(sim, kind, npr, amp, floor0):
    survey = sim.survey
    shape = survey.shape
    if kind == 'nf_scalar':
        survey.noise_floor = floor0 * float(npr.choice([0.125, 4.0, 16.0]))
    elif kind == 'nf_array':
        survey.noise_floor = floor0 * 2.0 ** npr.randint(-3, 5, shape).astype(float)
    elif kind == 're_scalar':
        survey.relative_error = float(npr.choice([0.005, 0.25, 0.5]))
    elif kind == 're_array':
        survey.relative_error = npr.uniform(0.005, 0.5, shape)
    elif kind == 'std_array':
        survey.standard_deviation = amp * npr.uniform(0.01, 0.6, shape) + floor0 * npr.uniform(0.1, 3.0)
    elif kind == 'std_none':
        survey.standard_deviation = None
    elif kind == 'pre_nf_re':
        survey.noise_floor = floor0 * 2.0
        survey.relative_error = 0.11
    elif kind == 'observed_assign':
        obs = np.array(survey.data.observed.data)
        fac = npr.uniform(0.2, 4.0, shape) * np.exp(1j * npr.uniform(0, 2 * np.pi, shape))
        survey.data['observed'][...] = obs * fac
    elif kind == 'compute_observed':
        sim.compute(observed=True, add_noise=False)
    else:
        raise ValueError(kind)


def weights_history(spec, klass, seed, want_coq=True):
    """Returns (coq text or None, record).  record['numeric'] holds the checks
    that do not involve the Coq model (fresh simulation, dot-product test)."""
    npr = np.random.RandomState(seed)
    mode, ops = wh_plan(klass)
    spec = dict(spec, noise_mode=mode)
    v = model_vec(npr, spec)
    amp = np.abs(np.array(spec['amp']))
    floor0 = float(np.nanmedian(amp)) * 0.05
    with H.quiet():
        s0 = H.new_sim(spec, solver=H.TIGHT)
    obs0 = np.array(s0.survey.data.observed.data)
    fin0 = np.isfinite(obs0)
    std0 = np.array(s0.survey.standard_deviation.data, dtype=float)
    w0 = np.where(fin0 & np.isfinite(std0), std0, 1.0) ** -2
    njt = ops.count('jtvec')
    ys = [np.where(fin0, data_vec(npr, obs0.shape, amp * w0), 0.0) for _ in range(njt)]
    steps, jv, kj = [], None, 0
    with H.Recorder() as rec, H.quiet():
        sim = H.new_sim(spec, solver=H.TIGHT)
        for op in ops:
            n0 = len(rec.calls)
            st = {'op': op}
            if op == 'misfit':
                _ = sim.misfit
            elif op == 'gradient':
                _ = sim.gradient
            elif op == 'jvec':
                jv = np.array(sim.jvec(v.copy()))
            elif op == 'clean':
                sim.clean('computed')
            elif op == 'jtvec':
                st['y'] = ys[kj]
                st['jt'] = np.array(sim.jtvec(ys[kj].copy()))
                kj += 1
            else:
                wh_change(sim, op, npr, amp, floor0)
            st['calls'] = rec.calls[n0:]
            st['weights'] = (np.array(sim.data.weights.data, dtype=float)
                             if 'weights' in sim.data.keys() else None)
            sd = sim.survey.standard_deviation
            st['std'] = None if sd is None else np.array(sd.data, dtype=float)
            steps.append(st)
        if jv is None:
            jv = np.array(sim.jvec(v.copy()))
        srcfreq = list(sim._srcfreq)
        names_s = list(sim.survey.sources.keys())
        names_f = list(sim.survey.frequencies.keys())
        rows_all = [H.unit_rows(sim, sn, fn) for sn, fn in srcfreq]
        smu0s = [complex(sim.get_efield(sn, fn).smu0) for sn, fn in srcfreq]
    converged = all(not (isinstance(o[1], dict) and o[1].get('exit', 0) != 0) for _i, o in rec.calls)
    # ---- numeric, independent of the Coq model
    numeric = []
    changed = []
    prev = std0
    for st in steps:
        if st['op'] in WH_DOC and st['op'] not in ('misfit', 'gradient', 'jvec', 'jtvec', 'clean') \
                and st['std'] is not None:
            m = fin0 & np.isfinite(prev) & np.isfinite(st['std'])
            changed.append(float(np.max(np.abs(st['std'][m] / prev[m] - 1.0))) if m.any() else 0.0)
            prev = st['std']
    with H.quiet():
        jv_f = np.array(H.new_sim(spec, solver=H.TIGHT).jvec(v.copy()))
    kj = 0
    for n, st in enumerate(steps):
        if st['op'] != 'jtvec':
            continue
        y, jt = st['y'], st['jt']
        with H.quiet():
            fresh = H.new_sim(spec, solver=H.TIGHT)
            jt_f = np.array(fresh.jtvec(y.copy()))

        def dot(jv_, jt_):
            mask = fin0 & np.isfinite(jv_)
            lhs = float(np.sum(np.conj(y[mask]) * jv_[mask]).real)
            rhs = float(np.sum(jt_ * v))
            scale = float(np.sum(np.abs(y[mask] * jv_[mask])))
            return lhs, rhs, abs(lhs - rhs) / max(scale, 1e-300)
        lhs, rhs, d_re = dot(jv, jt)
        _l, _r, d_fr = dot(jv_f, jt_f)
        dev = (float(np.max(np.abs(jt - jt_f)) / max(float(np.max(np.abs(jt_f))), 1e-300))
               if jt.shape == jt_f.shape else float('inf'))
        numeric.append({'step': n, 'jtvec_no': kj, 'Re<w,Jv>': lhs, '<JTw,v>': rhs, 'dot_relative': d_re,
                        'dot_relative_fresh_simulation': d_fr,
                        'max|JTw(re-used) - JTw(fresh)|/max|JTw(fresh)|': dev})
        kj += 1
    record = dict(mode=mode, ops=ops, steps=steps, numeric=numeric, converged=converged,
                  std_changes=changed, klass=klass, fin0=fin0, srcfreq=srcfreq)
    if not want_coq:
        return None, record
    # ---- Coq: the state machine per source-frequency pair
    nrec = obs0.shape[1]
    L = [WH_HEADER]
    idxs = []
    for k, (sn, fn) in enumerate(srcfreq):
        si, fi = names_s.index(sn), names_f.index(fn)
        rows = rows_all[k]
        supp = np.zeros(rows[0].size, bool)
        for r_ in rows:
            supp |= (r_ != 0)
        idx = list(np.flatnonzero(supp))
        idxs.append(idx)
        fk = fin0[si, :, fi]

        def sdl(a):
            return H.klist([a[si, j, fi] if (fk[j] and np.isfinite(a[si, j, fi])) else 1.0
                            for j in range(nrec)])
        cops = []
        for st in steps:
            op = st['op']
            if op == 'misfit':
                cops.append('OpMisfit')
            elif op == 'gradient':
                cops.append('OpGradient')
            elif op == 'jvec':
                cops.append('OpJvec')
            elif op == 'clean':
                cops.append('OpClean')
            elif op == 'jtvec':
                cops.append(f"OpJtvec (lk {H.klist(st['y'][si, :, fi])})")
            else:
                if st['std'] is None:
                    raise RuntimeError('harness: noise model removed entirely')
                cops.append(f"OpNoise (lk {sdl(st['std'])})")
        L.append(f"Definition p_{k} := lkr [" + ';\n '.join(H.klist(r_[idx]) for r_ in rows) + "].")
        L.append(f"Definition f_{k} := lkb [" + '; '.join(V.coq_bool(bool(fk[j])) for j in range(nrec)) + "].")
        L.append(f"Definition ops_{k} : list (@wop (Q * Q) Z) := [" + ';\n '.join(cops) + "].")
        L.append(f"Definition tr_{k} := trace cj (range {nrec}) {H.kq(smu0s[k])} p_{k} f_{k} "
                 f"(range {len(idx)}) ops_{k} (fresh (lk {sdl(std0)})).")
        L.append(f"Eval vm_compute in map (fun t : trow => (match fst (fst t) with Some l => 1%Z | None => 0%Z end, "
                 f"if snd t then 1%Z else 0%Z)) tr_{k}.")
        L.append(f"Eval vm_compute in map (fun t : trow => match fst (fst t) with Some l => map out_c l | None => [] end) tr_{k}.")
        L.append(f"Eval vm_compute in map (fun t : trow => match snd (fst t) with Some l => map out_c l | None => [] end) tr_{k}.")
    record['idxs'] = idxs
    record['names'] = (names_s, names_f)
    return '\n'.join(L) + '\n', record


def _split_lists(ans):
    """'[[a; b]; []; [c]]' -> list of inner strings."""
    ans = ans.strip()
    assert ans.startswith('[') and ans.endswith(']')
    out, depth, start = [], 0, None
    for i, ch in enumerate(ans[1:-1], 1):
        if ch == '[':
            if depth == 0:
                start = i
            depth += 1
        elif ch == ']':
            depth -= 1
            if depth == 0:
                out.append(ans[start:i + 1])
    return out


def wh_brief(spec, rec):
    return dict(H.brief(dict(spec, noise_mode=rec['mode'])), history=[WH_DOC[o] for o in rec['ops']],
                klass=rec['klass'])


def compare_wh(spec, rec, out, dis):
    b = wh_brief(spec, rec)
    ans = V.eval_answers(out)
    nsf = len(rec['srcfreq'])
    steps = rec['steps']
    if len(ans) != 3 * nsf:
        dis.append({'what': 'weight-history model does not answer', 'case': b, 'log': out[-800:]})
        return
    names_s, names_f = rec['names']
    for k, (sn, fn) in enumerate(rec['srcfreq']):
        si, fi = names_s.index(sn), names_f.index(fn)
        fk = rec['fin0'][si, :, fi]
        flags = [int(x) for x in re.findall(r'-?\d+', ans[3 * k])]
        wl = _split_lists(ans[3 * k + 1])
        sl = _split_lists(ans[3 * k + 2])
        if len(flags) != 2 * len(steps) or len(wl) != len(steps) or len(sl) != len(steps):
            dis.append({'what': 'weight-history model: trace length', 'case': b})
            return
        for n, st in enumerate(steps):
            has_m, raises_m = flags[2 * n], flags[2 * n + 1]
            if raises_m:
                dis.append({'what': 'weight-history model: jtvec raises on a state the implementation '
                                    'handles', 'case': b, 'step': n})
                return
            if bool(has_m) != (st['weights'] is not None):
                dis.append({'what': "data['weights'] present/absent differs from model (cached by the first "
                                    "misfit, dropped by clean('computed') only)", 'case': b, 'step': n,
                            'op': WH_DOC[st['op']], 'impl': st['weights'] is not None, 'model': bool(has_m)})
                return
            if has_m:
                mod = np.array(H.parse_c(wl[n])).real
                iv = st['weights'][si, :, fi]
                ok = len(mod) == len(iv) and all(
                    (not fk[j]) or abs(iv[j] - mod[j]) <= 1e-9 * abs(mod[j]) for j in range(len(iv)))
                if not ok:
                    dis.append({'what': "data['weights'] differs from model (std**-2 of the noise model at the "
                                        "time of the first misfit; NOT refreshed by later noise-model changes)",
                                'case': b, 'step': n, 'op': WH_DOC[st['op']],
                                'impl': [float(x) for x in iv], 'model': [float(x) for x in mod]})
                    return
            if st['op'] == 'jtvec':
                bw = [c for c in st['calls'] if 'sfield' in c[0]]
                if len(bw) != nsf:
                    dis.append({'what': 'jtvec issued an unexpected number of back-propagation solves',
                                'case': b, 'step': n, 'impl': len(bw), 'model': nsf})
                    return
                mod = np.array(H.parse_c(sl[n]))
                iv = np.array(bw[k][0]['sfield'].field)[rec['idxs'][k]]
                scale = max(float(np.max(np.abs(iv))) if len(iv) else 0.0,
                            float(np.max(np.abs(mod))) if len(mod) else 0.0, 1e-300)
                if len(mod) != len(iv) or np.max(np.abs(mod - iv)) > 1e-9 * scale:
                    kk = int(np.argmax(np.abs(mod - iv))) if len(mod) == len(iv) else -1
                    dis.append({'what': 'jtvec after a history (weights cached, noise model changed): the source '
                                        'handed to the back-propagation solve differs from model jt_source '
                                        '(vector / cached weights * the same cached weights)',
                                'case': b, 'step': n, 'srcfreq': k, 'impl': str(iv[kk]), 'model': str(mod[kk])})
                    return


def wh_numeric_hit(spec, rec, seed):
    """Concrete failing history from the model-independent checks.  The
    comparison with a fresh simulation needs no accurate solves (same solver
    inputs give the same outputs); the dot-product test of the re-used object
    only counts when the SAME test on fresh simulations passes ten times tighter
    (adjoint sources touching PEC boundary edges make the solver report
    stagnation although the interior is converged)."""
    worst = 0.0
    for nm in rec['numeric']:
        dev = nm['max|JTw(re-used) - JTw(fresh)|/max|JTw(fresh)|']
        dot_bad = nm['dot_relative'] > 1e-7 and nm['dot_relative_fresh_simulation'] < 1e-8
        worst = max(worst, dev, nm['dot_relative'] if nm['dot_relative_fresh_simulation'] < 1e-8 else 0.0)
        if dev > 1e-7 or dot_bad:
            sig = ('jtvec after a noise-model change on a re-used simulation differs from jtvec of a fresh '
                   'simulation (J^T w must not depend on the weights)' if dev > 1e-7 else
                   'dot-product test Re<w,Jv> != <J^T w,v> after a history on one simulation')
            return {'signature': sig, 'weights_history': [WH_DOC[o] for o in rec['ops'][:nm['step'] + 1]],
                    'noise_mode': rec['mode'], 'klass': int(rec['klass']), 'spec': spec, 'seed': int(seed),
                    'std_changes(max relative)': rec['std_changes'], 'observed': nm,
                    'required': 'J^T w of the re-used simulation = J^T w of a fresh simulation and '
                                'Re<w,Jv> = <J^T w,v>, both to 1e-7 (tight solves; fresh simulations pass '
                                'the same dot test to 1e-8)'}, max(dev, nm['dot_relative'])
    return None, worst


def wh_spec(rng, off, i):
    two_src = (i + off) % 2 == 0
    sp = H.add_observed(H.gen_spec(rng, idx=off + 5 * i + 2, n_src=2 if two_src else 1,
                                   n_freq=1 if two_src else 2, n_rec=2 + i % 2, max_pairs=2), rng)
    if len(sp['freqs']) * len(sp['sources']) < 2:
        sp['freqs'] = [1.0, 2.0]
        sp['obs'] = None
        sp = H.add_observed(sp, rng)
    return sp


def vt_validation(ctx, dis, n):
    """Section hypothesis V_T for non-'same' gridding: discretize's
    volume_average(...).T (used by the gradient) is the transpose of emg3d's
    volume-average interpolation (used by jvec)."""
    import emg3d
    from emg3d import maps
    rng = ctx.rng
    cnt = 0
    for _ in range(n):
        npr = np.random.RandomState(rng.randrange(2**31))
        g1 = emg3d.TensorMesh([npr.uniform(1, 3, npr.randint(3, 6)) for _ in range(3)], (0, 0, 0))
        ext = [g1.nodes_x[-1], g1.nodes_y[-1], g1.nodes_z[-1]]
        hs = []
        for d in range(3):
            m = npr.randint(3, 7)
            h = npr.uniform(1, 3, m)
            h *= (ext[d] * npr.uniform(0.8, 1.3)) / h.sum()
            hs.append(h)
        g2 = emg3d.TensorMesh(hs, tuple(-npr.uniform(0, 0.2) * e for e in ext))
        a = npr.standard_normal(g1.shape_cells)
        x = npr.standard_normal((3, *g2.shape_cells))
        Va = maps.interpolate(grid=g1, values=a, xi=g2, method='volume', extrapolate=True, log=False)
        lhs = float(np.sum(Va * x[0]))
        o0 = np.asfortranarray(npr.standard_normal((3, *g1.shape_cells)))
        o = o0.copy(order='F')                      # NON-ZERO output: the function must ADD
        maps._interp_volume_average_adj(oval=o, ogrid=g1, nval=np.asfortranarray(x), ngrid=g2)
        rhs = float(np.sum(a * (o[0] - o0[0])))
        cnt += 1
        if abs(lhs - rhs) > 1e-9 * max(abs(lhs), abs(rhs), 1e-300):
            dis.append({'what': 'hypothesis V_T: _interp_volume_average_adj is not the transpose of '
                                'interpolate(method=volume)', 'impl': lhs, 'model': rhs,
                        'case': {'shape1': list(g1.shape_cells), 'shape2': list(g2.shape_cells)}})
            break
    return cnt


def correspondence(ctx):
    rng = ctx.rng
    n = 16 if ctx.thorough else 6
    off = rng.randrange(24)
    specs = [H.add_observed(H.gen_spec(rng, idx=off + 3 * i + i // 8, n_freq=1 if i % 2 else None,
                                       n_src=1 if i % 3 == 0 else None,
                                       max_pairs=4 if ctx.thorough else 2), rng) for i in range(n)]
    texts, impls = [], []
    for i, sp in enumerate(specs):
        t, im = run_case(sp, rng.randrange(2**31))
        texts.append((f"c08_t_{i}", t))
        impls.append(im)
    # computational grid /= model grid, >= 2 source-frequency pairs ('input' / 'dict')
    nt = 6 if ctx.thorough else 2
    tspecs, timpls = [], []
    for i in range(nt):
        two_src = (i + off) % 2 == 0
        sp = H.add_observed(H.gen_spec(rng, idx=off + 5 * i + 1, n_src=2 if two_src else 1,
                                       n_freq=1 if two_src else 2, n_rec=2, max_pairs=2,
                                       mapping=NONCOND[(off + i) % 5], aniso=(off + i) % 4), rng)
        if len(sp['freqs']) * len(sp['sources']) < 2:      # two equal frequencies were drawn
            sp['freqs'] = [1.0, 2.0]
            sp['obs'] = None
            sp = H.add_observed(sp, rng)
        t, im = run_tcase(sp, rng.randrange(2**31), 'input' if i % 2 == 0 else 'dict')
        texts.append((f"c08_g_{i}", t))
        tspecs.append(sp)
        timpls.append(im)
    # direct calls of _interp_volume_average_adj with a non-zero output array
    nd = 6 if ctx.thorough else 2
    dimpls = []
    for i in range(nd):
        t, im = direct_adj_case(np.random.RandomState(rng.randrange(2**31)))
        texts.append((f"c08_d_{i}", t))
        dimpls.append(im)
    # weight book-keeping histories (round 6): every documented noise-model change,
    # enumerated; cache-filling prefix and noise mode cycle with the seed
    nw = 24 if ctx.thorough else len(WH_CHANGES)
    woff = len(WH_CHANGES) * rng.randrange(3)
    wcases = []
    for i in range(nw):
        sp = wh_spec(rng, off, i)
        sd_ = rng.randrange(2**31)
        t, rec_ = weights_history(sp, woff + i, sd_)
        texts.append((f"c08_w_{i}", t))
        wcases.append((sp, sd_, rec_))
    res = V.coq_eval_many(texts, timeout=1200)
    dis, seen, hist = [], set(), {}
    for i, (sp, sd_, rec_) in enumerate(wcases):
        rc, out = res[f"c08_w_{i}"]
        if rc != 0:
            dis.append({'what': 'weight-history model does not evaluate', 'case': wh_brief(sp, rec_),
                        'log': out[-1500:]})
            continue
        compare_wh(sp, rec_, out, dis)
        hit_, worst_ = wh_numeric_hit(sp, rec_, sd_)
        if hit_:
            dis.append({'what': hit_['signature'], 'case': wh_brief(sp, rec_),
                        'impl': hit_['observed'], 'model': hit_['required']})
        kind_ = next(o for o in rec_['ops'] if o in WH_CHANGES)
        seen.add(('weights-history', kind_, rec_['mode'], tuple(rec_['ops'])))
        for k_ in ('wh-change:' + kind_, 'wh-noise:' + rec_['mode'],
                   'wh-prefix:' + '+'.join(rec_['ops'][:rec_['ops'].index(kind_)]),
                   'wh-std-actually-changed' if any(c > 1e-3 for c in rec_['std_changes'])
                   else 'wh-std-unchanged'):
            hist[k_] = hist.get(k_, 0) + 1
        hist['wh-jtvec-calls'] = hist.get('wh-jtvec-calls', 0) + len(rec_['numeric'])
        if not rec_['converged']:
            hist['wh-solver-reported-stagnation'] = hist.get('wh-solver-reported-stagnation', 0) + 1
    for i, sp in enumerate(specs):
        rc, out = res[f"c08_t_{i}"]
        if rc != 0:
            dis.append({'what': 'model does not evaluate', 'case': H.brief(sp), 'log': out[-1500:]})
            continue
        compare(sp, impls[i], out, dis)
        b = H.brief(sp)
        key = (b['mapping'], b['aniso'], b['noise'], b['nan'] > 0, tuple(b['receivers']),
               tuple(b['sources']))
        if b['mapping'] != 'Conductivity' or b['aniso'] != 'isotropic':
            seen.add(key)
        for k_ in ('map:' + b['mapping'], 'aniso:' + b['aniso'], 'noise:' + b['noise'],
                   'shape:' + 'x'.join(map(str, b['shape']))):
            hist[k_] = hist.get(k_, 0) + 1
    for i, sp in enumerate(tspecs):
        rc, out = res[f"c08_g_{i}"]
        if rc != 0:
            dis.append({'what': 'model does not evaluate', 'case': H.brief(sp), 'log': out[-1500:]})
            continue
        compare_tcase(sp, timpls[i], out, dis)
        b = H.brief(sp)
        seen.add((timpls[i]['mode'], timpls[i]['nsf'], b['mapping'], b['aniso']))
        k_ = f"gridding:{timpls[i]['mode']} pairs:{timpls[i]['nsf']}"
        hist[k_] = hist.get(k_, 0) + 1
    for i, im in enumerate(dimpls):
        rc, out = res[f"c08_d_{i}"]
        if rc != 0:
            dis.append({'what': 'vt_add3 model does not evaluate', 'log': out[-1500:]})
            continue
        compare_direct(im, out, dis)
        hist['direct _interp_volume_average_adj (non-zero oval)'] = \
            hist.get('direct _interp_volume_average_adj (non-zero oval)', 0) + 1
    # automatic gridding modes, >= 2 pairs, memory and file_dir
    modes = ['single', 'frequency', 'source', 'both']
    if not ctx.thorough:
        k0 = rng.randrange(4)
        modes = [modes[k0], modes[(k0 + 2) % 4]]
    na = 0
    for i, mode in enumerate(modes):
        two_src = i % 2 == 0
        sp = H.add_observed(H.gen_spec(rng, idx=off + 7 * i + 2, n_src=2 if two_src else 1,
                                       n_freq=1 if two_src else 2, n_rec=2, max_pairs=2,
                                       mapping=NONCOND[(off + i + 2) % 5], aniso=(off + i + 1) % 4),
                            rng)
        if len(sp['freqs']) * len(sp['sources']) < 2:
            sp['freqs'] = [1.0, 2.0]
            sp['obs'] = None
            sp = H.add_observed(sp, rng)
        auto_mode_case(sp, mode, rng.randrange(2**31), dis, hist)
        seen.add(('auto', mode))
        na += 1
    # re-used simulation: in-place model update + clean('computed'), then jvec / jtvec
    hmodes = ['input', ['single', 'frequency', 'source', 'both'][rng.randrange(4)], 'same']
    if ctx.thorough:
        hmodes = ['input', 'dict', 'single', 'frequency', 'source', 'both', 'same']
    nh = 0
    for i, mode in enumerate(hmodes):
        two_src = (i + off) % 2 == 0
        sp = H.add_observed(H.gen_spec(rng, idx=off + 11 * i + 3, n_src=2 if two_src else 1,
                                       n_freq=1 if two_src else 2, n_rec=2, max_pairs=2), rng)
        history_case(sp, mode, rng.randrange(2**31), dis, hist)
        seen.add(('history', mode))
        nh += 1
    nv = vt_validation(ctx, dis, 40 if ctx.thorough else 12)
    hist['V_T validations'] = nv
    return {
        'evaluations': len(specs) + nt + nd + 2 * na + nh + nv + nw,
        'distinct_nontrivial': len(seen),
        'rule': "same-grid cases as for C07 (random stretched 4..5^3 grids, six maps, four anisotropy "
                "cases, six source kinds, electric/magnetic absolute/relative receivers, NaN gaps, six "
                "noise modes): fresh simulation for jvec and for jtvec; jvec_source, "
                "rsource(jt_residual), gradient_pipeline in Coq vs recorded solver inputs and returned "
                "arrays. PLUS computational grid /= model grid with >= 2 source-frequency pairs: "
                "gridding 'input' / 'dict' (tiny unaligned grids, one per pair for 'dict') -> Coq "
                "gradient_pipeline_T (per-pair contributions accumulated on the model grid through the "
                "entries of discretize's volume_average) vs Simulation.jtvec; direct calls of "
                "_interp_volume_average_adj with a non-zero output array vs Coq vt_add3; automatic "
                "modes single/frequency/source/both (quick: two of them, thorough: all) vs the numpy "
                "mirror of gradient_pipeline_T (mirror compared with Coq on the small cases), in memory "
                "and with file_dir; V_T validations with non-zero output array; HISTORY cases (gridding input, one "
                "automatic mode, same; thorough: all modes): one Simulation re-used after jvec, in-place model "
                "update and clean('computed') vs a fresh Simulation of the updated model -- every solver "
                "call's model (on the computational grid) and source, and the jvec / jtvec results, must agree. "
                "WEIGHT HISTORIES (round 6; quick 8 = every documented noise-model change once, thorough 24 = x 3 "
                "noise modes / prefixes): one Simulation: cache-filling prefix (misfit | gradient | jvec | jtvec "
                "| combinations), noise-model change (noise_floor / relative_error float or array, "
                "standard_deviation array or None, new observed data, compute(observed=True)), jtvec(w), a second "
                "change, jtvec(w'), clean('computed'), jtvec(w''): Coq Model/JtWeights.v `trace` on the same "
                "history vs data['weights'] after every operation and the source of every back-propagation solve; "
                "and, without the Coq model, every jtvec vs a fresh simulation and the dot-product test (tight "
                "solves). non-trivial = not (Conductivity, isotropic, same grid)",
        'samples': [H.brief(s) for s in specs[:3]] + [dict(H.brief(s), gridding=im['mode'])
                                                      for s, im in zip(tspecs[:2], timpls[:2])],
        'traces_validated_against_impl': len(specs) + nt + nd + 2 * na + nh + nw,
        'histogram': hist,
        'disagreements': dis,
    }


# ------------------------------------------------------------------ searcher
NONCOND = ['Resistivity', 'LgConductivity', 'LnResistivity', 'LgResistivity', 'LnConductivity']
GRIDDINGS = ['same', 'single', 'frequency', 'source', 'both', 'input', 'dict']


def gopts(spec):
    return dict(center=(0.0, 0.0, 0.0), domain=([-250, 250], [-250, 250], [-250, 250]),
                min_width_limits=[100.0, 150.0], stretching=[1.0, 3.0], max_buffer=600.0,
                center_on_edge=False, cell_numbers=[8, 16, 32])


def dot_case(spec, gridding, use_files, seed):
    """Re<w, J v> = <J^T w, v> on fresh simulations."""
    npr = np.random.RandomState(seed)
    nx, ny, nz = len(spec['hx']), len(spec['hy']), len(spec['hz'])
    nc = H.NCOMP[spec['aniso']]
    v = npr.uniform(-1, 1, (nc, nx, ny, nz))
    if nc == 1:
        v = v[0]
    tmp = tempfile.mkdtemp(prefix='c08_') if use_files else None
    kw = dict(gridding=gridding, file_dir=tmp)
    if gridding in ('input', 'dict'):
        kw['gridding_opts'] = comp_grids_for(spec, gridding, np.random.RandomState(seed % 2**31))
    elif gridding != 'same':
        kw['gridding_opts'] = gopts(spec)
    try:
        with H.Recorder() as rec_, H.quiet():
            s1 = H.new_sim(spec, solver=H.TIGHT, **kw)
            jv = np.array(s1.jvec(v))          # the caller's own array, used again below
            s2 = H.new_sim(spec, solver=H.TIGHT, **kw)
            _ = s2.misfit
            wts = np.array(s2.data.weights.data, dtype=float)
            w = (npr.standard_normal(jv.shape) + 1j * npr.standard_normal(jv.shape))
            w *= np.where(np.isfinite(wts), np.sqrt(wts), 0.0) * 1.0
            ok = np.isfinite(w / wts)
            w = np.where(ok, w, 0.0)
            jt = np.array(s2.jtvec(w))
    finally:
        if tmp:
            shutil.rmtree(tmp, ignore_errors=True)
    for _inp, out_ in rec_.calls:
        info = out_[1]
        if isinstance(info, dict) and info.get('exit', 0) != 0 and info.get('rel_error', 1) > 1e-9:
            return None, float('nan')          # oracle not good enough: skip, do not alarm
    mask = ok & np.isfinite(jv)
    lhs = float(np.sum(np.conj(w[mask]) * jv[mask]).real)
    rhs = float(np.sum(jt * v))
    scale = float(np.sum(np.abs(w[mask] * jv[mask])))
    err = abs(lhs - rhs) / max(scale, 1e-300)
    if err > 1e-7:
        return {'signature': 'dot-product test Re<w,Jv> != <J^T w,v>', 'gridding': gridding,
                'file_dir': bool(use_files), 'spec': spec, 'seed': int(seed),
                'observed': {'Re<w,Jv>': lhs, '<JTw,v>': rhs, 'relative': err},
                'required': 'equal to solver tolerance (1e-7 of sum|w_i (Jv)_i|)'}, err
    return None, err


def fd_case(spec, seed):
    """J v vs central finite differences of the synthetic data (same grid)."""
    npr = np.random.RandomState(seed)
    direction = [npr.standard_normal(len(p)) for p in spec['props']]
    nx, ny, nz = len(spec['hx']), len(spec['hy']), len(spec['hz'])
    nc = H.NCOMP[spec['aniso']]
    v = np.array([d.reshape((nx, ny, nz), order='F') for d in direction])
    with H.quiet():
        s0 = H.new_sim(spec, solver=H.TIGHT)
        jv = np.array(s0.jvec(v[0].copy() if nc == 1 else v.copy()))
    h0 = 0.01
    errs = []
    for h in (h0, h0 / 2):
        d = []
        for sg in (+1, -1):
            props = [list(np.asarray(p) + sg * h * dd) for p, dd in zip(spec['props'], direction)]
            with H.quiet():
                s = H.new_sim(spec, props=props, solver=H.TIGHT)
                s.compute()
            d.append(np.array(s.data.synthetic.data))
        fd = (d[0] - d[1]) / (2 * h)
        m = np.isfinite(fd) & np.isfinite(jv)
        errs.append(float(np.max(np.abs(fd[m] - jv[m]) / np.maximum(np.abs(jv[m]), 1e-3 * np.max(np.abs(jv[m]))))))
    if errs[1] > 2e-3 and errs[1] > 0.6 * errs[0]:
        return {'signature': 'jvec is not the directional derivative of the synthetic data',
                'spec': spec, 'seed': int(seed), 'observed': {'max relative deviation (h, h/2)': errs},
                'required': 'deviation -> 0 (second order in h)'}, errs
    return None, errs


def search(ctx, broken):
    rng = ctx.rng
    hits = []
    off = rng.randrange(24)
    n = 5 if ctx.thorough else 3
    # histories with noise-model changes between caching the weights and jtvec
    woff = len(WH_CHANGES) * rng.randrange(3)
    worst = 0.0
    for i in range(24 if ctx.thorough else len(WH_CHANGES)):
        sp = wh_spec(rng, off, i)
        sd_ = rng.randrange(2**31)
        _t, rec_ = weights_history(sp, woff + i, sd_, want_coq=False)
        hit, err = wh_numeric_hit(sp, rec_, sd_)
        worst = max(worst, err)
        if hit:
            ctx.notes.append(f"weights-history klass={woff + i}: defect={err:.2e}")
            hits.append(hit)
            return hits
    ctx.notes.append(f"weights-history tests: worst defect={worst:.2e}")
    for i, mode in enumerate(['input', 'single', 'both', 'dict', 'frequency', 'source', 'same']
                             if ctx.thorough else ['input', 'single', 'both']):
        spec = H.add_observed(H.gen_spec(rng, idx=off + 13 * i + 4, n_src=2 if i % 2 else 1,
                                         n_freq=1 if i % 2 else 2, n_rec=2, max_pairs=2), rng)
        hit, err = history_dot_case(spec, mode, rng.randrange(2**31))
        ctx.notes.append(f"history-test gridding={mode}: defect={err:.2e}")
        if hit:
            hits.append(hit)
            return hits
    for i in range(n):
        spec = H.add_observed(H.gen_spec(rng, idx=off + 7 * i, n_src=2, n_freq=2 if i == 0 else None,
                                         mapping=NONCOND[(off + i) % 5] if i == 0 else None), rng)
        for gi, gridding in enumerate(GRIDDINGS if (i == 0 or ctx.thorough)
                                      else ['same', GRIDDINGS[1 + i % 6]]):
            hit, err = dot_case(spec, gridding, use_files=((i + gi) % 2 == 1), seed=rng.randrange(2**31))
            ctx.notes.append(f"dot-test {H.brief(spec)['mapping']}/{H.brief(spec)['aniso']} "
                             f"gridding={gridding} files={(i + gi) % 2 == 1}: rel={err:.2e}")
            if hit:
                hits.append(hit)
                return hits
        hit, errs = fd_case(spec, rng.randrange(2**31))
        ctx.notes.append(f"fd-test: {['%.2e' % e for e in errs]}")
        if hit:
            hits.append(hit)
            return hits
    return hits


def replay(ctx, payload):
    fi = payload.get('failing_input')
    if not fi or 'spec' not in fi:
        return False
    if 'weights_history' in fi:
        _t, rec_ = weights_history(fi['spec'], fi['klass'], fi['seed'], want_coq=False)
        hit, _ = wh_numeric_hit(fi['spec'], rec_, fi['seed'])
        return hit is None
    if 'history' in fi:
        hit, _ = history_dot_case(fi['spec'], fi['gridding'], fi['seed'])
    elif 'gridding' in fi:
        hit, _ = dot_case(fi['spec'], fi['gridding'], fi['file_dir'], fi['seed'])
    else:
        hit, _ = fd_case(fi['spec'], fi['seed'])
    return hit is None
