"""C12 -- Simulation results are a function of (model, survey), not of call history.

Theorems: coq/Props/C12.v about the hand model coq/Model/SimMachine.v (a state
machine whose cached values are tags "which quantity of which model").
Tie: random operation histories are run on real emg3d.Simulation objects (tiny
4x4x4 problems, isotropic/VTI, memory/file_dir) and on the Coq model
(`Eval vm_compute in run_dump ...`); after EVERY step the tag of every public
cache of every simulation in the world (original + copies/reloads), the return
value and the list of solves issued (kind, slot, tolerance, warm start) are
compared.  Implementation values are classified by comparing them with
quantities of FRESH simulations (and jtvec/jvec of fresh ones).
Searcher: independent oracle "run the history, then ask misfit / gradient /
synthetic and compare with a fresh simulation", with delta-debugging to a
minimal history; it first replays the witnesses of the Coq refutation theorems.
"""
import itertools
import os
import shutil
import tempfile
import warnings

import numpy as np

from vlib import core as V
from vlib import kernels as K

ID = 'C12'
LEVEL_TEXT = ("Theorems (Props/C12.v) about Model/SimMachine.v, for ALL operation lists over {compute, "
              "misfit, gradient, jvec, jtvec, get_efield, get_hfield, clean(3), copy/to_dict+from_dict/"
              "to_file+from_file(h5,npz,json) x what(4), model update+clean} on any number of slots and any "
              "number of derived simulations (in-memory mode): coherence invariant of every cache "
              "(inv_reachable), history independence of synthetic/misfit/gradient, independence of copies, "
              "every solve issued with the tolerance of its kind and handed the current model version (in-place and replacement updates). The three places where the code as found "
              "violates this are refuted by vm_compute witnesses (history_independence_refuted, ...), and "
              "so is independence of copies that share a file_dir. FAULT PATHS (Model/SimFault.v): operations "
              "during which a batch of solves (forward / back-propagation / jvec), the start of the gradient "
              "computation (warnings as errors) or io raises are operations of the machine; for ALL histories "
              "mixing completed and failed operations the invariant holds and synthetic/misfit/gradient are "
              "those of a fresh simulation (history_independence_with_failed_operations), a failed jtvec "
              "restores residual and gradient cache (failed_jtvec_restores), a failed operation changes "
              "neither the model nor another simulation; jtvec without `finally` is refuted.")
LEVEL_NOTE = ("The model is hand-written; it is tied to /repo by differential correspondence after every "
              "step of random histories (state tags, return values, solve traces) -- not by translation. "
              "Numerical equality 'to solver tolerance' of warm- and cold-started solves, deep-copy "
              "independence of arrays (checked with np.shares_memory) and h5py/npz/json fidelity rest on "
              "the correspondence. file_dir mode: no positive theorem is proved (gap, correspondence only); "
              "with copies sharing file_dir independence is refuted (copies_independent_file_refuted, "
              "a finding). "
              "_dict_grid and the info dictionaries are not modelled (gridding='same'). Fault paths: the "
              "seams at which an exception is injected are the entry of emg3d._multiprocessing.process_map "
              "(first batch of a kind), emg3d's UserWarnings as errors, and to_file into a missing directory; "
              "an exception raised INSIDE a batch after some solves, or between two statements that have no "
              "such seam (e.g. in fields.get_receiver while responses are stored: searcher only), is not "
              "modelled; memory mode only; an empty _dict_bfield is identified with an absent one.")
TECHNIQUE = "Coq proof (invariant + induction over operation lists) + differential correspondence (vm_compute)"
DESIGN_REF = "DESIGN.md section 6 C12"
GEN = []
PROPS = 'Props/C12.v'
TRUSTED = ["Model/SimMachine.v as the reading of emg3d/simulations.py (validated on every run by the "
           "step-by-step correspondence of random histories)",
           "Model/SimFault.v as the reading of what an operation of emg3d/simulations.py leaves behind when it "
           "raises at a seam (validated on every run by the fault-path stream: exceptions injected into the "
           "real implementation, state compared after every step)",
           "classification of implementation values by comparison (rtol 1e-4 of the norm) with quantities "
           "of fresh simulations"]
ASSUMES = ["survey, grid, solver options fixed during a history; gridding='same'; max_workers=1; "
           "layered=False; the caller does not modify returned arrays in place",
           "solver converges to its tolerance on the tiny problems (checked: exit code 0 of the reference runs)"]

TOL_F, TOL_G = 1e-7, 1e-6
RTOL = 1e-4
NW, NV, NM = 2, 2, 2


# ------------------------------------------------------------------ problems
class Problem:
    """A tiny survey/grid with two model versions and reference quantities.

    layout % 2: 0 = 2 sources x 1 frequency, 1 = 2 sources x 2 frequencies;
    layout // 2: 0 = gridding='same' (computational grid IS the model grid),
    1 = gridding='input' with an 8x4x4 computational grid that differs from the
    4x4x4 model grid (the model is interpolated for every solve)."""

    def __init__(self, case, layout, interp='linear'):
        import emg3d
        self.case, self.layout, self.interp = case, layout, interp
        self.gridding = 'input' if layout >= 2 else 'same'
        hx = np.ones(4) * 50.0
        self.grid = emg3d.TensorMesh([hx, hx, hx], (-100, -100, -100))
        self.cgrid = (emg3d.TensorMesh([np.ones(8) * 25.0, hx, hx], (-100, -100, -100))
                      if self.gridding == 'input' else self.grid)
        sh = self.grid.shape_cells
        r = np.random.RandomState(11 + (case == 'VTI') + 2 * layout)
        self.props = []
        for m in range(NM + 1):                       # last one generates the observed data
            px = 1.0 + r.randint(1, 8, sh) / 4.0
            pz = 1.0 + r.randint(1, 8, sh) / 4.0
            self.props.append((px, pz))
        if layout % 2 == 0:
            self.src = [(-30, 10, 5, 20, 10), (20, -15, 10, 70, -20)]
            self.freqs = [1.0]
        else:                                  # 2 sources x 2 frequencies = 4 slots
            self.src = [(-30, 10, 5, 20, 10), (20, -15, 10, 70, -20)]
            self.freqs = [1.0, 2.0]
        self.src_names = ['South', 'North'][:len(self.src)]
        self.rec_names = ['Rz-mag', 'Rb', 'Ra']
        self.freq_names = ['low', 'high'][:len(self.freqs)]
        self.slot_keys = list(itertools.product(self.src_names, self.freq_names))
        self.n = len(self.src) * len(self.freqs)
        self.shape = (len(self.src), 3, len(self.freqs))
        self.W = [(r.randint(-8, 8, self.shape) + 1j * r.randint(-8, 8, self.shape)) / 8.0
                  for _ in range(NW)]
        self.Vv = [r.randint(1, 8, ((2,) if case == 'VTI' else ()) + tuple(sh)) / 8.0 for _ in range(NV)]
        # model versions as the solver may be handed them: on the model grid, or
        # interpolated to the computational grid
        self.mrefs = []
        for m in range(NM):
            mm = self.model(m)
            refs = [mm]
            if self.gridding == 'input':
                refs.append(mm.interpolate_to_grid(self.cgrid))
            self.mrefs.append(refs)
        self.obs = None
        s = self.make_sim(NM)
        s.compute()
        pert = 1.0 + r.randint(-4, 5, self.shape) / 16.0 + 1j * r.randint(-4, 5, self.shape) / 16.0
        self.obs = s.data.synthetic.data.copy() * pert
        self.ref = [self._reference(m) for m in range(NM)]

    def model(self, m):
        import emg3d
        px, pz = self.props[m]
        kw = dict(property_x=px.copy())
        if self.case == 'VTI':
            kw['property_z'] = pz.copy()
        return emg3d.Model(self.grid, mapping='Conductivity', **kw)

    def make_sim(self, m, file_dir=None):
        import emg3d
        # user-named keys, deliberately NOT in alphabetical order, magnetic receiver first: the
        # order of these dicts is the labelling of the data axes and must survive every round trip
        src = {nm: (emg3d.TxElectricDipole(c) if i == 0 else emg3d.TxElectricPoint(c))
               for i, (nm, c) in enumerate(zip(self.src_names, self.src))}
        rec = {'Rz-mag': emg3d.RxMagneticPoint((10, 30, -30, 0, 0)),
               'Rb': emg3d.RxElectricPoint((30, 20, -10, 0, 0)),
               'Ra': emg3d.RxElectricPoint((-20, -30, 20, 90, 0))}
        assert list(rec) == self.rec_names
        data = None if self.obs is None else self.obs.copy()
        survey = emg3d.Survey(src, rec, dict(zip(self.freq_names, self.freqs)), data=data,
                              noise_floor=1e-16, relative_error=0.05)
        gkw = dict(gridding='same')
        if self.gridding == 'input':
            gkw = dict(gridding='input', gridding_opts=self.cgrid)
        return emg3d.Simulation(
            survey, self.model(m), max_workers=1, **gkw,
            receiver_interpolation=self.interp, verb=-1, tqdm_opts=False, file_dir=file_dir,
            solver_opts=dict(tol=TOL_F, tol_gradient=TOL_G, maxit=60, verb=0, plain=True))

    def slots(self, sim=None):
        """Source-frequency slots BY LABEL, in the canonical order of the problem (whatever the
        order in which a particular simulation holds its sources and frequencies)."""
        return list(self.slot_keys)

    def perm(self, sim):
        """Canonical index of every source / receiver / frequency label of sim, in sim's own order."""
        return ([self.src_names.index(k) for k in sim.survey.sources.keys()],
                [self.rec_names.index(k) for k in sim.survey.receivers.keys()],
                [self.freq_names.index(k) for k in sim.survey.frequencies.keys()])

    def to_canon(self, sim, arr):
        """Data-shaped array in sim's own axis order -> canonical label order (comparison BY LABEL)."""
        ps, pr, pf = self.perm(sim)
        out = np.empty_like(np.asarray(arr))
        out[np.ix_(ps, pr, pf)] = arr
        return out

    def to_own(self, sim, arr):
        ps, pr, pf = self.perm(sim)
        return np.asarray(arr)[np.ix_(ps, pr, pf)]

    def _reference(self, m):
        s = self.make_sim(m)
        s.compute()
        sl = self.slots(s)
        ref = {'syn': s.data.synthetic.data.copy()}
        ref['ef'] = [s.get_efield(*p).field.copy() for p in sl]
        ref['hf'] = [s.get_hfield(*p).field.copy() for p in sl]
        ref['exit'] = [s.get_efield_info(*p)['exit'] for p in sl]
        ref['misfit'] = float(np.asarray(s.misfit))
        ref['residual'] = s.data.residual.data.copy()
        ref['weights'] = s.data.weights.data.copy()
        ref['grad'] = np.array(s.gradient)
        ref['jt'], ref['jv'] = [], []
        for w in self.W:
            t = self.make_sim(m)
            _ = t.misfit
            ref['jt'].append(np.array(t.jtvec(w)))
        for v in self.Vv:
            t = self.make_sim(m)
            ref['jv'].append(np.array(t.jvec(v)))
        return ref


_PROBLEMS = {}


def problem(case, layout, interp='linear'):
    key = (case, layout, interp)
    if key not in _PROBLEMS:
        with warnings.catch_warnings():
            warnings.simplefilter('ignore')
            _PROBLEMS[key] = Problem(case, layout, interp)
    return _PROBLEMS[key]


def close(a, b, rtol=RTOL):
    a, b = np.asarray(a), np.asarray(b)
    if a.shape != b.shape:
        return False
    if np.isnan(a).any() or np.isnan(b).any():
        return False
    nb = np.linalg.norm(b.ravel())
    return np.linalg.norm((a - b).ravel()) <= rtol * nb + 1e-300


# ---------------------------------------------------------------- operations
CW = ['computed', 'keepresults', 'all']
DW = ['computed', 'results', 'all', 'plain']
VIA = ['copy', 'dict', 'h5', 'npz', 'json']
ERR = {'AttributeError': 1, 'FileNotFoundError': 2, 'OSError': 2, 'TypeError': 3, 'UserWarning': 7}


class Injected(KeyboardInterrupt):
    """Exception raised by the harness at a seam of emg3d (not an `Exception`: nothing in emg3d may
    swallow it)."""


# An operation with an ARMED FAULT is written name!X:
#   !F / !B / !G  the first call of emg3d._multiprocessing.process_map for the forward ('Compute
#                 efields') / back-propagation ('Back-propagate') / jvec ('Compute jvec') batch raises
#                 `Injected` on entry;
#   !W            emg3d's UserWarnings are errors during the operation (warnings.filterwarnings('error',
#                 category=UserWarning)): with receiver_interpolation='cubic' the gradient computation
#                 raises at its start;
#   !io           export through a file whose directory does not exist (to_file raises in io.save after
#                 the simulation was serialised);
#   !R<k>         (searcher only, not modelled) the k-th call of emg3d.fields.get_receiver raises.
# A fault that the operation never reaches does not fire; the operation then completes normally.
FAULT_COQ = {'F': 'FBatch KF', 'B': 'FBatch KB', 'G': 'FBatch KG', 'W': 'FWarn', 'io': 'FIo'}
FAULT_LEGEND = ("op!F / !B / !G: the first forward / back-propagation / jvec batch of solves "
                "(emg3d._multiprocessing.process_map) raises during op; op!W: UserWarnings are errors during "
                "op (warnings.filterwarnings('error', category=UserWarning)); export!io: to_file into a "
                "directory that does not exist; op!R<k>: the k-th call of emg3d.fields.get_receiver raises. "
                "The exception is caught by the caller and the simulation is used further.")


def split_fault(name):
    base, _, flt = name.partition('!')
    return base, (flt or None)


def has_fault(ops):
    return any('!' in o[1] for o in ops)


def op_name(op):
    return op[1] + (f"@{op[0]}" if op[0] else '')


def op_text(op):
    k, name, *args = op
    return f"{name}({','.join(str(a) for a in args)})" + (f"@{k}" if k else '')


def coq_op(op, triple=False):
    k, name, *a = op
    name, flt = split_fault(name)
    t = {'compute': 'OCompute', 'misfit': 'OMisfit', 'gradient': 'OGradient'}.get(name)
    if name == 'jvec':
        t = f"OJvec {a[0]}"
    elif name == 'jtvec':
        t = f"OJtvec {a[0]}"
    elif name == 'get_efield':
        t = f"OGetE {a[0]}"
    elif name == 'get_hfield':
        t = f"OGetH {a[0]}"
    elif name == 'clean':
        t = "OClean " + ['CComputed', 'CKeep', 'CAll'][CW.index(a[0])]
    elif name == 'export':
        t = ("OExport " + ['VCopy', 'VDict', 'VH5', 'VNpz', 'VJson'][VIA.index(a[0])] + " "
             + ['DComputed', 'DResults', 'DAll', 'DPlain'][DW.index(a[1])])
    elif name == 'setmodel':
        t = (f"OSetModel {a[0]} " + V.coq_bool(a[1] == 'all') + " "
             + V.coq_bool(len(a) > 2 and a[2] == 'replace'))
    if triple:
        return f"({k}%nat, {t}, {'Some (' + FAULT_COQ[flt] + ')' if flt else 'None'})"
    return f"({k}%nat, {t})"


class World:
    """The implementation side: a list of real Simulations + solve tracing."""

    def __init__(self, prob, file_mode, faulty=False):
        self.p = prob
        self.file_mode = file_mode
        self.faulty = faulty         # history with armed faults: an empty _dict_bfield counts as absent
        self.armed = None            # batch kind (0/1/2) whose first process_map call raises
        self.fired = False
        self.tmp = tempfile.mkdtemp(prefix='c12_')
        self.file_dir = os.path.join(self.tmp, 'fd') if file_mode else None
        self.sims = [prob.make_sim(0, self.file_dir)]
        self.nfile = 0
        self.trace = []

    def close(self):
        shutil.rmtree(self.tmp, ignore_errors=True)

    # -- tracing of the solves issued, through emg3d._multiprocessing.process_map
    def _traced(self, sim, fn):
        from emg3d import _multiprocessing as mp
        from emg3d import io
        orig = mp.process_map
        sl = self.p.slots(sim)
        fkey = {float(v): k for k, v in sim.survey.frequencies.items()}
        skey = {id(v): k for k, v in sim.survey.sources.items()}
        trace = self.trace

        def pm(fun, items, max_workers, **kw):
            kind = {'Compute efields': 0, 'Back-propagate': 1, 'Compute jvec': 2}.get(kw.get('desc'), 9)
            if self.armed is not None and kind == self.armed and not self.fired:
                self.fired = True
                raise Injected(f"injected: process_map({kw.get('desc')!r}) raises")
            for j, it in enumerate(items):
                d = io.load(it, verb=0)['data'] if isinstance(it, str) else it
                tol = d['solver_opts'].get('tol')
                tk = 0 if tol == TOL_F else (1 if tol == TOL_G else 9)
                if kind == 0:
                    if isinstance(it, str):
                        nm = os.path.basename(it)[len('efield_'):-3]
                        names = [f"{a}_{b}" for a, b in sl]
                        if nm in names:      # files named by keys (before the C11 repair)
                            slot = names.index(nm)
                        else:                # files named by positions in the survey
                            i_s, i_f = (int(x) for x in nm.split('_'))
                            slot = sl.index((list(sim.survey.sources.keys())[i_s],
                                             list(sim.survey.frequencies.keys())[i_f]))
                    else:
                        slot = sl.index((skey[id(d['source'])], fkey[float(d['frequency'])]))
                else:
                    own = list(itertools.product(sim.survey.sources.keys(), sim.survey.frequencies.keys()))
                    slot = sl.index(own[j])
                trace.extend([kind, slot, tk, int(d['efield'] is not None), self.cls_model(d['model'])])
            return orig(fun, items, max_workers=max_workers, **kw)
        pm.count = orig.count          # process_map refers to its own global name for the counter
        mp.process_map = pm
        try:
            return fn()
        finally:
            mp.process_map = orig
            orig.count = pm.count

    def apply(self, op):
        """Returns the observation as the integer list of Model enc_obs."""
        import emg3d
        k, name, *a = op
        name, flt = split_fault(name)
        self.trace = []
        self.armed, self.fired = None, False
        if k >= len(self.sims):        # target was never created (its export raised): no-op, as in the model
            return [0, 0, 0, 0]
        restore_gr = None
        if flt in ('F', 'B', 'G'):
            self.armed = 'FBG'.index(flt)
        elif flt and flt[0] == 'R':
            from emg3d import fields as _fields
            restore_gr = _fields.get_receiver
            left = [int(flt[1:] or 1)]

            def gr(*args, **kwargs):
                left[0] -= 1
                if left[0] == 0:
                    self.fired = True
                    raise Injected("injected: fields.get_receiver raises")
                return restore_gr(*args, **kwargs)
            _fields.get_receiver = gr
        sim = self.sims[k]
        p = self.p
        sl = p.slots(sim)
        ret = [0, 0, 0, 0]
        try:
            with warnings.catch_warnings():
                warnings.simplefilter('ignore')
                if flt == 'W':
                    warnings.filterwarnings('error', category=UserWarning)
                if name == 'compute':
                    self._traced(sim, sim.compute)
                elif name == 'misfit':
                    v = self._traced(sim, lambda: sim.misfit)
                    ret = self.cls_number(v)
                elif name == 'gradient':
                    v = self._traced(sim, lambda: sim.gradient)
                    ret = [1] + self.cls_grad(v)
                elif name == 'jvec':
                    v = self._traced(sim, lambda: sim.jvec(p.Vv[a[0]].copy()))
                    ret = [1] + self.cls_jvec(p.to_canon(sim, v))
                elif name == 'jtvec':
                    v = self._traced(sim, lambda: sim.jtvec(p.to_own(sim, p.W[a[0]]).copy()))
                    ret = [1] + self.cls_grad(v)
                elif name == 'get_efield':
                    v = self._traced(sim, lambda: sim.get_efield(*sl[a[0]]))
                    ret = [1] + self.cls_field(v.field, 'ef', 7)
                elif name == 'get_hfield':
                    v = self._traced(sim, lambda: sim.get_hfield(*sl[a[0]]))
                    ret = [1] + self.cls_field(v.field, 'hf', 11)
                elif name == 'clean':
                    sim.clean(a[0])
                elif name == 'setmodel':
                    if len(a) > 2 and a[2] == 'replace':      # sim.model = new Model
                        sim.model = p.model(a[0])
                    else:                                     # edit the model in place
                        px, pz = p.props[a[0]]
                        sim.model.property_x[...] = px
                        if p.case == 'VTI':
                            sim.model.property_z[...] = pz
                    sim.clean(a[1])
                elif name == 'export':
                    via, what = a
                    if via == 'copy':
                        new = sim.copy(what)
                    elif via == 'dict':
                        new = emg3d.Simulation.from_dict(sim.to_dict(what, copy=True))
                    else:
                        self.nfile += 1
                        fn = os.path.join(self.tmp, f"sim{self.nfile}.{via}")
                        if flt == 'io':
                            fn = os.path.join(self.tmp, 'no_such_directory', f"sim{self.nfile}.{via}")
                        sim.to_file(fn, what=what, verb=0)
                        new = emg3d.Simulation.from_file(fn, verb=0)
                    if not isinstance(new, emg3d.Simulation):
                        # io.load could not rebuild the Simulation (returns the raw dict + a warning)
                        raise TypeError(f"{via}: from_dict/from_file returned {type(new).__name__}, "
                                        "not a Simulation")
                    self.sims.append(new)
                    ret = [3, len(self.sims) - 1, 0, 0]
                else:
                    raise ValueError(name)
        except Injected as e:
            ret = [4, 7, 0, 0]
            self.last_exc = f"Injected: {e}"
        except Exception as e:                     # noqa: BLE001 - mapped to the model's error enum
            ret = [4, ERR.get(type(e).__name__, 9), 0, 0]
            self.last_exc = f"{type(e).__name__}: {str(e)[:200]}"
        finally:
            self.armed = None
            if restore_gr is not None:
                from emg3d import fields as _fields
                _fields.get_receiver = restore_gr
        return ret + list(self.trace)

    def cls_model(self, mod):
        """Model version (0..NM-1) of a Model handed to the solver, 9 if none."""
        for m in range(NM):
            for ref in self.p.mrefs[m]:
                if (mod.property_x.shape == ref.property_x.shape
                        and np.allclose(mod.property_x, ref.property_x, rtol=1e-12, atol=0)
                        and (self.p.case != 'VTI'
                             or np.allclose(mod.property_z, ref.property_z, rtol=1e-12, atol=0))):
                    return m
        return 9

    # -- classification of values against fresh-simulation references
    def cls_number(self, v):
        if isinstance(v, memoryview) or not isinstance(v, (float, int, np.ndarray, np.generic)):
            return [2, 0, 0, 0]
        return [1] + self.cls_misfit(v)

    def cls_misfit(self, v):
        try:
            x = float(np.asarray(v))
        except Exception:                          # noqa: BLE001
            return [13, 0, 0]
        for m in range(NM):
            if abs(x - self.p.ref[m]['misfit']) <= RTOL * abs(self.p.ref[m]['misfit']):
                return [3, m, 0]
        return [13, 0, 0]

    def cls_grad(self, g):
        for m in range(NM):
            if close(g, self.p.ref[m]['grad']):
                return [4, m, 0]
        for m in range(NM):
            for w in range(NW):
                if close(g, self.p.ref[m]['jt'][w]):
                    return [5, m, w]
        return [13, 0, 0]

    def cls_jvec(self, j):
        for m in range(NM):
            for v in range(NV):
                if close(j, self.p.ref[m]['jv'][v]):
                    return [6, m, v]
        return [13, 0, 0]

    def cls_field(self, f, key, code):
        for m in range(NM):
            for i in range(self.p.n):
                if close(f, self.p.ref[m][key][i]):
                    return [code, m, i]
        return [13, 0, 0]

    def slot_slice(self, arr, i):
        nf = len(self.p.freqs)
        return arr[i // nf, :, i % nf]

    def enc_sim(self, sim):
        from emg3d import io
        p = self.p
        out = []
        mcur = 13
        for m in range(NM):
            if (np.array_equal(sim.model.property_x, p.props[m][0])
                    and (p.case != 'VTI' or np.array_equal(sim.model.property_z, p.props[m][1]))):
                mcur = m
        out += [mcur, int(bool(sim._computed))]
        out += [0, 0, 0] if sim._misfit is None else self.cls_misfit(sim._misfit)
        out += [0, 0, 0] if sim._gradient is None else self.cls_grad(sim._gradient)
        for i, (s, f) in enumerate(p.slots(sim)):
            val = sim._dict_efield[s][f]
            if val is None:
                out += [0, 0, 0]
            elif isinstance(val, str):
                if not os.path.exists(val):
                    out += [12, 0, 0]
                else:
                    out += self.cls_field(io.load(val, verb=0)['efield'].field, 'ef', 7)
            else:
                out += self.cls_field(val.field, 'ef', 7)
        hb = hasattr(sim, '_dict_bfield')
        if hb and self.faulty and all(v is None for d in sim._dict_bfield.values() for v in d.values()):
            hb = False         # created by a `_bcompute` that raised before storing anything (Model/SimFault.v)
        out += [int(hb)]
        syn = p.to_canon(sim, sim.data.synthetic.data)
        for i in range(p.n):
            sli = self.slot_slice(syn, i)
            if np.isnan(sli).all():
                out += [1, 0, 0]
                continue
            for m in range(NM):
                if close(sli, self.slot_slice(p.ref[m]['syn'], i)):
                    out += [2, m, i]
                    break
            else:
                out += [13, 0, 0]
        wts = p.to_canon(sim, sim.data.weights.data) if 'weights' in sim.data.keys() else None
        if 'residual' not in sim.data.keys():
            out += [0, 0, 0]
        else:
            r = p.to_canon(sim, sim.data.residual.data)
            code = [13, 0, 0]
            for m in range(NM):
                if close(r, p.ref[m]['residual']):
                    code = [8, m, 0]
            for w in range(NW):
                if close(r, p.W[w] / p.ref[0]['weights']):
                    code = [9, 0, w]
            out += code
        out += [0, 0, 0] if wts is None else ([10, 0, 0] if close(wts, p.ref[0]['weights']) else [13, 0, 0])
        out += [0, 0, 0] if 'jvec' not in sim.data.keys() else self.cls_jvec(p.to_canon(sim, sim.data.jvec.data))
        tol = sim.solver_opts.get('tol')
        out += [0 if tol == TOL_F else (1 if tol == TOL_G else 9)]
        return out

    def enc(self):
        return [self.enc_sim(s) for s in self.sims]

    def survey_changed(self):
        """The survey is fixed during a history: the observed data of every simulation, read BY
        (source, receiver, frequency) LABEL, must be the problem's data; the key sets must be the
        problem's.  Returns a description of the first deviation or None."""
        p = self.p
        for k, sim in enumerate(self.sims):
            keys = (list(sim.survey.sources.keys()), list(sim.survey.receivers.keys()),
                    list(sim.survey.frequencies.keys()))
            if [sorted(x) for x in keys] != [sorted(p.src_names), sorted(p.rec_names), sorted(p.freq_names)]:
                return f"simulation {k}: survey keys {keys}"
            fr = [float(sim.survey.frequencies[f]) for f in p.freq_names]
            if fr != [float(x) for x in p.freqs]:
                return f"simulation {k}: frequency values by label {fr} instead of {list(p.freqs)}"
            obs = p.to_canon(sim, sim.data.observed.data)
            if not np.array_equal(obs, p.obs):
                bad = np.argwhere(obs != p.obs)
                i, j, f = (int(x) for x in bad[0])
                return (f"simulation {k}: data.observed at label ({p.src_names[i]}, {p.rec_names[j]}, "
                        f"{p.freq_names[f]}) is {obs[i, j, f]} instead of {p.obs[i, j, f]} "
                        f"({len(bad)} of {obs.size} entries sit on wrong labels; sources "
                        f"{keys[0]}, receivers {keys[1]}, frequencies {keys[2]})")
        return None

    def shared_arrays(self, k_new, k_src):
        """Names of arrays of sim k_new that share memory with sim k_src."""
        a, b = self.sims[k_new], self.sims[k_src]
        bad = []

        def arrs(s):
            d = {'property_x': s.model.property_x}
            for key in s.data.keys():
                d['data.' + key] = s.data[key].data
            if isinstance(s._gradient, np.ndarray):
                d['_gradient'] = s._gradient
            for src, f in self.p.slots(s):
                v = s._dict_efield[src][f]
                if v is not None and not isinstance(v, str):
                    d[f'efield.{src}.{f}'] = v.field
            return d
        da, db = arrs(a), arrs(b)
        for na, xa in da.items():
            for nb, xb in db.items():
                if isinstance(xa, np.ndarray) and isinstance(xb, np.ndarray) and np.shares_memory(xa, xb):
                    bad.append(f"{na}~{nb}")
        if a._dict_efield is b._dict_efield:
            bad.append('_dict_efield is shared')
        if a.solver_opts is b.solver_opts:
            bad.append('solver_opts is shared')
        return bad


FIELD_NAMES = None


def field_names(n):
    names = ['model', 'computed']
    for nm in ('misfit', 'gradient'):
        names += [f'{nm}.{x}' for x in 'kma']
    for i in range(n):
        names += [f'efield[{i}].{x}' for x in 'kma']
    names += ['has_bfield']
    for i in range(n):
        names += [f'synthetic[{i}].{x}' for x in 'kma']
    for nm in ('residual', 'weights', 'jvec'):
        names += [f'{nm}.{x}' for x in 'kma']
    names += ['tol']
    return names


# --------------------------------------------------------------- generation
def gen_history(rng, n, maxlen, nsims_max=3, vias=None):
    L = rng.randint(1, maxlen)
    ops, nsims = [], 1
    for _ in range(L):
        k = rng.choice([0, nsims - 1, rng.randrange(nsims)])
        r = rng.random()
        if r < 0.10:
            op = (k, 'compute')
        elif r < 0.22:
            op = (k, 'misfit')
        elif r < 0.36:
            op = (k, 'gradient')
        elif r < 0.44:
            op = (k, 'jvec', rng.randrange(NV))
        elif r < 0.56:
            op = (k, 'jtvec', rng.randrange(NW))
        elif r < 0.62:
            op = (k, 'get_efield', rng.randrange(n))
        elif r < 0.66:
            op = (k, 'get_hfield', rng.randrange(n))
        elif r < 0.78:
            op = (k, 'clean', rng.choice(CW))
        elif r < 0.92 and nsims < nsims_max:
            op = (k, 'export', rng.choice(vias or VIA), rng.choice(DW))
            nsims += 1
        else:
            op = (k, 'setmodel', rng.randrange(NM), rng.choice(['computed', 'computed', 'all']),
                  rng.choice(['inplace', 'replace']))
        ops.append(op)
    return ops


def valid(ops):
    nsims = 1
    for op in ops:
        if op[0] >= nsims:
            return False
        if op[1] == 'export':
            nsims += 1
    return True


# ------------------------------------------------------------------- quirks
# Witnesses of the Coq refutation theorems (Props/C12.v); replayed on the
# implementation by known_checks / search.
WITNESSES = [
    ('C12: history=[misfit, jtvec, gradient]', 'q_jtvec', False,
     [(0, 'misfit'), (0, 'jtvec', 0), (0, 'gradient')],
     "gradient after jtvec(w) returns the cached J^T w and data.residual stays w/weights "
     "(simulations.py jtvec); also jtvec on a fresh simulation raises AttributeError"),
    ('C12: history=[misfit, export(h5), misfit@1]', 'q_misfit', False,
     [(0, 'misfit'), (0, 'export', 'h5', 'computed'), (1, 'misfit')],
     "after to_file/from_file the cached misfit is a numpy scalar and `misfit` returns "
     "`_misfit.data` = a memoryview; to_file(json) raises TypeError once the misfit is cached "
     "(the cache holds an xarray.DataArray)"),
    ('C12: history=[misfit, clean(keepresults), gradient]', 'q_keep', False,
     [(0, 'misfit'), (0, 'clean', 'keepresults'), (0, 'gradient')],
     "gradient/jvec/jtvec raise AttributeError after clean('keepresults') or on copy('results'): "
     "_computed stays True while the fields are gone"),
    ('C12: file_dir history=[compute, export(copy), setmodel@1, compute@1, gradient]', None, True,
     [(0, 'compute'), (0, 'export', 'copy', 'computed'), (1, 'setmodel', 1, 'computed'),
      (1, 'compute'), (0, 'gradient')],
     "with file_dir set, copy()/from_file share the field files of the original: the copy's "
     "clean() deletes them and its compute() overwrites them (original then uses fields of the "
     "copy's model)"),
]


def bad_tolerance(ob, m_expected=None):
    """Solve records (kind, slot, tol, warm) of an observation whose tolerance is
    not the one a fresh simulation uses for that kind of solve."""
    tr = ob[4:]
    for j in range(0, len(tr) - 4, 5):
        kind, slot, tk = tr[j], tr[j + 1], tr[j + 2]
        if m_expected is not None and tr[j + 4] != m_expected:
            got = f"model version {tr[j + 4]}" if tr[j + 4] < NM else "a model that is no version of this problem"
            return (f"{['forward', 'back-propagation', 'jvec'][kind] if kind < 3 else 'unknown'} solve of slot "
                    f"{slot} was handed {got}; the simulation's model is version {m_expected}")
        if (kind == 0 and tk != 0) or (kind in (1, 2) and tk != 1):
            return (f"{['forward', 'back-propagation', 'jvec'][kind] if kind < 3 else 'unknown'} solve of slot "
                    f"{slot} issued with {['tol', 'tol_gradient'][tk] if tk < 2 else 'an unknown tolerance'}")
    return None


# problems: (case, layout); layout >= 2 means gridding='input' (see Problem)
COMBOS = [('isotropic', 0), ('VTI', 1), ('isotropic', 3), ('VTI', 2)]

# histories of the shape "fill every cache, update the model, clean, recompute"
# (in place and by replacement, clean('computed') and clean('all'), also on a
# copy); run on every problem by the correspondence and by the searcher
SUSPECTS = [
    [(0, 'compute'), (0, 'setmodel', 1, 'computed', 'replace'), (0, 'gradient')],
    [(0, 'get_hfield', 0), (0, 'setmodel', 1, 'computed', 'inplace'), (0, 'misfit')],
    [(0, 'gradient'), (0, 'jvec', 0), (0, 'setmodel', 1, 'all', 'replace'), (0, 'jvec', 1),
     (0, 'jtvec', 0)],
    [(0, 'misfit'), (0, 'export', 'copy', 'computed'), (1, 'setmodel', 1, 'computed', 'replace'),
     (1, 'compute'), (0, 'setmodel', 1, 'computed', 'inplace'), (0, 'gradient'),
     (0, 'setmodel', 0, 'computed', 'inplace'), (0, 'gradient')],
    # file and dict round trips on every problem (incl. gridding='input', whose provided mesh must
    # survive the round trip), continuing to work with the reloaded simulations
    [(0, 'gradient'), (0, 'export', 'h5', 'all'), (1, 'jvec', 0), (0, 'export', 'json', 'results'),
     (2, 'gradient'), (1, 'setmodel', 1, 'computed', 'replace'), (1, 'misfit')],
    [(0, 'get_efield', 0), (0, 'export', 'npz', 'computed'), (1, 'misfit'), (1, 'export', 'dict', 'plain'),
     (2, 'jtvec', 1)],
    # "results kept, fields dropped, then ONE source-frequency pair recomputed" -- with and without a
    # cached misfit, through clean('keepresults'), copy('results') and to_file(what='results')
    [(0, 'compute'), (0, 'clean', 'keepresults'), (0, 'get_efield', 1), (0, 'misfit'), (0, 'gradient')],
    [(0, 'misfit'), (0, 'export', 'copy', 'results'), (1, 'get_hfield', 0), (1, 'gradient'),
     (0, 'clean', 'keepresults'), (0, 'get_efield', 0), (0, 'jvec', 0)],
    [(0, 'compute'), (0, 'export', 'h5', 'results'), (1, 'gradient'), (0, 'export', 'npz', 'results'),
     (2, 'get_efield', 1), (2, 'misfit')],
]


# ---- fault paths: an operation raises mid-way, the exception is caught, the simulation is used further
# problems of the fault stream: (case, layout, receiver_interpolation); 'cubic' makes `gradient` warn
FAULT_COMBOS = [('isotropic', 0, 'linear'), ('VTI', 1, 'linear'), ('isotropic', 3, 'linear'),
                ('VTI', 2, 'linear'), ('isotropic', 0, 'cubic')]
FAULT_OPS = {'F': [('compute',), ('misfit',), ('gradient',), ('jvec', 0), ('jtvec', 1), ('get_efield', 1),
                   ('get_hfield', 0)],
             'B': [('gradient',), ('jtvec', 0)],
             'G': [('jvec', 1)],
             'W': [('gradient',), ('jtvec', 1)]}
FAULT_PREFIX = {'F': [[], [(0, 'compute'), (0, 'clean', 'keepresults')], [(0, 'misfit'), (0, 'clean', 'keepresults')]],
                'B': [[], [(0, 'misfit')], [(0, 'gradient')], [(0, 'misfit'), (0, 'clean', 'keepresults')]],
                'G': [[], [(0, 'misfit')], [(0, 'compute'), (0, 'clean', 'keepresults')]],
                'W': [[], [(0, 'misfit')], [(0, 'gradient')], [(0, 'misfit'), (0, 'clean', 'keepresults')]]}


def fault_suspects():
    """Deterministic enumeration: every (operation, fault class) x every prefix that decides WHERE the
    fault fires (in the misfit part, in the back-propagation, in the per-pair recomputation loop, inside
    jtvec's try-block, with or without a cached gradient), followed by `gradient` on the same simulation.
    Returns [(interp, ops)]; 'W' needs the cubic problem."""
    out = []
    for flt in ('F', 'B', 'G', 'W'):
        for o in FAULT_OPS[flt]:
            for pre in FAULT_PREFIX[flt]:
                ops = list(pre) + [(0, o[0] + '!' + flt) + tuple(o[1:]), (0, 'gradient')]
                out.append(('cubic' if flt == 'W' else 'linear', ops))
    # faults that never fire on these operations (the model says so as well)
    out.append(('cubic', [(0, 'compute!W'), (0, 'jvec!W', 0), (0, 'misfit!B'), (0, 'gradient')]))
    out.append(('cubic', [(0, 'gradient'), (0, 'jtvec!B', 0), (0, 'jtvec!W', 1), (0, 'gradient')]))
    # to_file raises in io; the simulation and later exports are as if nothing had happened
    for via, what in (('h5', 'results'), ('npz', 'all'), ('json', 'plain')):
        out.append(('linear', [(0, 'misfit'), (0, 'export!io', via, what), (0, 'export', 'dict', 'plain'),
                               (1, 'gradient'), (0, 'export', via, 'computed'), (2, 'gradient!B'),
                               (2, 'gradient')]))
    # failed operations on a copy, then the original and the copy are asked
    out.append(('linear', [(0, 'gradient'), (0, 'export', 'copy', 'results'), (1, 'jtvec!F', 0),
                           (1, 'setmodel', 1, 'computed', 'replace'), (1, 'jtvec!B', 1), (1, 'gradient'),
                           (0, 'jvec!G', 0), (0, 'gradient')]))
    return out


def fault_cases():
    """The enumerated fault histories as correspondence cases (memory mode), spread round-robin over the
    problems of their receiver-interpolation class."""
    lin = [c for c in FAULT_COMBOS if c[2] == 'linear']
    cub = [c for c in FAULT_COMBOS if c[2] == 'cubic']
    cases, nl, nc = [], 0, 0
    for interp, ops in fault_suspects():
        if interp == 'cubic':
            case, layout, _ = cub[nc % len(cub)]
            nc += 1
        else:
            case, layout, _ = lin[nl % len(lin)]
            nl += 1
        cases.append(dict(case=case, layout=layout, interp=interp, file=False, fault=True,
                          n=problem(case, layout, interp).n, ops=ops))
    return cases


def gen_fault_history(rng, n, maxlen, cubic, with_r=False):
    """A random history (as gen_history) in which computing operations carry an armed fault with
    probability 1/2, clean('keepresults') is frequent (so that forward batches occur inside
    gradient/jvec/jtvec), and failing to_file calls are interspersed."""
    ops = []
    for op in gen_history(rng, n, maxlen):
        if rng.random() < 0.25:
            ops.append((op[0], 'clean', 'keepresults'))
        name = op[1]
        kinds = {'compute': 'F', 'misfit': 'F', 'get_efield': 'F', 'get_hfield': 'F', 'gradient': 'FBB',
                 'jvec': 'FG', 'jtvec': 'FBB'}.get(name)
        if kinds and rng.random() < 0.5:
            kinds = kinds + ('WW' if cubic and name in ('gradient', 'jtvec') else '')
            flt = rng.choice(kinds)
            if with_r and rng.random() < 0.4:
                flt = 'R%d' % rng.randint(1, 4)
            op = (op[0], name + '!' + flt) + tuple(op[2:])
        ops.append(op)
        if rng.random() < 0.12:
            ops.append((op[0], 'export!io', rng.choice(['h5', 'npz', 'json']), rng.choice(DW)))
    return ops


def check_synthetic(w, prob, intended, have, op, ob):
    """Reported synthetic data, BY LABEL, after an operation (own bookkeeping, no Coq):
    every present slot is the response of the simulation's intended model; a slot that was
    present stays present unless this simulation was cleaned ('computed'/'all') or its model
    updated; after compute/misfit/gradient/jvec/jtvec all slots are present, as in a fresh
    simulation.  Updates have[k] (set of present slots); returns a description or None."""
    names = field_names(prob.n)
    k, name = op[0], split_fault(op[1])[0]
    new_index = None
    if op[1] == 'export' and ob[0] == 3:
        have.append(set())
        new_index = len(w.sims) - 1
    what = op[2] if name == 'clean' else (op[3] if name == 'setmodel' else None)
    for k2, sm in enumerate(w.sims):
        e = w.enc_sim(sm)
        present = set()
        for i in range(prob.n):
            j0 = names.index(f'synthetic[{i}].k')
            t = e[j0:j0 + 3]
            if t == [1, 0, 0]:
                continue
            if t != [2, intended[k2], i]:
                return (f"simulation {k2}: data.synthetic at {prob.slot_keys[i]} is not the response of its "
                        f"model (version {intended[k2]}) for that source and frequency (tag {t})")
            present.add(i)
        reset = k2 == k and what in ('computed', 'all')
        lost = sorted(have[k2] - present) if k2 != new_index else []
        if lost and not reset:
            return (f"simulation {k2}: data.synthetic of {[prob.slot_keys[i] for i in lost]} was overwritten "
                    f"with NaN by {op_text(op)}")
        if (k2 == k and ob[0] != 4 and name in ('compute', 'misfit', 'gradient', 'jvec', 'jtvec')
                and len(present) < prob.n):
            miss = [prob.slot_keys[i] for i in range(prob.n) if i not in present]
            return (f"simulation {k2}: after {op_text(op)} data.synthetic is NaN for {miss} "
                    "(a fresh simulation has the responses of every source and frequency)")
        have[k2] = present
    return None


def property_fails(prob, file_mode, ops):
    """Independent oracle.  Run the history; then ask every simulation for
    misfit, gradient, synthetic data and compare with a fresh simulation of
    its current model.  Returns None or a description."""
    w = World(prob, file_mode, faulty=has_fault(ops))
    intended = [0]          # model version each simulation is supposed to have (own bookkeeping)
    have = [set()]          # slots whose synthetic data each simulation reports (own bookkeeping)
    SYN_REQ = ('the synthetic data a simulation reports are, label by label, those of a fresh simulation; '
               'computing one source-frequency pair leaves the data of all other pairs alone')
    try:
        for j, op in enumerate(ops):
            ob = w.apply(op)
            if op[0] < len(intended):
                if op[1] == 'export' and ob[0] == 3:
                    intended.append(intended[op[0]])
                elif op[1] == 'setmodel' and ob[0] != 4:
                    intended[op[0]] = op[2]
            changed = w.survey_changed()
            if changed:
                return {'step': j, 'op': op_text(op), 'observed': changed,
                        'required': 'a copy / reloaded simulation has the survey of its original: same data '
                                    'at the same (source, receiver, frequency) labels'}
            for k2, sm in enumerate(w.sims):
                if w.enc_sim(sm)[0] != intended[k2]:
                    return {'step': j, 'op': op_text(op),
                            'observed': f'model of simulation {k2} was changed by an operation on simulation {op[0]}',
                            'required': 'copies and reloaded simulations are independent of their original'}
            if op[0] < len(intended):
                bad = check_synthetic(w, prob, intended, have, op, ob)
                if bad:
                    return {'step': j, 'op': op_text(op), 'observed': bad, 'required': SYN_REQ}
            base, flt = split_fault(op[1])
            injected = ob[0] == 4 and flt is not None and ob[1] == (2 if flt == 'io' else 7)
            if ob[0] == 4 and not injected:
                return {'step': j, 'op': op_text(op), 'observed': 'raises ' + w.last_exc,
                        'required': 'no exception (a fresh simulation performs this operation)'
                                    + (' other than the injected one' if flt else '')}
            if ob[0] == 2:
                return {'step': j, 'op': op_text(op), 'observed': 'misfit is not a number (memoryview)',
                        'required': 'the misfit of a fresh simulation'}
            bad = bad_tolerance(ob, intended[op[0]] if op[0] < len(intended) else None)
            if bad:
                return {'step': j, 'op': op_text(op), 'observed': bad,
                        'required': "every solve is handed the simulation's current model; forward solves "
                                    "use tol, back-propagation/jvec solves tol_gradient (as a fresh "
                                    "simulation does)"}
            name = base
            if op[0] >= len(w.sims) or injected:
                continue
            m = w.enc_sim(w.sims[op[0]])[0]
            if name == 'misfit' and ob[1:4] != [3, m, 0]:
                return {'step': j, 'op': op_text(op), 'observed': f'misfit tag {ob[1:4]}',
                        'required': f'misfit of a fresh simulation with model {m}'}
            if name == 'gradient' and ob[1:4] != [4, m, 0]:
                return {'step': j, 'op': op_text(op),
                        'observed': 'gradient ' + ('= J^T w of jtvec' if ob[1] == 5 else f'tag {ob[1:4]}'),
                        'required': f'gradient of a fresh simulation with model {m}'}
        for k in range(len(w.sims)):
            for q in ('misfit', 'gradient', 'compute'):
                ob = w.apply((k, q))
                m = w.enc_sim(w.sims[k])[0]
                bad = check_synthetic(w, prob, intended, have, (k, q), ob)
                if bad:
                    return {'step': len(ops), 'op': f'query {q}@{k}', 'observed': bad, 'required': SYN_REQ}
                bad = bad_tolerance(ob, intended[k])
                if bad:
                    return {'step': len(ops), 'op': f'query {q}@{k}', 'observed': bad,
                            'required': "every solve is handed the simulation's current model; forward "
                                        "solves use tol, back-propagation/jvec solves tol_gradient (as a "
                                        "fresh simulation does)"}
                if ob[0] == 4:
                    return {'step': len(ops), 'op': f'query {q}@{k}', 'observed': 'raises ' + w.last_exc,
                            'required': 'value of a fresh simulation'}
                if ob[0] == 2:
                    return {'step': len(ops), 'op': f'query {q}@{k}',
                            'observed': 'misfit is not a number (memoryview)',
                            'required': 'the misfit of a fresh simulation'}
                if q == 'misfit' and ob[1:4] != [3, m, 0] or q == 'gradient' and ob[1:4] != [4, m, 0]:
                    seen_as = f'tag {ob[1:4]}'
                    if q == 'gradient' and ob[1] == 5:
                        seen_as = (f'gradient returns J^T w of model {ob[2]} for the vector w = W[{ob[3]}] of an '
                                   f'earlier jtvec (tag {ob[1:4]}), not the gradient of the misfit')
                    return {'step': len(ops), 'op': f'query {q}@{k}', 'observed': seen_as,
                            'required': f'{q} of a fresh simulation with model {m}'}
                if q == 'compute':
                    e = w.enc_sim(w.sims[k])
                    names = field_names(prob.n)
                    for i in range(prob.n):
                        j0 = names.index(f'synthetic[{i}].k')
                        if e[j0:j0 + 3] != [2, m, i]:
                            return {'step': len(ops), 'op': f'query synthetic@{k}',
                                    'observed': f'slot {i} tag {e[j0:j0+3]}',
                                    'required': f'synthetic data of a fresh simulation with model {m}'}
        # finally: drop every computed result and recompute -- misfit and gradient must be those
        # of a fresh simulation (catches anything stale or mislabelled that the caches masked)
        for k in range(len(w.sims)):
            ob = w.apply((k, 'clean', 'computed'))
            check_synthetic(w, prob, intended, have, (k, 'clean', 'computed'), ob)
            for q, code in (('misfit', 3), ('gradient', 4)):
                ob = w.apply((k, q))
                m = intended[k]
                bad = check_synthetic(w, prob, intended, have, (k, q), ob)
                if bad:
                    return {'step': len(ops), 'op': f'query clean(computed); {q}@{k}', 'observed': bad,
                            'required': SYN_REQ}
                if ob[0] == 4:
                    return {'step': len(ops), 'op': f'query clean(computed); {q}@{k}',
                            'observed': 'raises ' + w.last_exc, 'required': 'value of a fresh simulation'}
                if ob[0] != 1 or ob[1:4] != [code, m, 0]:
                    return {'step': len(ops), 'op': f'query clean(computed); {q}@{k}',
                            'observed': f'{q} after clean+recompute has tag {ob[1:4]} (differs from the fresh one)',
                            'required': f'{q} of a fresh simulation with model {m}'}
        return None
    finally:
        w.close()


def shrink(prob, file_mode, ops):
    ops = list(ops)
    changed = True
    while changed:
        changed = False
        for i in range(len(ops)):
            cand = ops[:i] + ops[i + 1:]
            # dropping an export shifts later simulation indices: renumber
            if ops[i][1] == 'export':
                idx = 1 + sum(1 for o in ops[:i] if o[1] == 'export')
                cand = [o for o in cand if o[0] != idx]
                cand = [((o[0] - 1 if o[0] > idx else o[0]),) + tuple(o[1:]) for o in cand]
            if cand and valid(cand) and property_fails(prob, file_mode, cand):
                ops, changed = cand, True
                break
    return ops


def signature(ops, file_mode):
    def nm(o):
        s = o[1]
        if o[1] == 'export':
            s = f"export({o[2]})" if o[2] in ('h5', 'npz', 'json') else f"export({o[2]})"
        if o[1] == 'clean':
            s = f"clean({o[2]})"
        return s + (f"@{o[0]}" if o[0] else '')
    return 'C12: ' + ('file_dir ' if file_mode else '') + 'history=[' + ', '.join(nm(o) for o in ops) + ']'


def witness_results():
    res = []
    for sig, quirk, fm, ops, what in WITNESSES:
        prob = problem('isotropic', 0)
        f = property_fails(prob, fm, ops)
        expect = {'q_jtvec': 'J^T w', 'q_misfit': 'memoryview', 'q_keep': 'AttributeError',
                  None: 'tag [13'}[quirk]
        if f is not None and (f['step'] != len(ops) - 1 or expect not in f['observed']):
            # fails, but not where this witness fails: some other defect (found by the searcher)
            OTHER_FAILURES.append((prob, fm, list(ops)))
            f = None
        res.append((sig, quirk, f, what, ops, fm))
    return res


OTHER_FAILURES = []


_WIT = None


def witnesses_cached():
    global _WIT
    if _WIT is None:
        _WIT = witness_results()
    return _WIT


def known_checks(ctx):
    return [(sig, f is not None, what) for sig, quirk, f, what, ops, fm in witnesses_cached()]


def active_quirks():
    """Model variant used by the correspondence: a quirk is switched on only
    if its witness reproduces on the current tree AND it is listed in
    known_findings.json (the model then describes the code that exists)."""
    ksigs = {k['signature'] for k in V.known_for(ID)}
    q = {'q_jtvec': False, 'q_misfit': False, 'q_keep': False}
    for sig, quirk, f, what, ops, fm in witnesses_cached():
        if quirk and f is not None and sig in ksigs:
            q[quirk] = True
    return q


# ------------------------------------------------------------ correspondence
def coq_text(cases, quirks):
    qt = "(mkQ %s %s %s)" % tuple(V.coq_bool(quirks[k]) for k in ('q_jtvec', 'q_misfit', 'q_keep'))
    lines = [K.CASE_HEADER, "From V Require Import Model.SimMachine."]
    if any(c.get('fault') for c in cases):
        lines.append("From V Require Import Model.SimFault.")
    for c in cases:
        if c.get('fault'):       # history with armed faults: Model/SimFault.v, jtvec restores in `finally`
            ops = '[' + '; '.join(coq_op(o, True) for o in c['ops']) + ']'
            lines.append(f"Eval vm_compute in frun_dump true {qt} (init_world {c['n']} "
                         f"{V.coq_bool(c['file'])} 0) {ops}.")
            continue
        ops = '[' + '; '.join(coq_op(o) for o in c['ops']) + ']'
        lines.append(f"Eval vm_compute in run_dump {qt} (init_world {c['n']} {V.coq_bool(c['file'])} 0) {ops}.")
    return '\n'.join(lines) + '\n'


def parse_dump(ans):
    """'[([a; b], [[..]; [..]]); ...]' -> list of (obs, [sim ints])."""
    import re
    s = ans.replace(';', ',').replace('(', '[').replace(')', ']')
    s = re.sub(r'\s+', '', s)
    import json
    return json.loads(s)


def run_case_impl(c):
    prob = problem(c['case'], c['layout'], c.get('interp', 'linear'))
    w = World(prob, c['file'], faulty=bool(c.get('fault')))
    steps = []
    try:
        for op in c['ops']:
            ob = w.apply(op)
            shared = []
            if op[1] == 'export' and ob[0] == 3:
                shared = w.shared_arrays(len(w.sims) - 1, op[0])
            steps.append((ob, w.enc(), shared, w.survey_changed()))
    finally:
        w.close()
    return steps


def check_cases(cases, quirks, prefix='c12_h'):
    """Run the histories on the Coq model and on the implementation; compare
    after every step.  Returns (disagreements, steps, histogram, distinct)."""
    chunks = [cases[i:i + 100] for i in range(0, len(cases), 100)]
    res = V.coq_eval_many([(f"{prefix}_{i}", coq_text(ch, quirks)) for i, ch in enumerate(chunks)])
    dis, hist, nsteps, distinct = [], {}, 0, set()
    for i, ch in enumerate(chunks):
        rc, out = res[f"{prefix}_{i}"]
        if rc != 0:
            dis.append({'what': 'model evaluation failed', 'log': out[-1500:]})
            continue
        answers = V.eval_answers(out)
        if len(answers) != len(ch):
            dis.append({'what': 'model evaluation: wrong number of answers', 'log': out[-500:]})
            continue
        for c, ans in zip(ch, answers):
            model = parse_dump(ans)
            impl = run_case_impl(c)
            names = field_names(c['n'])
            nontrivial = False
            for j, ((ob, enc, shared, changed), (mob, menc)) in enumerate(zip(impl, model)):
                nsteps += 1
                hist[c['ops'][j][1]] = hist.get(c['ops'][j][1], 0) + 1
                if ob[0] == 4:
                    hist['(raises)'] = hist.get('(raises)', 0) + 1
                    if '!' in c['ops'][j][1]:
                        hist['(armed fault fired)'] = hist.get('(armed fault fired)', 0) + 1
                if len(ob) > 4 or len(enc) > 1:
                    nontrivial = True
                d = None
                if changed:
                    d = {'what': 'survey changed: data no longer sit on their (source, receiver, frequency) labels',
                         'impl': changed, 'model': 'the survey is fixed during a history'}
                elif ob != mob:
                    d = {'what': 'observation (return value / solves issued) differs',
                         'impl': ob, 'model': mob}
                elif enc != menc:
                    diff = []
                    for k, (a, b) in enumerate(zip(enc, menc)):
                        diff += [f"sim{k}.{names[x]}: impl={a[x]} model={b[x]}"
                                 for x in range(min(len(a), len(b))) if a[x] != b[x]]
                    if len(enc) != len(menc):
                        diff.append(f"number of simulations impl={len(enc)} model={len(menc)}")
                    d = {'what': 'cache state differs', 'impl': diff[:8], 'model': 'see impl'}
                elif shared:
                    d = {'what': 'copy/reload shares memory with its original', 'impl': shared[:6],
                         'model': 'independent'}
                if d:
                    d['case'] = dict(case=c['case'], layout=c['layout'], file_dir=c['file'],
                                     interp=c.get('interp', 'linear'),
                                     history=[op_text(o) for o in c['ops'][:j + 1]], step=j)
                    d['_ops'] = c['ops'][:j + 1]
                    d['_c'] = (c['case'], c['layout'], c['file'], c.get('interp', 'linear'))
                    dis.append(d)
                    break
            if nontrivial:
                distinct.add((c['case'], c['file'], c.get('interp', 'linear'), tuple(c['ops'])))
    return dis, nsteps, hist, distinct


def correspondence(ctx):
    rng = ctx.rng
    nh = 600 if ctx.thorough else 112
    maxlen = 12 if ctx.thorough else 8
    quirks = active_quirks()
    combos = COMBOS
    cases = []
    # corpus: witnesses first, then the model-update suspects on every problem
    for sig, quirk, fm, ops, what in WITNESSES:
        cases.append(dict(case='isotropic', layout=0, file=fm, n=2, ops=list(ops)))
    for case, layout in combos:
        for j, ops in enumerate(SUSPECTS):
            cases.append(dict(case=case, layout=layout, file=(j == 1), n=problem(case, layout).n,
                              ops=list(ops)))
    while len(cases) < nh:
        case, layout = combos[len(cases) % len(combos)]
        fm = (len(cases) // len(combos)) % 3 == 2
        prob = problem(case, layout)
        cases.append(dict(case=case, layout=layout, file=fm, n=prob.n,
                          ops=gen_history(rng, prob.n, maxlen)))
    # fault paths (Model/SimFault.v): enumerated (operation, fault, prefix) histories + random ones
    nfault = 0
    if not any(quirks.values()):
        fc = fault_cases()
        for t in range(120 if ctx.thorough else 14):
            case, layout, interp = FAULT_COMBOS[t % len(FAULT_COMBOS)]
            prob = problem(case, layout, interp)
            fc.append(dict(case=case, layout=layout, interp=interp, file=False, fault=True, n=prob.n,
                           ops=gen_fault_history(rng, prob.n, 8 if ctx.thorough else 6, interp == 'cubic')))
        nfault = len(fc)
        cases += fc
    else:
        ctx.notes.append("fault-path stream skipped: a listed quirk of the unrepaired code is active")
    dis, nsteps, hist, distinct = check_cases(cases, quirks)
    ctx.c12_dis = [dict(d) for d in dis]
    for d in dis:
        d.pop('_ops', None)
        d.pop('_c', None)
    hist['file_dir histories'] = sum(1 for c in cases if c['file'])
    hist['fault-path histories (operations with an armed fault, Model/SimFault.v)'] = nfault
    hist['armed faults by class'] = {
        f: sum(1 for c in cases for o in c['ops'] if split_fault(o[1])[1] == f) for f in FAULT_COQ}
    hist["gridding='input' histories (computational grid != model grid)"] = sum(
        1 for c in cases if c['layout'] >= 2)
    hist["file round trips (h5/npz/json) on gridding='input' problems"] = sum(
        1 for c in cases if c['layout'] >= 2 for o in c['ops']
        if o[1] == 'export' and o[2] in ('h5', 'npz', 'json'))
    hist['setmodel by replacement'] = sum(1 for c in cases for o in c['ops']
                                          if o[1] == 'setmodel' and len(o) > 4 and o[4] == 'replace')
    hist['setmodel in place'] = sum(1 for c in cases for o in c['ops']
                                    if o[1] == 'setmodel' and not (len(o) > 4 and o[4] == 'replace'))
    hist['histories with >1 simulation'] = sum(1 for c in cases if any(o[1] == 'export' for o in c['ops']))
    hist['length'] = {str(L): sum(1 for c in cases if len(c['ops']) == L) for L in range(1, maxlen + 1)}
    ctx.notes.append(f"model variant used: {quirks}")
    return {
        'evaluations': nsteps,
        'distinct_nontrivial': len(distinct),
        'rule': f"{len(cases)} histories, of which {nfault} FAULT-PATH histories (every (operation, fault "
                "class F/B/G/W/io) x every prefix that decides where the fault fires, + random ones; the "
                "injected exception is caught and the history continues; memory mode; problems incl. "
                "receiver_interpolation='cubic' for warnings-as-errors), the others: "
                f"(4 fixed witnesses + 4 model-update suspects on each of 4 problems + "
                f"random, length 1..{maxlen}, ops weighted, up to 3 simulations per world, 1/3 with file_dir), "
                "cycling over isotropic 2src x 1freq and VTI 1src x 2freq with gridding='same', isotropic "
                "1src x 2freq and VTI 2src x 1freq with gridding='input' (8x4x4 computational grid != 4^3 "
                "model grid); model updates in place and by replacement; after every step: return-value "
                "tag, solve trace (kind, slot, tol, warm, MODEL VERSION handed to the solver) and the "
                "tags of all caches of all simulations compared with the Coq model; non-trivial = history "
                "issues at least one solve or creates a second simulation",
        'samples': [[op_text(o) for o in c['ops']] for c in cases[4:8]],
        'traces_validated_against_impl': len(cases),
        'histogram': hist,
        'disagreements': dis,
    }


def explained_by_known(hits):
    """A failing history is explained by a LISTED known finding when the model
    variant in use (quirks of listed findings switched on) predicts exactly
    what the implementation does on it, and a listed root cause is involved."""
    ksigs = {k['signature'] for k in V.known_for(ID)}
    quirks = active_quirks()
    file_known = any(sig in ksigs and quirk is None and f is not None
                     for sig, quirk, f, what, ops, fm in witnesses_cached())
    out = []
    cand = []
    for h in hits:
        ops = [tuple(o) for o in h['history']]
        nsim = 1 + sum(1 for o in ops if o[1] == 'export')
        ops = ops + [(k, q) for k in range(nsim) for q in ('misfit', 'gradient', 'compute')]
        involved = any(quirks.values()) or (file_known and h['file_dir'] and nsim > 1)
        if h['signature'] in ksigs:
            continue
        if not involved:
            out.append(h)
            continue
        if has_fault(ops):          # the fault stream only runs on the repaired code: never "known"
            out.append(h)
            continue
        cand.append((h, dict(case=h['case'], layout=h['layout'], file=h['file_dir'],
                             n=problem(h['case'], h['layout']).n, ops=ops)))
    if cand:
        for h, c in cand:
            dis, *_ = check_cases([c], quirks, prefix='c12_x')
            if dis:
                out.append(h)
    return out


# ------------------------------------------------------------------ searcher
def fault_note(hit):
    if has_fault([tuple(o) for o in hit['history']]):
        hit['fault_legend'] = FAULT_LEGEND
    return hit


def search(ctx, broken):
    hits = []
    seen = set()
    for sig, quirk, f, what, ops, fm in witnesses_cached():
        if f is not None:
            seen.add(sig)
            hits.append({'signature': sig, 'case': 'isotropic', 'layout': 0, 'file_dir': fm,
                         'history': [list(o) for o in ops], 'history_text': [op_text(o) for o in ops],
                         'failure': f, 'what': what})
    for prob, fm, ops in OTHER_FAILURES[:2]:
        small = shrink(prob, fm, ops)
        sig = signature(small, fm)
        if sig not in seen:
            seen.add(sig)
            hits.append({'signature': sig, 'case': prob.case, 'layout': prob.layout, 'file_dir': fm,
                         'history': [list(o) for o in small], 'history_text': [op_text(o) for o in small],
                         'failure': property_fails(prob, fm, small)})
    # the model-update suspects, on every problem, with the independent oracle
    if broken or ctx.thorough:
        for case, layout in COMBOS:
            prob = problem(case, layout)
            for j, ops in enumerate(SUSPECTS):
                if len(hits) >= 6 or not property_fails(prob, j == 1, ops):
                    continue
                small = shrink(prob, j == 1, ops)
                sig = signature(small, j == 1) + f" [{case}, gridding={prob.gridding}]"
                if sig not in seen:
                    seen.add(sig)
                    hits.append({'signature': sig, 'case': case, 'layout': layout, 'file_dir': j == 1,
                                 'gridding': prob.gridding,
                                 'history': [list(o) for o in small],
                                 'history_text': [op_text(o) for o in small],
                                 'failure': property_fails(prob, j == 1, small)})
    # the enumerated fault-path histories, with the independent oracle
    if broken or ctx.thorough:
        for c in fault_cases():
            if len(hits) >= 6:
                break
            prob = problem(c['case'], c['layout'], c['interp'])
            if not property_fails(prob, False, c['ops']):
                continue
            small = shrink(prob, False, c['ops'])
            sig = signature(small, False) + f" [{c['case']}, gridding={prob.gridding}" + (
                f", receiver_interpolation={c['interp']}]" if c['interp'] != 'linear' else "]")
            if sig not in seen:
                seen.add(sig)
                hits.append(fault_note({'signature': sig, 'case': c['case'], 'layout': c['layout'],
                                        'file_dir': False, 'interp': c['interp'], 'gridding': prob.gridding,
                                        'history': [list(o) for o in small],
                                        'history_text': [op_text(o) for o in small],
                                        'failure': property_fails(prob, False, small)}))
    # minimise the histories on which model and implementation disagreed
    for d in getattr(ctx, 'c12_dis', [])[:6]:
        if '_ops' not in d:
            continue
        case, layout, fm, *rest = d['_c']
        interp = rest[0] if rest else 'linear'
        prob = problem(case, layout, interp)
        base = list(d['_ops'])
        f = property_fails(prob, fm, base)
        if f is None:
            # the disagreement itself is not yet a property failure: probe it by
            # changing the model of one simulation and asking the others
            nsim = 1 + sum(1 for o in base if o[1] == 'export')
            for k in range(nsim):
                ext = base + [(k, 'setmodel', 1, 'computed', 'inplace')]
                if property_fails(prob, fm, ext):
                    base, f = ext, True
                    break
        if f is None:
            continue
        small = shrink(prob, fm, base)
        sig = signature(small, fm) + f" [{case}, gridding={prob.gridding}" + (
            f", receiver_interpolation={interp}]" if interp != 'linear' else "]")
        if sig in seen:
            continue
        seen.add(sig)
        hits.append(fault_note({'signature': sig, 'case': case, 'layout': layout, 'file_dir': fm,
                                'interp': interp, 'gridding': prob.gridding,
                                'history': [list(o) for o in small], 'history_text': [op_text(o) for o in small],
                                'failure': property_fails(prob, fm, small)}))
    if ctx.thorough or not hits:
        # random search with the independent oracle only
        n = 60 if ctx.thorough else 25
        for t in range(n):
            case, layout = COMBOS[t % len(COMBOS)]
            fm = (t // len(COMBOS)) % 3 == 2
            prob = problem(case, layout)
            ops = gen_history(ctx.rng, prob.n, 8)
            if property_fails(prob, fm, ops):
                small = shrink(prob, fm, ops)
                sig = signature(small, fm) + f" [{case}, gridding={prob.gridding}]"
                if sig not in seen:
                    seen.add(sig)
                    hits.append({'signature': sig, 'case': case, 'layout': layout, 'file_dir': fm,
                                 'gridding': prob.gridding,
                                 'history': [list(o) for o in small],
                                 'history_text': [op_text(o) for o in small],
                                 'failure': property_fails(prob, fm, small)})
                if len(hits) >= 6:
                    break
        # random fault-path histories (incl. fields.get_receiver raising on its k-th call, which the Coq
        # model does not describe), independent oracle only
        for t in range(40 if ctx.thorough else 15):
            if len(hits) >= 6:
                break
            case, layout, interp = FAULT_COMBOS[t % len(FAULT_COMBOS)]
            prob = problem(case, layout, interp)
            ops = gen_fault_history(ctx.rng, prob.n, 6, interp == 'cubic', with_r=True)
            if property_fails(prob, False, ops):
                small = shrink(prob, False, ops)
                sig = signature(small, False) + f" [{case}, gridding={prob.gridding}" + (
                    f", receiver_interpolation={interp}]" if interp != 'linear' else "]")
                if sig not in seen:
                    seen.add(sig)
                    hits.append(fault_note({'signature': sig, 'case': case, 'layout': layout, 'file_dir': False,
                                            'interp': interp, 'gridding': prob.gridding,
                                            'history': [list(o) for o in small],
                                            'history_text': [op_text(o) for o in small],
                                            'failure': property_fails(prob, False, small)}))
    # hits explained by a listed known finding (same root cause) are reported by known_checks
    out = explained_by_known(hits)
    ctx.notes.append(f"searcher: {len(hits)} failing histories, {len(out)} not listed as known")
    return out


def replay(ctx, payload):
    fi = payload.get('failing_input')
    if not fi or 'history' not in fi:
        return False
    prob = problem(fi.get('case', 'isotropic'), fi.get('layout', 0), fi.get('interp', 'linear'))
    ops = [tuple(o) for o in fi['history']]
    f = property_fails(prob, bool(fi.get('file_dir')), ops)
    if f:
        print('replay: history', [op_text(o) for o in ops], '->', f)
    return f is None
