"""C19 -- layered (1D) mode agrees with the 1D reference modeller on layered media.

Theorems: coq/Props/C19.v about the hand model coq/Model/Layered.v
(Model.extract_1d, _get_points, layered(), _fd_gradient; ellipse mask, log10,
10**, map.backward and empymod.bipole are oracles).

Correspondence (model executed on exact rationals with vm_compute):
  (A) Model.extract_1d (all methods, random ellipses, points on/off grid and on
      nodes, stretched dyadic grids, iso/HTI/VTI/triaxial, mu_r/epsilon_r, six
      maps, merge, malformed calls)  ==  extract_1d of the model: error class,
      selection, imat (weights), layer values, thicknesses, widths, origin;
  (B) Simulation(layered=True).data.synthetic  ==  empymod.bipole called by the
      harness once per (source, receiver, frequency) with the arguments the
      MODEL's layered_fwd hands to its bipole oracle (layers, depths, VTI,
      mu/eps from the model's extraction); NaN pattern == model's None pattern;
  (C) Simulation._compute_1d(gradient=True) and Simulation.gradient  ==  the
      model's layered_grad run with a table oracle of empymod responses for
      the perturbed layers (second Coq round).
  (M) result assembly: 18 enumerated classes of finite-observed-data masks on
      laterally invariant models with receivers at distinct offsets; every slot of
      Simulation(layered=True).data.synthetic == what Model/LayeredAsm.v compute_1d
      puts there (NaN or the reference of a (source label, receiver label, frequency),
      evaluated by empymod per label); gradient layer sums for two classes.
Searcher: directly on the implementation, laterally invariant random models:
independence from method/ellipse, agreement with empymod on the known profile,
weights, finite-data mask, layer sums of the gradient vs the misfit change of a
uniformly perturbed layer.
"""
import ast
import itertools
import re
import warnings

import numpy as np

from vlib import core as V
from vlib import kernels as K

ID = 'C19'
LEVEL_TEXT = ("Theorems (Props/C19.v) about the hand model of Model.extract_1d / layered() / _fd_gradient, "
              "for grids of ANY size with positive widths, every method, every ellipse mask (empty or not) "
              "and all points: extraction weights are >= 0, sum to one and vanish outside the grid; on a "
              "laterally invariant model the extracted layers, thicknesses and origin are the model's "
              "profile whatever method/ellipse/points (log10-averaging included, over R); every "
              "(receiver, frequency) slot holds the reference modeller applied to exactly those layers, "
              "and is NaN iff observed data exist and are non-finite there; the finite-difference "
              "gradient summed over x,y in layer k is the sum over receivers of their misfit quotient for "
              "layer k; no data -> zero gradient. Result assembly (Model/LayeredAsm.v, imperative: pre-allocated "
              "NaN array, enumerate index carried through `continue`, mask looked up by receiver label): for "
              "EVERY receiver list and EVERY finite mask, row r of layered() holds the reference response of "
              "receiver r (by label) at exactly the finite entries of its mask and NaN elsewhere; over all "
              "sources (_compute_1d) slot (s, r, f) is computed iff its datum is finite or the survey has no "
              "finite datum at all; the filtered-index variant is refuted.")
LEVEL_NOTE = ("Hand model tied to the code by correspondence only. Oracles (not proved): empymod.bipole "
              "(contract used: frequencies are computed independently; validated by per-frequency calls), "
              "maps.ellipse_indices (any mask), Map*.backward, log10/10**. The FD quotient approximating "
              "the derivative is NOT proved. Exact arithmetic, rounding not modelled. Three defects found "
              "while building (merge sentinel -1, relative receivers, merge + gradient) are repaired in "
              "emg3d; model and theorems describe the repaired code, the as-found variants are kept as "
              "*_unfixed_refuted theorems, and the formerly avoided inputs are generated.")
TECHNIQUE = ("Coq proof (induction over index scans / receiver loop, lra/field over R) over a hand model "
             "+ differential correspondence (vm_compute on Q, empymod called from the model's arguments)")
DESIGN_REF = "DESIGN.md section 6 C19"
GEN = []
PROPS = 'Props/C19.v'
TRUSTED = ["Model/Layered.v: hand model of extract_1d / layered / _fd_gradient (tied by correspondence)",
           "Model/LayeredAsm.v: hand model of the result assembly of layered() / _compute_1d (tied by correspondence)",
           "empymod.bipole (third party) is an oracle; the harness calls it with the model's arguments",
           "emg3d.maps.ellipse_indices output is passed to the model as the mask oracle",
           "Map*.backward / derivative_chain (property C14) are used as given by the harness"]
ASSUMES = ["empymod computes frequencies independently (bipole_pointwise)",
           "merge=True compares floats for equality: the tie uses it where equal layers give bit-identical "
           "floats (single-column selection or laterally invariant model)"]


HEADER = (K.CASE_HEADER + """From Coq Require Import String Bool.
From V Require Import Model.Layered.
Definition qleb (a b : Q) : bool := Qle_bool a b.
Definition idq (x : Q) : Q := x.
Fixpoint lookup (t : list (Q * Q)) (x : Q) : Q :=
  match t with [] => x | (a, b) :: r => if Qeq_bool a x then b else lookup r x end.
Definition tab2 (l : list (list bool)) : Z -> Z -> bool := fun i j =>
  if (Z.ltb i 0 || Z.ltb j 0)%bool then false else nth (Z.to_nat j) (nth (Z.to_nat i) l []) false.
Definition dump2 (nx ny : Z) (a : Z -> Z -> Q) : list (Z * Z) :=
  flat_map (fun i => map (fun j => out_q (a i j)) (range ny)) (range nx).
Definition show (nx ny : Z) (r : xerr + @ext Q) :=
  match r with
  | inl EValueError => (1, false, (0, 0, 0, 0), @nil (Z * Z), @nil (list (Z * Z)), @nil (Z * Z), @nil (Z * Z))
  | inl ETypeError => (2, false, (0, 0, 0, 0), [], [], [], [])
  | inr e => (0, e_mid e, e_box e, dump2 nx ny (e_imat e), map (map out_q) (e_props e),
              map out_q (e_hz e), map out_q [e_wx e; e_wy e; e_ox e; e_oy e; e_oz e])
  end.
Definition oq (o : option (list Q)) : bool * list (Z * Z) :=
  match o with Some l => (true, map out_q l) | None => (false, []) end.
Definition desc_t : Type :=
  (Z * list (Z * Z) * list (Z * Z) * list (Z * Z) * (bool * list (Z * Z)) * (bool * list (Z * Z)) * (bool * list (Z * Z)) * (Z * Z))%type.
Definition desc (i : nat) (q : Q * Q * Q) (d ch : list Q) (cv ep mp : option (list Q)) (fs : list Q) : list desc_t :=
  map (fun f => (Z.of_nat i, map out_q [fst (fst q); snd (fst q); snd q], map out_q d, map out_q ch,
                 oq cv, oq ep, oq mp, out_q f)) fs.
Definition desc0 : desc_t := (0, [], [], [], (false, []), (false, []), (false, []), (0, 1)).
Definition showrows (r : xerr + list (list (option desc_t))) :=
  match r with
  | inl EValueError => (1, [])
  | inl ETypeError => (2, [])
  | inr rows => (0, map (map (fun o => match o with Some d => (true, d) | None => (false, desc0) end)) rows)
  end.
Definition mask_by (t : list ((Q * Q) * (Z -> Z -> bool))) (p1 : Q * Q) : Z -> Z -> bool :=
  (fix go t := match t with
               | [] => fun _ _ => false
               | (k, m) :: r => if (Qeq_bool (fst k) (fst p1) && Qeq_bool (snd k) (snd p1))%bool then m else go r
               end) t.
Definition qeqL (a b : list Q) : bool :=
  (Nat.eqb (List.length a) (List.length b) && forallb (fun p => Qeq_bool (fst p) (snd p)) (combine a b))%bool.
Fixpoint first_diff (n : nat) (a b : list Q) : option nat :=
  match a, b with
  | x :: a', y :: b' => if Qeq_bool x y then first_diff (Datatypes.S n) a' b' else Some n
  | _, _ => None
  end.
Definition showgrad (nx ny nz : Z) (r : xerr + ((Z -> Z -> Z -> Q) * (Z -> Z -> Z -> Q))) :=
  match r with
  | inl _ => (1, [], [])
  | inr (a, b) => (0, dump3 out_q nx ny nz a, dump3 out_q nx ny nz b)
  end.
""")

MAPS = ['Conductivity', 'Resistivity', 'LgConductivity', 'LgResistivity', 'LnConductivity',
        'LnResistivity']
SCALE = 256.0


# ------------------------------------------------------------------ helpers
def ql(l):
    return '[' + '; '.join(V.q(float(x)) for x in l) + ']'


def q3(a):
    a = np.asarray(a)
    return ('[' + ';\n  '.join('[' + '; '.join(ql(a[i, j]) for j in range(a.shape[1])) + ']'
                               for i in range(a.shape[0])) + ']')


def qp(p):
    return f"({V.q(float(p[0]))}, {V.q(float(p[1]))})"


def qp3(p):
    return f"({V.q(float(p[0]))}, {V.q(float(p[1]))}, {V.q(float(p[2]))})"


def rcv(r):
    return f"({V.coq_bool(bool(r.relative))}, {qp3(r.center)})"


def bl(m):
    return '[' + '; '.join('[' + '; '.join(V.coq_bool(bool(b)) for b in row) + ']' for row in m) + ']'


def parse_term(ans):
    s = ans.replace(';', ',').replace('true', 'True').replace('false', 'False')
    return ast.literal_eval(s)


def fr(p):
    import fractions
    return fractions.Fraction(int(p[0]), int(p[1]))


def frl(l):
    return [fr(p) for p in l]


def rel_close(a, b, rtol, scale=0.0):
    return abs(a - b) <= rtol * max(abs(a), abs(b), scale, 1e-300)


def rand_widths(rng, n):
    kind = rng.choice(['random', 'stretch', 'uniform'])
    if kind == 'uniform':
        w = rng.choice([0.5, 1.0, 2.0])
        return [w * SCALE] * n
    if kind == 'stretch':
        base = rng.choice([0.25, 0.5, 1.0])
        c = rng.randint(0, n - 1)
        return [base * 2 ** min(abs(i - c), 3) * SCALE for i in range(n)]
    return [K.dy_pos(rng) * SCALE for _ in range(n)]


def rand_grid(rng, nmax=(5, 5, 4), nmin=(1, 1, 1)):
    import emg3d
    n = [rng.randint(nmin[d], nmax[d]) for d in range(3)]
    hs = [rand_widths(rng, m) for m in n]
    org = [-(sum(hs[0]) * rng.choice([0.25, 0.5, 0.75])) // 16 * 16,
           -(sum(hs[1]) * rng.choice([0.25, 0.5, 0.75])) // 16 * 16,
           -(sum(hs[2]) * rng.choice([0.5, 0.75, 1.0])) // 16 * 16]
    return emg3d.TensorMesh(hs, org), hs, org


PALETTE_POS = [0.25, 0.5, 1.0, 2.0, 3.0, 0.125, 8.0, 1.5]
PALETTE_LOG = [-2.0, -1.5, -0.5, 0.0, 0.5, 1.0, 2.0, -0.25, -1.0]


def rand_values(rng, shape, mapping, lateral_invariant, palette_n=4):
    pal = rng.sample(PALETTE_LOG if mapping.startswith('L') else PALETTE_POS, palette_n)
    a = np.zeros(shape)
    if lateral_invariant:
        prof = [rng.choice(pal) for _ in range(shape[2])]
        a[:, :, :] = np.array(prof)[None, None, :]
    else:
        for idx in itertools.product(*[range(m) for m in shape]):
            a[idx] = rng.choice(pal)
        # some equal neighbouring layers (for merge)
        if shape[2] > 1 and rng.random() < 0.5:
            k = rng.randint(1, shape[2] - 1)
            a[:, :, k] = a[:, :, k - 1]
    # log maps: stored value -1 on top (once the np.r_[-1, v] sentinel of merge)
    if mapping.startswith('L') and rng.random() < 0.35:
        a[:, :, 0] = -1.0
        if shape[2] > 2 and rng.random() < 0.5:
            a[:, :, 1] = -1.0
    return a


def extreme_profile(rng, nz, mapping, fine):
    """A column (bottom -> top) with an extreme dynamic range: the top layer is air
    (Resistivity 2e14 / 1e12 Ohm.m, Conductivity 1e-14 / 1e-12 S/m, the logs of such values for
    the log maps); below it ordinary values with DISTINCT neighbours (differences far below
    1e-12 x air for Resistivity), some EQUAL neighbours (merge=True must merge exactly those) and
    at least one NEARLY equal pair (relative difference 2^-44 .. 2^-41, with [fine] also the
    last bits): exact equality is the documented criterion of merge, they must NOT be merged."""
    if mapping == 'Resistivity':
        air = rng.choice([2e14, 1e12])
        sub = [0.3, 1.0, 1.5, 2.0, 10.0, 50.0, 80.0] if air > 1e13 else [1.0, 1.25, 1.5, 1.75, 0.875]
    elif mapping == 'Conductivity':
        air, sub = rng.choice([1e-14, 1e-12]), [3.0, 1.0, 0.5, 0.02, 0.1, 2.0]
    else:
        big = 14.25 if mapping.startswith('Lg') else 32.5
        air = big if mapping.endswith('Resistivity') else -big
        sub = [-0.5, 0.5, 0.25, 1.0, 1.75, -1.0]
    prof = [rng.choice(sub)]
    while len(prof) < nz - 1:
        prev = prof[-1]
        prof.append(prev if rng.random() < 0.3 else rng.choice([v for v in sub if v != prev]))
    j = rng.randrange(nz - 2)                    # the nearly equal pair (j, j+1), both below the air
    k = rng.choice([52, 48, 44, 41] if fine else [44, 41])
    prof[j + 1] = float(np.nextafter(prof[j], np.inf)) if k == 52 else prof[j] + 2.0 ** -k * abs(prof[j])
    return prof + [air]


RECUR_PATTERNS = {3: [[0, 1, 0]],
                  4: [[0, 1, 0, 1], [0, 0, 1, 0], [0, 1, 0, 2], [0, 1, 0, 0], [2, 0, 1, 0]],
                  5: [[0, 1, 0, 2, 3], [0, 0, 1, 0, 2], [0, 1, 0, 1, 0], [0, 1, 2, 1, 3], [0, 1, 1, 0, 2]],
                  6: [[0, 1, 0, 0, 2, 3], [0, 1, 2, 0, 1, 2], [0, 0, 1, 1, 0, 2]]}


def recurring_pattern(rng, nz):
    """Symbols per layer (bottom -> top) in which the same symbol occurs in two NON-adjacent
    layers: A B A, A B A B, A A B A, background / resistor / background / sea / air, ..."""
    nz = max(3, min(nz, 6))
    return list(rng.choice(RECUR_PATTERNS[nz]))


def pattern_values(rng, pattern, mapping, mapped=True):
    pal = (PALETTE_LOG if mapping.startswith('L') else PALETTE_POS) if mapped else PALETTE_POS
    vals = rng.sample(pal, max(pattern) + 1)
    return np.array([vals[i] for i in pattern])


def rand_model(rng, grid, mapping=None, case=None, lateral_invariant=False, layered_ok=False,
               extreme=False, nearly=False, pattern=None):
    import emg3d
    shape = tuple(grid.shape_cells)
    mapping = mapping or rng.choice(MAPS)
    if case is None:
        case = rng.choice(['isotropic', 'VTI'] if layered_ok else ['isotropic', 'HTI', 'VTI', 'triaxial'])

    if pattern is not None:
        # one column for all cells; EVERY property repeats its values in the non-adjacent layers
        # the pattern prescribes (its own values per symbol); merge=True may only combine ADJACENT
        # layers of identical properties
        kw = {'property_x': np.zeros(shape) + pattern_values(rng, pattern, mapping)[None, None, :]}
        if case in ('HTI', 'triaxial'):
            kw['property_y'] = np.zeros(shape) + pattern_values(rng, pattern, mapping)[None, None, :]
        if case in ('VTI', 'triaxial'):
            kw['property_z'] = np.zeros(shape) + pattern_values(rng, pattern, mapping)[None, None, :]
        for nm in ('mu_r', 'epsilon_r'):
            r = rng.random()
            if r < 0.25:
                kw[nm] = np.zeros(shape) + pattern_values(rng, pattern, mapping, False)[None, None, :]
            elif r < 0.4:
                kw[nm] = np.ones(shape) * rng.choice([1.0, 2.0])
        return emg3d.Model(grid, mapping=mapping, **kw), kw, mapping, case
    if extreme:
        # one column for all cells; property_z = 2 x property_x (log maps: + 0.5) below the air, so
        # that equal / nearly equal / distinct neighbours coincide in both; mu_r constant
        case = rng.choice(['isotropic', 'VTI'])
        prof = np.array(extreme_profile(rng, shape[2], mapping, nearly))
        kw = {'property_x': np.zeros(shape) + prof[None, None, :]}
        if case == 'VTI':
            pz = prof + 0.5 if mapping.startswith('L') else prof * 2
            pz[-1] = prof[-1]
            kw['property_z'] = np.zeros(shape) + pz[None, None, :]
        if rng.random() < 0.3:
            kw['mu_r'] = np.ones(shape)
        return emg3d.Model(grid, mapping=mapping, **kw), kw, mapping, case
    vals = rand_values
    kw = {'property_x': vals(rng, shape, mapping, lateral_invariant)}
    if case in ('HTI', 'triaxial'):
        kw['property_y'] = vals(rng, shape, mapping, lateral_invariant)
    if case in ('VTI', 'triaxial'):
        kw['property_z'] = vals(rng, shape, mapping, lateral_invariant)
    if rng.random() < 0.3:
        kw['mu_r'] = rand_values(rng, shape, 'Conductivity', lateral_invariant, 3)
    if rng.random() < 0.3:
        kw['epsilon_r'] = rand_values(rng, shape, 'Conductivity', lateral_invariant, 3)
    return emg3d.Model(grid, mapping=mapping, **kw), kw, mapping, case


def rand_point(rng, grid, hs, org):
    """(x, y): on a node, a cell centre, random inside, outside."""
    out = []
    for d in range(2):
        nodes = [org[d]]
        for w in hs[d]:
            nodes.append(nodes[-1] + w)
        kind = rng.choice(['node', 'centre', 'inside', 'inside', 'outside'])
        if kind == 'node':
            out.append(rng.choice(nodes))
        elif kind == 'centre':
            i = rng.randrange(len(hs[d]))
            out.append((nodes[i] + nodes[i + 1]) / 2)
        elif kind == 'inside':
            out.append(nodes[0] + rng.randint(0, int((nodes[-1] - nodes[0]) / 8)) * 8.0)
        else:
            out.append(rng.choice([nodes[0] - rng.randint(1, 40) * 8.0, nodes[-1] + rng.randint(0, 40) * 8.0]))
    return out


def rand_ellipse(rng, hs):
    span = max(sum(hs[0]), sum(hs[1]))
    r = rng.choice([1.0, 16.0, span / 16, span / 4, span / 2, span * 2])
    e = {'radius': float(r)}
    if rng.random() < 0.6:
        e['factor'] = rng.choice([1.0, 1.2, 2.0])
    if rng.random() < 0.6:
        e['minor'] = rng.choice([0.25, 0.8, 1.0])
    if rng.random() < 0.3:
        e['check_foci'] = rng.random() < 0.5
    return e


def log_table(arrs):
    """Table v -> log10(v) (float, as an exact rational) for all values."""
    vals = sorted({float(x) for a in arrs for x in np.asarray(a).ravel()})
    return '[' + '; '.join(f"({V.q(v)}, {V.q(float(np.log10(v)))})" for v in vals) + ']'


def grid_def(name, hs, org):
    nx, ny, nz = (len(h) for h in hs)
    return (f"Definition {name} : @grid Q := {{| g_nx := {nx}; g_ny := {ny}; g_nz := {nz};\n"
            f"  g_x0 := {V.q(org[0])}; g_y0 := {V.q(org[1])}; g_z0 := {V.q(org[2])};\n"
            f"  g_hx := arr1_of {ql(hs[0])}; g_hy := arr1_of {ql(hs[1])}; g_hz := arr1_of {ql(hs[2])} |}}.\n")


def props_def(name, model):
    arrs = [getattr(model, p) for p in model._def_properties]
    txt = f"Definition {name} : list (Z -> Z -> Z -> Q) := [" + ';\n '.join(
        f"arr3_of 0%Q {q3(a)}" for a in arrs) + "].\n"
    return txt, arrs


def mask_for(model, p0, p1, ellipse):
    from emg3d import maps
    coo = (model.grid.cell_centers_x, model.grid.cell_centers_y)
    return maps.ellipse_indices(coo=coo, p0=p0, p1=p1, **ellipse)


def err_code(e):
    return {ValueError: 1, TypeError: 2}.get(type(e), 9)


def layer_floats(vals, lname, mid):
    """Model layer values -> floats (10** applied where the model applied pw)."""
    if (not lname) and (not mid):
        return np.array([10 ** float(v) for v in vals])
    return np.array([float(v) for v in vals])


# --------------------------------------------------- (A) extract_1d cases
def gen_extract_case(rng, thorough):
    grid, hs, org = rand_grid(rng, (6, 6, 5) if thorough else (5, 5, 4))
    li = rng.random() < 0.25
    model, kw, mapping, case = rand_model(rng, grid, lateral_invariant=li)
    lname = mapping.startswith('L')
    r = rng.random()
    malformed = None
    if r < 0.08:
        method = rng.choice(['source', 'receiver', 'Midpoint', 'ellipse', ''])
        malformed = 'method'
    else:
        method = rng.choice(['midpoint', 'prism', 'cylinder', 'prism', 'cylinder'])
    ellipse = rand_ellipse(rng, hs) if method != 'midpoint' or rng.random() < 0.2 else None
    if method in ('prism', 'cylinder') and rng.random() < 0.06:
        ellipse = rng.choice([None, {}, {'factor': 1.2}])
        malformed = 'radius'
    p0 = rand_point(rng, grid, hs, org)
    p1 = None if rng.random() < 0.2 else rand_point(rng, grid, hs, org)
    # merge compares floats for equality: only where averaged floats of equal layers are
    # bit-identical (single-cell selection or laterally invariant model)
    merge = rng.random() < 0.5 and (method == 'midpoint' or li)
    return dict(hs=hs, org=org, model=model, mapping=mapping, case=case, lname=lname, method=method,
                ellipse=ellipse, p0=p0, p1=p1, merge=merge, malformed=malformed)


EXTREME_KINDS = [('midpoint', True), ('midpoint', False), ('prism', False), ('cylinder', False)]


def gen_extreme_extract_case(rng, k):
    """merge=True on a laterally invariant column with extreme dynamic range; all six maps x
    (midpoint with last-bit neighbours, midpoint, prism, cylinder) round-robin."""
    mapping = MAPS[k % len(MAPS)]
    method, nearly = EXTREME_KINDS[(k // len(MAPS)) % len(EXTREME_KINDS)]
    grid, hs, org = rand_grid(rng, (3, 3, 6), (1, 1, 3))
    model, kw, mapping, case = rand_model(rng, grid, mapping=mapping, lateral_invariant=True,
                                          extreme=True, nearly=nearly)
    ellipse = None
    if method != 'midpoint':
        ellipse = rand_ellipse(rng, hs)
        ellipse['radius'] = float(max(sum(hs[0]), sum(hs[1])))      # a non-empty selection
    return dict(hs=hs, org=org, model=model, mapping=mapping, case=case, lname=mapping.startswith('L'),
                method=method, ellipse=ellipse, p0=rand_point(rng, grid, hs, org),
                p1=rand_point(rng, grid, hs, org), merge=True, malformed=None, extreme=True, nearly=nearly)


def gen_recurring_extract_case(rng, k):
    """merge=True on a laterally invariant column whose layer values recur in NON-adjacent
    layers (A B A, A B A B, A A B A, ...); six maps x methods round-robin, iso/HTI/VTI/triaxial,
    optional mu_r / epsilon_r following the same pattern."""
    mapping = MAPS[k % len(MAPS)]
    method = ['midpoint', 'prism', 'cylinder', 'midpoint'][(k // len(MAPS)) % 4]
    nz = 3 + (k % 4)
    grid, hs, org = rand_grid(rng, (3, 3, nz), (1, 1, nz))
    pattern = recurring_pattern(rng, nz)
    model, kw, mapping, case = rand_model(rng, grid, mapping=mapping, lateral_invariant=True, pattern=pattern)
    ellipse = None
    if method != 'midpoint':
        ellipse = rand_ellipse(rng, hs)
        ellipse['radius'] = float(max(sum(hs[0]), sum(hs[1])))      # a non-empty selection
    return dict(hs=hs, org=org, model=model, mapping=mapping, case=case, lname=mapping.startswith('L'),
                method=method, ellipse=ellipse, p0=rand_point(rng, grid, hs, org),
                p1=rand_point(rng, grid, hs, org), merge=True, malformed=None, recurring=pattern)


def extract_case_coq(c, tag):
    model = c['model']
    nx, ny, nz = model.shape
    ptxt, arrs = props_def(f"{tag}_props", model)
    has_radius = bool(c['ellipse']) and 'radius' in c['ellipse']
    p1 = c['p0'] if c['p1'] is None else c['p1']
    if c['method'] in ('prism', 'cylinder') and has_radius:
        use = mask_for(model, c['p0'], p1, c['ellipse'])
    else:
        use = np.zeros((nx, ny), bool)
    c['use'] = use
    lg = f"(lookup {log_table(arrs)})" if not c['lname'] else "idq"
    p1s = 'None' if c['p1'] is None else f"(Some {qp(c['p1'])})"
    txt = grid_def(f"{tag}_g", c['hs'], c['org']) + ptxt
    txt += (f"Eval vm_compute in show {nx} {ny} (extract_1d qleb {lg} idq {tag}_g {V.coq_bool(c['lname'])} "
            f"{tag}_props (fun _ _ => tab2 {bl(use)}) {V.coq_str(c['method'])} {V.coq_bool(has_radius)} "
            f"{qp(c['p0'])} {p1s} {V.coq_bool(c['merge'])}).\n")
    return txt


def impl_extract(c):
    """Run Model.extract_1d NOW and copy everything the comparison needs (the
    model may be edited in place afterwards)."""
    model = c['model']
    snap = dict(shape=tuple(model.shape), names=list(model._def_properties),
                scales={nm: float(np.max(np.abs(getattr(model, nm)))) for nm in model._def_properties},
                profile_x=np.array(model.property_x[0, 0, :]).tolist())
    try:
        kw = dict(method=c['method'], p0=c['p0'], merge=c['merge'], return_imat=True)
        if c['p1'] is not None:
            kw['p1'] = c['p1']
        if c['ellipse'] is not None:
            kw['ellipse'] = c['ellipse']
        lay, im = model.extract_1d(**kw)
        snap.update(code=0, imat=np.array(im), vals={nm: np.array(getattr(lay, nm)[0, 0, :]) for nm in snap['names']},
                    hz=np.array(lay.grid.h[2]),
                    geo=[float(lay.grid.h[0][0]), float(lay.grid.h[1][0]), float(lay.grid.origin[0]),
                         float(lay.grid.origin[1]), float(lay.grid.origin[2])])
    except Exception as e:    # noqa
        snap.update(code=err_code(e), error=repr(e))
    return snap


def compare_extract(c, m, dis, snap=None, history=None):
    """m = parsed model answer; snap = impl_extract(c) taken when the Coq text was
    generated (default: now)."""
    if snap is None:
        snap = impl_extract(c)
    code, mid, box, imat, props, hz, geo = m
    brief = dict(shape=list(snap['shape']), mapping=c['mapping'], case=c['case'], method=c['method'],
                 ellipse=c['ellipse'], p0=c['p0'], p1=c['p1'], merge=c['merge'], hx=c['hs'][0],
                 hy=c['hs'][1], hz=c['hs'][2], origin=c['org'], profile_x_at_first_column=snap['profile_x'])
    if history is not None:
        brief['history'] = history
    if c.get('recurring'):
        brief['recurring_pattern'] = c['recurring']
    icode = snap['code']
    if icode != code:
        dis.append({'what': 'extract_1d error class differs from the model', 'case': brief,
                    'impl': icode, 'model': code})
        return 'err'
    if code:
        return 'err'
    nx, ny, _ = snap['shape']
    im = snap['imat']
    mim = np.array([float(fr(p)) for p in imat]).reshape(nx, ny)
    if im.shape != mim.shape or np.max(np.abs(im - mim)) > 1e-12:
        dis.append({'what': 'extract_1d imat (weights) differs from the model', 'case': brief,
                    'impl': im.tolist(), 'model': mim.tolist()})
        return 'bad'
    names = snap['names']
    if len(props) != len(names):
        dis.append({'what': 'number of extracted properties differs', 'case': brief})
        return 'bad'
    for nm, pv in zip(names, props):
        mv = layer_floats(frl(pv), c['lname'], mid)
        iv = snap['vals'][nm]
        # scale: largest operand of the weighted sum (values of a log map may cancel)
        sc = snap['scales'][nm]
        if iv.shape != mv.shape or not all(rel_close(a, b, 1e-10, sc) for a, b in zip(iv, mv)):
            dis.append({'what': f'extract_1d layer values ({nm}) differ from the model'
                        + (' applied to the CURRENT arrays' if history else ''), 'case': brief,
                        'impl': iv.tolist(), 'model': mv.tolist(), 'midpoint': mid})
            return 'bad'
    mhz = np.array([float(x) for x in frl(hz)])
    g = [float(x) for x in frl(geo)]
    ihz, igeo = snap['hz'], snap['geo']
    if ihz.shape != mhz.shape or np.max(np.abs(ihz - mhz)) > 1e-9 or \
            max(abs(a - b) for a, b in zip(igeo, g)) > 1e-9:
        dis.append({'what': 'extract_1d output grid (hz / widths / origin) differs from the model',
                    'case': brief, 'impl': [ihz.tolist(), igeo], 'model': [mhz.tolist(), g]})
        return 'bad'
    if mid and c['method'] != 'midpoint':
        return 'fallback'
    return c['method']


# ---- two-step histories on ONE Model object: extract, edit, extract again
EDIT_KINDS = ['view_layer', 'view_layer', 'view_cell', 'view_block', 'setter']


def edit_model(rng, model, mapping, kind=None, keep_lateral=False, only=None):
    """Change values of one defined property.  'view_*': in place through the array
    the getter returns (model.property_x[:, :, k] = v) -- the setters are NOT involved;
    'setter': model.property_x = new_array.  Returns a JSON-able description."""
    names = [nm for nm in model._def_properties if only is None or nm in only]
    nm = rng.choice(names)
    arr = getattr(model, nm)
    pal = PALETTE_LOG if (mapping.startswith('L') and nm.startswith('property')) else PALETTE_POS
    nx, ny, nz = model.shape
    kind = kind or rng.choice(EDIT_KINDS[:-1])      # 'setter' only on request (control)
    if keep_lateral and kind in ('view_cell', 'view_block'):
        kind = 'view_layer'
    k = rng.randrange(nz)

    def other(old):
        return rng.choice([v for v in pal if v != old])
    if kind == 'view_layer':
        v = other(arr[0, 0, k])
        arr[:, :, k] = v
        return dict(kind=kind, prop=nm, layer=k, value=v)
    if kind == 'view_cell':
        i, j = rng.randrange(nx), rng.randrange(ny)
        v = other(arr[i, j, k])
        arr[i, j, k] = v
        return dict(kind=kind, prop=nm, cell=[i, j, k], value=v)
    if kind == 'view_block':
        v = other(arr[0, 0, k])
        i = rng.randrange(nx)
        arr[i:, :, k:] = v
        return dict(kind=kind, prop=nm, block=[i, 0, k], value=v)
    new = np.array(arr)
    v = other(new[0, 0, k])
    new[:, :, k] = v
    setattr(model, nm, new)
    return dict(kind='setter', prop=nm, layer=k, value=v)


def run_extract_histories(ctx, n, dis, hist):
    """[extract_1d(sel), edit, extract_1d(sel), edit, extract_1d(sel)] on one Model; every
    answer is compared with the Coq model evaluated on the arrays as they were at that moment."""
    rng = ctx.rng
    steps = []          # (case, tag, snap, history so far)
    txts = []
    for h in range(n):
        while True:
            c = gen_extract_case(rng, ctx.thorough)
            if c['malformed'] is None:
                break
        c['merge'] = False if c['method'] != 'midpoint' else c['merge']
        history = []
        for t in range(3):
            tag = f"h{h}_{t}"
            txt = extract_case_coq(c, tag)          # arrays as they are NOW
            snap = impl_extract(c)
            steps.append((c, tag, snap, list(history)))
            txts.append(txt)
            if t < 2:
                kind = 'setter' if (h % 5 == 4) else None      # every fifth history: setter control
                history.append(edit_model(rng, c['model'], c['mapping'], kind))
    per = 21
    files = [(f"c19_h_{k // per}", HEADER + ''.join(txts[k:k + per])) for k in range(0, len(txts), per)]
    res = V.coq_eval_many(files)
    done = 0
    seen = set()
    for fi, (name, _) in enumerate(files):
        rc, out = res[name]
        if rc != 0:
            dis.append({'what': 'extract_1d model does not evaluate (history)', 'log': out[-1500:]})
            continue
        for j, a in enumerate(V.eval_answers(out)):
            c, tag, snap, history = steps[fi * per + j]
            nd = len(dis)
            compare_extract(c, parse_term(a), dis, snap, history=history or None)
            done += 1
            for e in history[-1:]:
                hist['history:extract:' + e['kind']] = hist.get('history:extract:' + e['kind'], 0) + 1
                if len(dis) == nd:
                    seen.add(('hist', e['kind'], e['prop'], c['method']))
    return done, len(seen)


def run_extract(ctx, n, dis, hist):
    rng = ctx.rng
    cases = [gen_extract_case(rng, ctx.thorough) for _ in range(n)]
    cases += [gen_extreme_extract_case(rng, k) for k in range(72 if ctx.thorough else 24)]
    cases += [gen_recurring_extract_case(rng, k) for k in range(72 if ctx.thorough else 24)]
    n = len(cases)
    per = 20
    files = []
    for f0 in range(0, n, per):
        txt = HEADER
        for k in range(f0, min(n, f0 + per)):
            txt += extract_case_coq(cases[k], f"c{k}")
        files.append((f"c19_x_{f0 // per}", txt))
    res = V.coq_eval_many(files)
    seen = set()
    done = 0
    for fi, (name, _) in enumerate(files):
        rc, out = res[name]
        if rc != 0:
            dis.append({'what': 'extract_1d model does not evaluate', 'log': out[-1500:]})
            continue
        ans = V.eval_answers(out)
        for j, a in enumerate(ans):
            c = cases[fi * per + j]
            kind = compare_extract(c, parse_term(a), dis)
            done += 1
            hist['extract:' + kind] = hist.get('extract:' + kind, 0) + 1
            hist['map:' + c['mapping']] = hist.get('map:' + c['mapping'], 0) + 1
            if c['merge'] and c['lname'] and np.all(c['model'].property_x[:, :, 0] == -1.0):
                hist['extract:merge,top=-1'] = hist.get('extract:merge,top=-1', 0) + 1
            if c.get('recurring'):
                hist['extract:recurring-layers,merge'] = hist.get('extract:recurring-layers,merge', 0) + 1
            if c.get('extreme'):
                key = 'extract:extreme-range,merge,nearly-equal' + (',last-bits' if c['nearly'] else '')
                hist[key] = hist.get(key, 0) + 1
            if kind not in ('err', 'bad'):
                seen.add((kind, c['mapping'], c['case'], c['merge'], tuple(c['model'].shape)))
    samples = [dict(shape=list(c['model'].shape), mapping=c['mapping'], case=c['case'], method=c['method'],
                    ellipse=c['ellipse'], p0=c['p0'], p1=c['p1'], merge=c['merge']) for c in cases[:3]]
    return done, len(seen), samples


# ------------------------------------------- (B, C) Simulation(layered=True)
def rand_survey(rng, grid, hs, org, nsrc, nrec, nfreq, with_data, force_relative=False):
    import emg3d
    x0, x1 = org[0], org[0] + sum(hs[0])
    y0, y1 = org[1], org[1] + sum(hs[1])
    z0, z1 = org[2], org[2] + sum(hs[2])

    def xy(lo, hi):
        return lo + rng.randint(-2, int((hi - lo) / 16) + 2) * 16.0

    def zc():
        return z0 + rng.randint(-1, int((z1 - z0) / 8) + 1) * 8.0 + 3.0

    srcs = []
    for _ in range(nsrc):
        kind = rng.choice(['ed5', 'ed6', 'md5', 'ep', 'mp'])
        x, y, z = xy(x0, x1), xy(y0, y1), zc()
        az, el = rng.choice([0.0, 30.0, 90.0, -45.0]), rng.choice([0.0, 0.0, 20.0, 90.0])
        if kind == 'ed5':
            s = emg3d.TxElectricDipole((x, y, z, az, el), strength=rng.choice([1.0, 2.0]))
        elif kind == 'ed6':
            s = emg3d.TxElectricDipole((x, x + 64.0, y, y + rng.choice([0.0, 32.0]), z, z + rng.choice([0.0, 8.0])),
                                       strength=rng.choice([1.0, 0.5]))
        elif kind == 'md5':
            s = emg3d.TxMagneticDipole((x, y, z, az, el))
        elif kind == 'ep':
            s = emg3d.TxElectricPoint((x, y, z, az, el))
        else:
            s = emg3d.TxMagneticPoint((x, y, z, az, el))
        srcs.append(s)
    recs = []
    sc = [s.center for s in srcs]
    tries = 0
    while len(recs) < nrec:
        tries += 1
        x, y, z = xy(x0, x1), xy(y0, y1), zc()
        # small meshes: move outwards until far enough from every source
        x += 208.0 * (tries // 4) * rng.choice([-1, 1])
        y += 208.0 * (tries // 8)
        az, el = rng.choice([0.0, 60.0, 90.0]), rng.choice([0.0, 0.0, 90.0])
        cls = rng.choice([emg3d.RxElectricPoint, emg3d.RxElectricPoint, emg3d.RxMagneticPoint])
        relative = rng.random() < 0.35 or (force_relative and not recs)
        if relative:      # offset from the source centre (the first source defines it)
            off = np.array([x, y, z]) - sc[0]
            pos = [c + off for c in sc]
        else:
            off, pos = None, [np.array([x, y, z])] * len(sc)
        if any(np.hypot(p[0] - c[0], p[1] - c[1]) < 200.0 for p, c in zip(pos, sc)) or \
                any(np.hypot(p[0] - c[0], p[1] - c[1]) < 200.0 for p in pos for c in sc):
            continue
        recs.append(cls((*off, az, el), relative=True) if relative else cls((x, y, z, az, el)))
    freqs = rng.sample([0.25, 0.5, 1.0, 2.0, 4.0], nfreq)
    survey = emg3d.Survey(srcs, recs, freqs, noise_floor=1e-15, relative_error=0.05)
    pattern = 'none'
    if with_data:
        pattern = rng.choice(['full', 'gaps', 'gaps', 'rec_nan', 'src_nan'])
        shp = survey.shape
        obs = np.zeros(shp, complex)
        for idx in itertools.product(*[range(m) for m in shp]):
            obs[idx] = complex(K.dy(rng) or 1.0, K.dy(rng)) * 2.0 ** -36
        if pattern in ('gaps', 'rec_nan', 'src_nan'):
            for idx in itertools.product(*[range(m) for m in shp]):
                if rng.random() < 0.3:
                    obs[idx] = np.nan
        if pattern == 'rec_nan':
            obs[:, rng.randrange(shp[1]), :] = np.nan
        if pattern == 'src_nan':
            obs[rng.randrange(shp[0]), :, :] = np.nan
        if not np.isfinite(obs).any():
            obs[0, 0, 0] = (1 + 1j) * 2.0 ** -36
        survey.data.observed[...] = obs
    return survey, pattern


SIM_METHODS = ['receiver', 'cylinder', 'source', 'prism', 'midpoint', 'cylinder']


def gen_sim_case(rng, thorough, grad, k=0, extreme=False, recurring=False):
    import emg3d
    # methods round-robin; two of three rounds on laterally varying models with >= 2 x 2 columns
    li = (k // len(SIM_METHODS)) % 3 == 2 or extreme or recurring
    method = SIM_METHODS[k % len(SIM_METHODS)]
    single = method in ('midpoint', 'source', 'receiver')
    pattern = None
    if extreme:
        # merge=True on a column with extreme dynamic range (air on top), maps round-robin
        grid, hs, org = rand_grid(rng, (3, 3, 6), (1, 1, 3))
        mapping = MAPS[k % len(MAPS)]
    elif recurring:
        # merge=True on a column whose values recur in non-adjacent layers, maps round-robin
        nz = 3 + (k % 3)
        grid, hs, org = rand_grid(rng, (3, 3, nz), (1, 1, nz))
        mapping = MAPS[(k + 1) % len(MAPS)]
        pattern = recurring_pattern(rng, nz)
    else:
        grid, hs, org = rand_grid(rng, (5, 5, 4), (1, 1, 2) if li else (2, 2, 2))
        mapping = rng.choice(MAPS)
    model, kw, mapping, case = rand_model(rng, grid, mapping=mapping, layered_ok=True,
                                          lateral_invariant=li, extreme=extreme, nearly=extreme and single,
                                          pattern=pattern)
    lopts = {'method': method}
    if method in ('prism', 'cylinder'):
        lopts['ellipse'] = rand_ellipse(rng, hs)
    if extreme or recurring or ((li or single) and (rng.random() < 0.4 or (grad and single and k % 2 == 0))):
        lopts['merge'] = True
    with_data = grad or rng.random() < 0.6
    survey, pattern = rand_survey(rng, grid, hs, org, rng.randint(1, 2), rng.randint(1, 3 if grad else 4),
                                  rng.randint(1, 2), with_data)
    with warnings.catch_warnings():
        warnings.simplefilter('ignore')
        sim = emg3d.Simulation(survey, model, layered=True, layered_opts=lopts, max_workers=1,
                               tqdm_opts=False, gridding='same', verb=-1)
    return dict(hs=hs, org=org, model=model, mapping=mapping, case=case, lname=mapping.startswith('L'),
                lopts=sim.layered_opts, survey=survey, sim=sim, pattern=pattern, grad=grad, li=li,
                extreme=extreme or recurring, recurring=pattern)


def sim_brief(c):
    sv = c['survey']
    return dict(shape=list(c['model'].shape), mapping=c['mapping'], case=c['case'],
                mu_r=c['model'].mu_r is not None, epsilon_r=c['model'].epsilon_r is not None,
                layered_opts={k: (dict(v) if isinstance(v, dict) else v) for k, v in c['lopts'].items()},
                sources=[[s.__class__.__name__, [float(x) for x in s.coordinates]] for s in sv.sources.values()],
                receivers=[[r.__class__.__name__, [float(x) for x in r.coordinates], bool(r.relative)]
                           for r in sv.receivers.values()],
                frequencies=[float(f) for f in sv.frequencies.values()], observed=c['pattern'],
                hx=c['hs'][0], hy=c['hs'][1], hz=c['hs'][2], origin=c['org'],
                history=c.get('history'), recurring_pattern=c.get('recurring'), profile_x_at_first_column=c['model'].property_x[0, 0, :].tolist())


def common_defs(c, tag, lg, pw, bw):
    """Grid, properties, and per-source definitions shared by rounds 1 and 2."""
    model = c['model']
    ptxt, arrs = props_def(f"{tag}_props", model)
    txt = grid_def(f"{tag}_g", c['hs'], c['org']) + ptxt
    c['arrs'] = arrs
    lo = c['lopts']
    method = lo['method']
    ell = lo.get('ellipse')
    has_radius = bool(ell) and 'radius' in ell
    sv = c['survey']
    recs = list(sv.receivers.values())
    freqs = [float(f) for f in sv.frequencies.values()]
    vti = model.case == 'VTI'
    args = {}
    for si, src in enumerate(sv.sources.values()):
        p0 = src.center[:2]
        masks = []
        for rec in recs:
            p1 = rec.center_abs(src)[:2]
            if method in ('prism', 'cylinder'):
                use = mask_for(model, p0, p1, ell)
            else:
                use = np.zeros(model.shape[:2], bool)
            masks.append(f"({qp(p1)}, tab2 {bl(use)})")
        txt += (f"Definition {tag}_ell{si} (p0 p1 : Q * Q) : Z -> Z -> bool := mask_by ["
                + '; '.join(masks) + "] p1.\n")
        mg = V.coq_bool(bool(lo.get('merge', False)))
        head = (f"{tag}_g {V.coq_bool(c['lname'])} {bw} {tag}_props {V.coq_bool(vti)} "
                f"{V.coq_bool(model.mu_r is not None)} {V.coq_bool(model.epsilon_r is not None)} "
                f"{tag}_ell{si} {V.coq_str(method)} {V.coq_bool(has_radius)}")
        args[si] = f"{head} {mg} {qp3(src.center)} {ql(freqs)}"
        args[(si, 'g')] = f"{head} {qp3(src.center)} {ql(freqs)}"      # layered_grad: no merge
        for key, m2 in (('x', mg), ('x0', 'false')):
            args[(si, key)] = (f"qleb {lg} {pw} {tag}_g {V.coq_bool(c['lname'])} {tag}_props {tag}_ell{si} "
                               f"{V.coq_str(method)} {V.coq_bool(has_radius)} {m2} {qp3(src.center)}")
    return txt, args, recs, freqs


def sim_case_coq(c, tag):
    model = c['model']
    nx, ny, nz = model.shape
    arrs = [getattr(model, p) for p in model._def_properties]
    lg = f"(lookup {log_table(arrs)})" if not c['lname'] else "idq"
    txt, args, recs, freqs = common_defs(c, tag, lg, 'idq', 'idq')
    sv = c['survey']
    has_data = bool(np.isfinite(sv.data.observed.data).sum() > 0)
    rcs = '[' + '; '.join(rcv(r) for r in recs) + ']'
    for si, sname in enumerate(sv.sources.keys()):
        if has_data:
            fin = np.isfinite(sv.data.observed.loc[sname, :, :].data)
            obs = "(Some [" + '; '.join('[' + '; '.join(V.coq_bool(bool(b)) for b in row) + ']'
                                        for row in fin) + "])"
        else:
            obs = "None"
        txt += (f"Eval vm_compute in showrows (layered_fwd qleb {lg} idq desc_t {args[si]} desc {rcs} {obs}).\n")
        txt += (f"Eval vm_compute in map (fun rc => show {nx} {ny} (extract_for {args[(si, 'x')]} rc)) {rcs}.\n")
        txt += (f"Eval vm_compute in map (fun rc => show {nx} {ny} (extract_for {args[(si, 'x0')]} rc)) {rcs}.\n")
    return txt


def bipole_direct(src, rec, depth, cond_h, cond_v, eperm, mperm, freq, pos=None):
    """The reference: one empymod.bipole call for one triple; the receiver at its
    absolute position [pos] (default: rec.coordinates_abs(src))."""
    import empymod
    aniso = None if cond_v is None else np.sqrt(cond_h / cond_v)
    if pos is None:
        pos = rec.coordinates_abs(src)[:3]
    rc = (float(pos[0]), float(pos[1]), float(pos[2]), rec.azimuth, rec.elevation)
    return empymod.bipole(src=src.coordinates, rec=rc, depth=depth, res=1 / cond_h,
                          aniso=aniso, freqtime=freq, msrc=src.xtype != 'electric',
                          mrec=rec.xtype != 'electric', strength=src.strength, epermH=eperm,
                          mpermH=mperm, epermV=None, mpermV=None, signal=None, squeeze=True, verb=1)


def bipole_noise(src, rec, depth, cond_h, cond_v, eperm, mperm, freq, pos=None):
    """Reference responses (one call, all frequencies) and their measured sensitivity to a
    last-bit change of the conductivities: strongly attenuated responses (1e-16 V/m) are sums of
    filter terms many orders larger, so one ulp in a layer value moves them by up to ~1e-8
    relative.  Comparisons allow 100 x this measured rounding."""
    ref = np.atleast_1d(bipole_direct(src, rec, depth, cond_h, cond_v, eperm, mperm, freq, pos))
    noise = np.zeros(ref.shape)
    for fac in (1 + 2.0 ** -52, 1 - 2.0 ** -52):
        alt = np.atleast_1d(bipole_direct(src, rec, depth, cond_h * fac, None if cond_v is None else cond_v / fac,
                                          eperm, mperm, freq, pos))
        noise = np.maximum(noise, np.abs(alt - ref))
        alt = np.atleast_1d(bipole_direct(src, rec, depth, cond_h * fac, None if cond_v is None else cond_v * fac,
                                          eperm, mperm, freq, pos))
        noise = np.maximum(noise, np.abs(alt - ref))
    return ref, noise


def desc_to_args(c, d, mid):
    """Model descriptor (exact rationals) -> float arguments of the reference call."""
    i, pos, depth, ch, cv, ep, mp, f = d
    pos = [float(x) for x in frl(pos)]
    bw = c['model'].map.backward
    cond_h = bw(layer_floats(frl(ch), c['lname'], mid))
    cond_v = bw(layer_floats(frl(cv[1]), c['lname'], mid)) if cv[0] else None
    eperm = layer_floats(frl(ep[1]), c['lname'], mid) if ep[0] else None
    mperm = layer_floats(frl(mp[1]), c['lname'], mid) if mp[0] else None
    return i, pos, np.array([float(x) for x in frl(depth)]), cond_h, cond_v, eperm, mperm, float(fr(f))


def impl_compute(c):
    """sim.compute() NOW; returns a copy of data.synthetic or the exception."""
    with warnings.catch_warnings():
        warnings.simplefilter('ignore')
        try:
            c['sim'].compute()
            return c['sim'].data.synthetic.data.copy()
        except Exception as e:    # noqa
            return e


def compare_sim(c, answers, dis, hist, syn=None):
    """answers: per source (rows, extractions).  syn: responses taken when the Coq
    text was generated (default: compute now).  Returns number of triples compared."""
    sim, sv = c['sim'], c['survey']
    if syn is None:
        syn = impl_compute(c)
    if isinstance(syn, Exception):
        dis.append({'what': 'Simulation(layered=True).compute raised', 'case': sim_brief(c), 'impl': repr(syn)})
        return 0
    srcs = list(sv.sources.values())
    recs = list(sv.receivers.values())
    n = 0
    c['ext'] = {}
    big = float(np.nanmax(np.abs(syn))) if np.isfinite(syn).any() else 0.0
    c['ext0'] = {}
    for si, (rows, exts, exts0) in enumerate(answers):
        c['ext0'][si] = exts0
        code, rows = rows
        if code != 0:
            dis.append({'what': 'model layered_fwd returned an error where the implementation ran',
                        'case': sim_brief(c), 'model': code})
            return n
        c['ext'][si] = exts
        for ri, row in enumerate(rows):
            mid = exts[ri][1]
            # the reference for the row in ONE call with all its frequencies, as the model's
            # oracle is called: strongly attenuated responses (1e-16) carry the rounding of
            # much larger filter terms, which depends on the shape of the call
            fsel = [desc_to_args(c, d, mid)[-1] for (some, d) in row if some]
            rowref, nref = None, 0
            for fi, (some, d) in enumerate(row):
                iv = syn[si, ri, fi]
                n += 1
                if not some:
                    hist['triple:skipped'] = hist.get('triple:skipped', 0) + 1
                    if not np.isnan(iv):
                        dis.append({'what': 'layered mode computed a triple the model skips (non-finite observation)',
                                    'case': sim_brief(c), 'triple': [si, ri, fi], 'impl': str(iv), 'model': 'NaN'})
                        return n
                    continue
                hist['triple:computed'] = hist.get('triple:computed', 0) + 1
                i, pos, depth, ch, cv, ep, mp, f = desc_to_args(c, d, mid)
                if rowref is None:
                    rowref, rownoise = bipole_noise(srcs[si], recs[i], depth, ch, cv, ep, mp, np.array(fsel), pos)
                ref = complex(rowref[nref])
                slack = 100 * float(rownoise[nref])
                nref += 1
                # frequencies are independent (oracle contract): the single-frequency call agrees,
                # up to the call-shape rounding described above
                one = complex(bipole_direct(srcs[si], recs[i], depth, ch, cv, ep, mp, f, pos))
                if not (rel_close(one, ref, 1e-6, 1e-3 * big) or abs(one - ref) <= slack):
                    dis.append({'what': 'empymod.bipole: single-frequency call differs from the multi-frequency call '
                                '(oracle contract bipole_pointwise)', 'case': sim_brief(c), 'triple': [si, ri, fi],
                                'impl': str(ref), 'model': str(one)})
                    return n
                if not (np.isfinite(iv) and (rel_close(iv, ref, 1e-10, 1e-3 * big) or abs(iv - ref) <= slack)):
                    dis.append({'what': 'layered response differs from empymod.bipole of the model\'s layers',
                                'case': sim_brief(c), 'triple': [si, ri, fi], 'impl': str(iv), 'model': str(ref),
                                'layers': dict(position=pos, depth=depth.tolist(), cond_h=ch.tolist(),
                                               cond_v=None if cv is None else cv.tolist())})
                    return n
    return n


# ---- (C) gradient: second Coq round with a table oracle of empymod responses
def grad_case_coq(c, tag):
    """Needs c['ext'] (round 1).  Returns Coq text evaluating layered_grad per source."""
    model, sv, sim = c['model'], c['survey'], c['sim']
    nx, ny, nz = model.shape
    vti = model.case == 'VTI'
    arrs = [getattr(model, p) for p in model._def_properties]
    srcs = list(sv.sources.values())
    recs = list(sv.receivers.values())
    freqs = np.array([float(f) for f in sv.frequencies.values()])
    bwf = model.map.backward
    lgt = log_table(arrs) if not c['lname'] else '[]'
    pw_t, bw_t = {}, {}
    tabs = []
    txt_src = ''
    obs_all = sv.data.observed.data
    wgt_all = sim.data.weights.data
    res_all = sim.data.residual.data
    for si, src in enumerate(srcs):
        entries = []
        rds = []
        for ri, rec in enumerate(recs):
            fin = np.isfinite(obs_all[si, ri, :])
            # the gradient branch extracts WITHOUT merge
            code, mid, box, imat, props, hz, geo = c['ext0'][si][ri]
            use_pw = (not c['lname']) and (not mid)

            def conv(vals):
                """exact model layer values -> float conductivity, recording the oracle tables"""
                out = []
                for v in vals:
                    x = v
                    if use_pw:
                        y = 10 ** float(v)
                        pw_t[v] = y
                        x = V.frac(y)
                    s = float(bwf(np.array([float(x)]))[0])
                    bw_t[x] = s
                    out.append(s)
                return np.array(out)
            names = model._def_properties
            pv = {nm: frl(p) for nm, p in zip(names, props)}
            ch = conv(pv['property_x'])
            cv = conv(pv['property_z']) if vti else None
            ep = layer_floats(pv['epsilon_r'], c['lname'], mid) if 'epsilon_r' in pv else None
            mp = layer_floats(pv['mu_r'], c['lname'], mid) if 'mu_r' in pv else None
            depth = np.cumsum([float(x) for x in frl(hz)])[:-1] + float(fr(geo[4]))
            if fin.any():
                for vertical in ([False, True] if vti else [False]):
                    for iz in range(len(ch)):
                        cp = (cv if vertical else ch).copy()
                        cp[iz] += cp[iz] * 0.0001
                        a, b = (ch, cp) if vertical else (cp, cv)
                        resp = np.atleast_1d(bipole_direct(src, rec, depth, a, b, ep, mp, freqs[fin]))
                        entries.append(f"(({ri}%nat, {V.coq_bool(vertical)}, {iz}%nat), ["
                                       + '; '.join(V.qc(z) for z in resp) + "])")
                tabs.append((si, ri, ch, cv))
            z0 = 0j

            def cl(a):
                return '[' + '; '.join(V.qc(z if np.isfinite(z) else z0) for z in a) + ']'
            rds.append(f"({rcv(rec)}, [" + '; '.join(V.coq_bool(bool(b)) for b in fin) + "], "
                       f"{cl(obs_all[si, ri, :])}, {ql(np.where(fin, wgt_all[si, ri, :], 0.0))}, "
                       f"{cl(res_all[si, ri, :])})")
        base = '[' + '; '.join(f"({ri}%nat, ({ql(ch)}, {ql(cv) if cv is not None else '[]'}))"
                               for (s2, ri, ch, cv) in tabs if s2 == si) + ']'
        txt_src += (f"Definition {tag}_base{si} : list (nat * (list Q * list Q)) := {base}.\n"
                    f"Definition {tag}_tab{si} : list ((nat * bool * nat) * list (Q * Q)) := ["
                    + ';\n '.join(entries) + "].\n"
                    f"Definition {tag}_bip{si} (i : nat) (q : Q * Q * Q) (d ch : list Q) (cv ep mp : option (list Q)) "
                    f"(fs : list Q) : list (Q * Q) :=\n"
                    f"  let b := match find (fun t => Nat.eqb (fst t) i) {tag}_base{si} with "
                    f"Some t => snd t | None => ([], []) end in\n"
                    f"  let key := match first_diff 0 ch (fst b) with\n"
                    f"             | Some k => Some (false, k)\n"
                    f"             | None => match cv with Some v => match first_diff 0 v (snd b) with "
                    f"Some k => Some (true, k) | None => None end | None => None end\n"
                    f"             end in\n"
                    f"  match key with\n"
                    f"  | Some (vert, k) => match find (fun t => (Nat.eqb (fst (fst (fst t))) i && "
                    f"Bool.eqb (snd (fst (fst t))) vert && Nat.eqb (snd (fst t)) k)%bool) {tag}_tab{si} with "
                    f"Some t => snd t | None => [] end\n"
                    f"  | None => []\n  end.\n"
                    f"Definition {tag}_rds{si} : list (@rdata Q) := [" + ';\n '.join(rds) + "].\n")
    pwl = '[' + '; '.join(f"({V.q(k)}, {V.q(v)})" for k, v in pw_t.items()) + ']'
    bwl = '[' + '; '.join(f"({V.q(k)}, {V.q(v)})" for k, v in bw_t.items()) + ']'
    lg = f"(lookup {lgt})" if not c['lname'] else 'idq'
    txt, args, _, _ = common_defs(c, tag, lg, f"(lookup {pwl})", f"(lookup {bwl})")
    txt += txt_src
    for si in range(len(srcs)):
        txt += (f"Eval vm_compute in showgrad {nx} {ny} {nz} (layered_grad qleb {lg} (lookup {pwl}) "
                f"{args[(si, 'g')]} {tag}_bip{si} (Some {tag}_rds{si})).\n")
    return txt


def compare_grad(c, answers, dis):
    model, sim = c['model'], c['sim']
    vti = model.case == 'VTI'
    shape = model.shape
    tot = np.zeros((3, *shape))
    for a in answers:
        code, g0, g2 = a
        if code != 0:
            dis.append({'what': 'model layered_grad returned an error', 'case': sim_brief(c)})
            return
        tot[0] += np.array([float(fr(p)) for p in g0]).reshape(shape)
        tot[2] += np.array([float(fr(p)) for p in g2]).reshape(shape)
    with warnings.catch_warnings():
        warnings.simplefilter('ignore')
        try:
            raw = np.array(sim._compute_1d(gradient=True))
            grad = np.array(sim.gradient)
        except Exception as e:    # noqa
            dis.append({'what': 'layered gradient raised where the model returns a gradient',
                        'case': sim_brief(c), 'impl': repr(e)})
            return
    misfit = float(sim.misfit)
    scale = 1e-7 * max(np.max(np.abs(tot)), 1e-300)
    if not np.all(np.isfinite(raw)):
        k = np.unravel_index(np.argmax(~np.isfinite(raw)), raw.shape)
        dis.append({'what': 'layered finite-difference gradient (_compute_1d) is not finite where the model is',
                    'case': sim_brief(c), 'index': [int(x) for x in k], 'impl': str(raw[k]),
                    'model': float(tot[k])})
        return
    if np.max(np.abs(raw - tot)) > scale + 1e-9 * misfit / 1e-4 / max(1e-3, float(np.min(np.abs(
            model.map.backward(model.property_x))))):
        k = np.unravel_index(np.argmax(np.abs(raw - tot)), raw.shape)
        dis.append({'what': 'layered finite-difference gradient (_compute_1d) differs from the model',
                    'case': sim_brief(c), 'index': [int(x) for x in k], 'impl': float(raw[k]),
                    'model': float(tot[k])})
        return
    # Simulation.gradient: out[0] (+ out[1] + [out[2]]) of the raw result through the map's
    # derivative chain (the raw result was just compared with the model; FD rounding noise
    # must not be amplified twice)
    exp = raw.copy()
    exp[0] += exp[1]
    idx = [0]
    if vti:
        model.map.derivative_chain(exp[2], model.property_z)
        idx.append(2)
    else:
        exp[0] += exp[2]
    model.map.derivative_chain(exp[0], model.property_x)
    exp = exp[idx].squeeze()
    if exp.shape != grad.shape or np.max(np.abs(exp - grad)) > 1e-10 * max(np.max(np.abs(exp)), 1e-300):
        dis.append({'what': 'Simulation.gradient (layered) is not the raw layered gradient through the map chain',
                    'case': sim_brief(c), 'impl': grad.tolist(), 'model': exp.tolist()})


def run_sims(ctx, n, ngrad, dis, hist):
    rng = ctx.rng
    cases = [gen_sim_case(rng, ctx.thorough, grad=(k < ngrad), k=k) for k in range(n)]
    cases += [gen_sim_case(rng, ctx.thorough, grad=False, k=k, extreme=True)
              for k in range(18 if ctx.thorough else 6)]
    cases += [gen_sim_case(rng, ctx.thorough, grad=False, k=k, recurring=True)
              for k in range(18 if ctx.thorough else 6)]
    n = len(cases)
    per = 4
    files = []
    # two-step histories on ONE Simulation / Model: [compute (+ misfit, gradient), edit the model
    # (in place through the array views; every 4th one through the setter), clean('computed')];
    # the ordinary comparison below is then the second compute / misfit / gradient
    pre = {}
    for k, c in enumerate(cases):
        if k % 2 == 0 or c['extreme']:
            continue
        txt = sim_case_coq(c, f"p{k}")              # arrays as they are NOW
        syn = impl_compute(c)
        ops = ['compute']
        if c['grad'] and not isinstance(syn, Exception):
            with warnings.catch_warnings():
                warnings.simplefilter('ignore')
                try:
                    _ = c['sim'].misfit
                    _ = c['sim'].gradient
                    ops += ['misfit', 'gradient']
                except Exception:    # noqa -- reported by the second step
                    pass
        pre[k] = (txt, syn)
        single = c['lopts']['method'] in ('midpoint', 'source', 'receiver')
        keep = c['li'] and not single
        if k % 8 == 7:          # control: the same kind of update through the setter
            ed = [edit_model(rng, c['model'], c['mapping'], 'setter', only=('property_x', 'property_z'))]
        else:                   # a whole layer of a conductivity-like property, then anything
            ed = [edit_model(rng, c['model'], c['mapping'], 'view_layer', only=('property_x', 'property_z'))]
            if rng.random() < 0.5:
                ed.append(edit_model(rng, c['model'], c['mapping'], None, keep_lateral=keep))
        c['sim'].clean('computed')
        c['history'] = ops + ed + ["clean('computed')", 'compute' + (', misfit, gradient' if c['grad'] else '')]
    pk = sorted(pre)
    for f0 in range(0, len(pk), per):
        files.append((f"c19_p_{f0 // per}", HEADER + ''.join(pre[k][0] for k in pk[f0:f0 + per])))
    npre = len(files)
    for f0 in range(0, n, per):
        txt = HEADER
        for k in range(f0, min(n, f0 + per)):
            txt += sim_case_coq(cases[k], f"s{k}")
        files.append((f"c19_s_{f0 // per}", txt))
    res = V.coq_eval_many(files)
    triples = 0
    seen = set()
    okcases = []
    # first steps of the histories (responses copied before the edit)
    for fi, (name, _) in enumerate(files[:npre]):
        rc, out = res[name]
        if rc != 0:
            dis.append({'what': 'layered_fwd model does not evaluate (history, first step)', 'log': out[-1500:]})
            continue
        ans = [parse_term(a) for a in V.eval_answers(out)]
        pos = 0
        for k in pk[fi * per:fi * per + per]:
            c = cases[k]
            ns = len(c['survey'].sources)
            a = [(ans[pos + 3 * s], ans[pos + 3 * s + 1], ans[pos + 3 * s + 2]) for s in range(ns)]
            pos += 3 * ns
            hsave, c['history'] = c.get('history'), ['compute (first step, before any edit)']
            triples += compare_sim(c, a, dis, hist, syn=pre[k][1])
            c['history'] = hsave
            for e in hsave:
                if isinstance(e, dict):
                    hist['history:sim:' + e['kind']] = hist.get('history:sim:' + e['kind'], 0) + 1
    files = files[npre:]
    for fi, (name, _) in enumerate(files):
        rc, out = res[name]
        if rc != 0:
            dis.append({'what': 'layered_fwd model does not evaluate', 'log': out[-1500:]})
            continue
        ans = [parse_term(a) for a in V.eval_answers(out)]
        pos = 0
        for k in range(fi * per, min(n, fi * per + per)):
            c = cases[k]
            ns = len(c['survey'].sources)
            a = [(ans[pos + 3 * s], ans[pos + 3 * s + 1], ans[pos + 3 * s + 2]) for s in range(ns)]
            pos += 3 * ns
            nd = len(dis)
            triples += compare_sim(c, a, dis, hist)
            key = (c['lopts']['method'], c['mapping'], c['case'], c['pattern'], bool(c['lopts'].get('merge')))
            hist['method:' + c['lopts']['method']] = hist.get('method:' + c['lopts']['method'], 0) + 1
            hist['observed:' + c['pattern']] = hist.get('observed:' + c['pattern'], 0) + 1
            nrel = sum(bool(r.relative) for r in c['survey'].receivers.values())
            hist['receivers:relative'] = hist.get('receivers:relative', 0) + nrel
            hist['receivers:absolute'] = hist.get('receivers:absolute', 0) + len(c['survey'].receivers) - nrel
            if c['lopts'].get('merge'):
                hist['sim:merge'] = hist.get('sim:merge', 0) + 1
                if c['grad']:
                    hist['sim:merge+gradient'] = hist.get('sim:merge+gradient', 0) + 1
            if c['lname'] and np.all(c['model'].property_x[:, :, 0] == -1.0):
                hist['sim:top=-1'] = hist.get('sim:top=-1', 0) + 1
            if c.get('recurring'):
                hist['sim:recurring-layers,merge'] = hist.get('sim:recurring-layers,merge', 0) + 1
            elif c['extreme']:
                hist['sim:extreme-range,merge'] = hist.get('sim:extreme-range,merge', 0) + 1
            if len(dis) == nd:
                seen.add(key)
                okcases.append(c)
    # round 2: gradients
    gcases = [c for c in okcases if c['grad']]
    gfiles = []
    for k, c in enumerate(gcases):
        with warnings.catch_warnings():
            warnings.simplefilter('ignore')
            _ = c['sim'].misfit
        gfiles.append((f"c19_g_{k}", HEADER + grad_case_coq(c, f"g{k}")))
    gres = V.coq_eval_many(gfiles)
    ng = 0
    for (name, _), c in zip(gfiles, gcases):
        rc, out = gres[name]
        if rc != 0:
            dis.append({'what': 'layered_grad model does not evaluate', 'log': out[-1500:]})
            continue
        compare_grad(c, [parse_term(a) for a in V.eval_answers(out)], dis)
        ng += 1
        hist['gradient:' + c['case']] = hist.get('gradient:' + c['case'], 0) + 1
    return n, triples, ng, len(seen), [sim_brief(c) for c in cases[:2]]


# ---- (M) result assembly: WHICH slot holds WHICH response, for enumerated mask classes
ASM_HEADER = (K.CASE_HEADER + """From Coq Require Import String Bool.
From V Require Import Model.Layered Model.LayeredAsm.
Fixpoint idx (l : list string) (k : string) (n : Z) : Z :=
  match l with [] => (-1) | a :: t => if String.eqb a k then n else idx t k (n + 1) end.
Definition tok3 (sl rl : list string) (s k : string) (fs : list Z) : list (Z * Z * Z) :=
  map (fun f => (idx sl s 0, idx rl k 0, f)) fs.
Definition show_asm (o : list (list (list (option (Z * Z * Z))))) :=
  map (map (map (fun x => match x with Some t => (true, t) | None => (false, (0, 0, 0)) end))) o.
""")

# (name, number of sources, number of receivers): finite-observed-data patterns, enumerated
MASK_CLASSES = [
    ('dataless-receiver-first', 1, 4), ('dataless-receiver-middle', 2, 4), ('dataless-receiver-last', 1, 3),
    ('two-dataless-in-a-row-front', 1, 5), ('two-dataless-in-a-row-middle', 2, 5),
    ('all-but-last-dataless', 1, 4), ('all-but-first-dataless', 1, 3), ('all-but-middle-dataless', 2, 5),
    ('alternating-dataless', 1, 5), ('partial-gaps-only', 2, 4), ('dataless-first+partial-gaps', 2, 4),
    ('per-source-different-dataless', 2, 4), ('dataless-source-first', 2, 3), ('dataless-source-middle', 3, 3),
    ('no-observed-data', 2, 3), ('full', 1, 3), ('eleven-receivers-dataless-2nd-and-10th', 1, 11),
    ('random-30%-gaps', 2, 5)]
MASK_METHODS = ['source', 'receiver', 'midpoint', 'prism', 'cylinder']
MASK_GRAD_CLASSES = ('dataless-receiver-first', 'two-dataless-in-a-row-middle')


def mask_flags(name, nsrc, nrec, nfreq, rng):
    """Finite flags (nsrc, nrec, nfreq) of the observed data for a mask class."""
    f = np.ones((nsrc, nrec, nfreq), bool)
    mid = nrec // 2

    def gaps(keep_one=True):
        for si in range(nsrc):
            for ri in range(nrec):
                if not f[si, ri].any():
                    continue
                for fj in range(nfreq):
                    if rng.random() < 0.4:
                        f[si, ri, fj] = False
                if keep_one and not f[si, ri].any():
                    f[si, ri, rng.randrange(nfreq)] = True
    if name == 'dataless-receiver-first':
        f[:, 0] = False
    elif name == 'dataless-receiver-middle':
        f[:, rng.randint(1, nrec - 2)] = False
    elif name == 'dataless-receiver-last':
        f[:, -1] = False
    elif name == 'two-dataless-in-a-row-front':
        f[:, :2] = False
    elif name == 'two-dataless-in-a-row-middle':
        f[:, 1:3] = False
    elif name == 'all-but-last-dataless':
        f[:, :-1] = False
    elif name == 'all-but-first-dataless':
        f[:, 1:] = False
    elif name == 'all-but-middle-dataless':
        f[:, :mid] = False
        f[:, mid + 1:] = False
    elif name == 'alternating-dataless':
        f[:, ::2] = False
    elif name == 'partial-gaps-only':
        gaps()
        if f.all():
            f[0, 0, 0] = False
    elif name == 'dataless-first+partial-gaps':
        f[:, 0] = False
        gaps()
    elif name == 'per-source-different-dataless':
        f[0, 0] = False
        f[1, rng.randint(1, nrec - 2)] = False
        gaps()
    elif name == 'dataless-source-first':
        f[0] = False
        f[1, 0] = False
    elif name == 'dataless-source-middle':
        f[1] = False
        f[0, 1] = False
        f[2, 0] = False
    elif name == 'no-observed-data':
        f[...] = False
    elif name == 'eleven-receivers-dataless-2nd-and-10th':
        f[:, 1] = False
        f[:, 9] = False
        gaps()
    elif name == 'random-30%-gaps':
        f &= np.array([[[rng.random() >= 0.3 for _ in range(nfreq)] for _ in range(nrec)] for _ in range(nsrc)])
        f[0, rng.randrange(nrec - 1)] = False
        if not f.any():
            f[-1, -1, -1] = True
    return f


def mask_problem(seed, ki):
    """A laterally invariant model + survey with receivers at clearly DISTINCT offsets (steps of
    >= 500 m along a line: neighbouring receivers differ by large factors) + the finite flags of
    mask class [ki].  Everything derived from (seed, ki)."""
    import random
    import emg3d
    rng = random.Random(f"c19-mask-{int(seed)}-{int(ki)}")
    name, nsrc, nrec = MASK_CLASSES[ki]
    grid, hs, org = rand_grid(rng, (4, 4, 4), (2, 2, 3))
    mapping = MAPS[(ki + seed) % len(MAPS)]
    model, kw, mapping, case = rand_model(rng, grid, mapping=mapping, layered_ok=True, lateral_invariant=True)
    z0, z1 = org[2], org[2] + sum(hs[2])

    def zc():
        return z0 + rng.randint(0, int((z1 - z0) / 8)) * 8.0 + 3.0
    cx = org[0] + sum(hs[0]) / 2 // 16 * 16
    cy = org[1] + sum(hs[1]) / 2 // 16 * 16
    while True:
        th = rng.choice([0.0, 30.0, 45.0, 120.0, 200.0, 270.0, 315.0]) * np.pi / 180
        spos = [np.array([cx, cy]) + q * np.array([-np.cos(th) * 640.0 - np.sin(th) * 352.0,
                                                    -np.sin(th) * 640.0 + np.cos(th) * 352.0])
                for q in range(nsrc)]
        offs = [(512.0 + 608.0 * k + 16.0 * rng.randint(0, 6)) for k in range(nrec)]
        rpos = [np.round((spos[0] + r * np.array([np.cos(th), np.sin(th)])) / 8.0) * 8.0 for r in offs]
        rel = [rng.random() < 0.3 for _ in range(nrec)]
        ok = True
        for k in range(nrec):
            for q in range(nsrc):
                p = rpos[k] + (spos[q] - spos[0] if rel[k] else 0.0)
                if any(np.hypot(*(p - sp)) < 250.0 for sp in spos):
                    ok = False
        if ok:
            break
    srcs = []
    for q in range(nsrc):
        kind = rng.choice(['ed5', 'ed6', 'md5', 'ep', 'mp'])
        x, y, z = float(spos[q][0]), float(spos[q][1]), zc()
        az, el = rng.choice([0.0, 30.0, 90.0, -45.0]), rng.choice([0.0, 0.0, 20.0, 90.0])
        if kind == 'ed5':
            srcs.append(emg3d.TxElectricDipole((x, y, z, az, el), strength=rng.choice([1.0, 2.0])))
        elif kind == 'ed6':
            srcs.append(emg3d.TxElectricDipole((x - 32.0, x + 32.0, y, y + rng.choice([0.0, 32.0]), z, z + 8.0)))
        elif kind == 'md5':
            srcs.append(emg3d.TxMagneticDipole((x, y, z, az, el)))
        elif kind == 'ep':
            srcs.append(emg3d.TxElectricPoint((x, y, z, az, el)))
        else:
            srcs.append(emg3d.TxMagneticPoint((x, y, z, az, el)))
    recs = []
    c0 = srcs[0].center
    for k in range(nrec):
        cls = rng.choice([emg3d.RxElectricPoint, emg3d.RxElectricPoint, emg3d.RxMagneticPoint])
        az, el = rng.choice([0.0, 60.0, 90.0]), rng.choice([0.0, 0.0, 90.0])
        x, y, z = float(rpos[k][0]), float(rpos[k][1]), zc()
        if rel[k]:
            recs.append(cls((x - c0[0], y - c0[1], z - c0[2], az, el), relative=True))
        else:
            recs.append(cls((x, y, z, az, el)))
    nfreq = rng.choice([2, 3, 3])
    freqs = sorted(rng.sample([0.25, 0.5, 1.0, 2.0, 4.0], nfreq))
    survey = emg3d.Survey(srcs, recs, freqs, noise_floor=1e-15, relative_error=0.05)
    flags = mask_flags(name, nsrc, nrec, nfreq, rng)
    obs = np.zeros(survey.shape, complex)
    for i3 in itertools.product(*[range(m) for m in survey.shape]):
        obs[i3] = complex(K.dy(rng) or 1.0, K.dy(rng)) * 2.0 ** -36 if flags[i3] else np.nan
    survey.data.observed[...] = obs
    method = MASK_METHODS[(ki + seed) % len(MASK_METHODS)]
    lopts = {'method': method}
    if method in ('prism', 'cylinder'):
        lopts['ellipse'] = rand_ellipse(rng, hs)
    if (ki + seed) % 4 == 3:
        lopts['merge'] = True
    return dict(klass=name, ki=ki, seed=seed, hs=hs, org=org, grid=grid, model=model, mapping=mapping, case=case,
                survey=survey, flags=flags, lopts=lopts, offsets=offs, rng=rng)


def mask_brief(pb):
    sv, model = pb['survey'], pb['model']
    return dict(mask_class=pb['klass'], mask_class_index=pb['ki'], seed=pb['seed'], mapping=pb['mapping'],
                case=pb['case'], hx=pb['hs'][0], hy=pb['hs'][1], hz=pb['hs'][2], origin=pb['org'],
                profiles={nm: getattr(model, nm)[0, 0, :].tolist() for nm in model._def_properties},
                layered_opts=pb['lopts'],
                sources=[[k, s_.__class__.__name__, [float(x) for x in s_.coordinates]]
                         for k, s_ in sv.sources.items()],
                receivers_in_order=[[k, r.__class__.__name__, [float(x) for x in r.coordinates], bool(r.relative)]
                                    for k, r in sv.receivers.items()],
                receiver_offsets_from_first_source=pb['offsets'],
                frequencies=[float(f) for f in sv.frequencies.values()],
                observed_finite=[[sk, [[rk, [bool(b) for b in pb['flags'][si, ri]]]
                                       for ri, rk in enumerate(sv.receivers.keys())]]
                                 for si, sk in enumerate(sv.sources.keys())])


def mask_profile(pb):
    model, grid = pb['model'], pb['grid']
    bw = model.map.backward
    vti = model.case == 'VTI'
    return dict(ch=bw(model.property_x[0, 0, :]), cv=bw(model.property_z[0, 0, :]) if vti else None,
                ep=model.epsilon_r[0, 0, :] if model.epsilon_r is not None else None,
                mp=model.mu_r[0, 0, :] if model.mu_r is not None else None, depth=grid.nodes_z[1:-1])


def mask_reference(pb):
    """{(source label, receiver label): (reference at the SELECTED frequencies scattered on all
    frequencies, rounding noise)}: empymod of the known profile, evaluated per LABEL, at the
    receiver's absolute position for that source."""
    sv = pb['survey']
    pr = mask_profile(pb)
    freqs = np.array([float(f) for f in sv.frequencies.values()])
    has = bool(pb['flags'].any())
    out = {}
    for si, (sk, src) in enumerate(sv.sources.items()):
        for ri, (rk, rec) in enumerate(sv.receivers.items()):
            f = pb['flags'][si, ri] if has else np.ones(freqs.size, bool)
            ref = np.full(freqs.size, np.nan + 1j * np.nan)
            noise = np.zeros(freqs.size)
            if f.any():
                ref[f], noise[f] = bipole_noise(src, rec, pr['depth'], pr['ch'], pr['cv'], pr['ep'], pr['mp'], freqs[f])
            out[(sk, rk)] = (ref, noise)
    return out


def mask_run_impl(pb):
    """Simulation(layered=True).compute() on the problem; returns (sim, synthetic copy | exception)."""
    import emg3d
    with warnings.catch_warnings():
        warnings.simplefilter('ignore')
        try:
            sim = emg3d.Simulation(pb['survey'].copy(), pb['model'], layered=True, layered_opts=dict(pb['lopts']),
                                   max_workers=1, tqdm_opts=False, gridding='same', verb=-1)
            sim.compute()
            return sim, sim.data.synthetic.data.copy()
        except Exception as e:    # noqa
            return None, e


def close_ref(v, ref, noise):
    return bool(np.isfinite(v)) and (rel_close(v, ref, 1e-8) or abs(v - ref) <= 100 * noise)


def whose_response(v, refs):
    """Diagnostic: the (source, receiver, frequency index) whose reference the value equals."""
    for (sk, rk), (ref, noise) in refs.items():
        for fj in range(ref.size):
            if np.isfinite(ref[fj]) and close_ref(v, ref[fj], noise[fj]):
                return [sk, rk, fj]
    return None


def mask_layer_sums(pb, sim):
    """Layer sums of the raw layered FD gradient vs the misfit change under a uniform perturbation
    of the layer, over the receivers with finite data (theorem fd_gradient_layer_sum evaluated with
    empymod).  Returns None or a description of the first mismatch."""
    sv = pb['survey']
    pr = mask_profile(pb)
    srcs, recs = list(sv.sources.values()), list(sv.receivers.values())
    freqs = np.array([float(f) for f in sv.frequencies.values()])
    fin = pb['flags']
    obs = sv.data.observed.data
    with warnings.catch_warnings():
        warnings.simplefilter('ignore')
        try:
            phi0 = float(sim.misfit)
            raw = np.array(sim._compute_1d(gradient=True))
        except Exception as e:    # noqa
            return dict(error=repr(e))
    w_all = sim.data.weights.data
    for comp, cond in ((0, pr['ch']), (2, pr['cv'])):
        if cond is None:
            continue
        for k in range(len(cond)):
            cp = cond.copy()
            delta = cp[k] * 0.0001
            cp[k] += delta
            a, b = (cp, pr['cv']) if comp == 0 else (pr['ch'], cp)
            phi1 = 0.0
            for si, ri in itertools.product(range(len(srcs)), range(len(recs))):
                f = fin[si, ri, :]
                if not f.any():
                    continue
                r = np.atleast_1d(bipole_direct(srcs[si], recs[ri], pr['depth'], a, b, pr['ep'], pr['mp'],
                                                freqs[f])) - obs[si, ri, f]
                phi1 += np.sum(w_all[si, ri, f] * (r.conj() * r)).real / 2
            req = (phi1 - phi0) / delta
            got = raw[comp, :, :, k].sum()
            if not abs(got - req) <= 1e-6 * abs(req) + 1e-8 * phi0 / delta:      # NaN is a mismatch
                return dict(component='hv'[comp // 2], layer=k, observed_value=float(got), required=float(req))
    return None


def coq_strs(l):
    return '[' + '; '.join(V.coq_str(x) for x in l) + ']'


def mask_case_coq(pb):
    """compute_1d of Model/LayeredAsm.v on the survey's labels and the finite flags READ FROM the
    observed DataArray (under ITS coordinates); tokens = positions in alphabetically sorted label
    tables (not the dict order)."""
    sv = pb['survey']
    srcs, keys = list(sv.sources.keys()), list(sv.receivers.keys())
    da = sv.data.observed
    slab, rlab = [str(x) for x in da.coords['src'].values], [str(x) for x in da.coords['rec'].values]
    fin = np.isfinite(da.data)
    obs = '[' + ';\n '.join(
        f"({V.coq_str(sk)}, [" + '; '.join(
            f"({V.coq_str(rk)}, [" + '; '.join(V.coq_bool(bool(b)) for b in fin[si, ri]) + "])"
            for ri, rk in enumerate(rlab)) + "])" for si, sk in enumerate(slab)) + ']'
    pb['stab'], pb['rtab'] = sorted(srcs), sorted(keys)
    nf = fin.shape[2]
    fz = '[' + '; '.join(str(j) for j in range(nf)) + ']'
    return (f"Eval vm_compute in show_asm (compute_1d (Z * Z * Z) Z {fz} (tok3 {coq_strs(pb['stab'])} "
            f"{coq_strs(pb['rtab'])}) {coq_strs(srcs)} {coq_strs(keys)} {obs}).\n")


def run_masks(ctx, dis, hist):
    """(M): every mask class on the REAL Simulation(layered=True); every (src, rec, freq) slot is
    compared with what the Coq assembly model (compute_1d) says it holds -- NaN, or the reference
    response of a (source label, receiver label, frequency), evaluated by empymod per label."""
    nseeds = 3 if ctx.thorough else 1
    pbs = []
    for _ in range(nseeds):
        seed = ctx.rng.randint(0, 2 ** 30)
        pbs += [mask_problem(seed, ki) for ki in range(len(MASK_CLASSES))]
    txt = ASM_HEADER + ''.join(mask_case_coq(pb) for pb in pbs)
    rc, out = V.coq_eval('c19_m_0', txt)
    if rc != 0:
        dis.append({'what': 'assembly model (compute_1d) does not evaluate', 'log': out[-1500:]})
        return 0, 0
    answers = [parse_term(a) for a in V.eval_answers(out)]
    n, ok = 0, 0
    for pb, ans in zip(pbs, answers):
        sv = pb['survey']
        srcs, keys = list(sv.sources.keys()), list(sv.receivers.keys())
        hist['mask:' + pb['klass']] = hist.get('mask:' + pb['klass'], 0) + 1
        hist['mask-method:' + pb['lopts']['method']] = hist.get('mask-method:' + pb['lopts']['method'], 0) + 1
        sim, syn = mask_run_impl(pb)
        if isinstance(syn, Exception):
            dis.append({'what': 'Simulation(layered=True).compute raised (mask classes)', 'case': mask_brief(pb),
                        'impl': repr(syn)})
            continue
        if [str(x) for x in sim.data.synthetic.coords['rec'].values] != keys or \
                [str(x) for x in sim.data.synthetic.coords['src'].values] != srcs:
            dis.append({'what': 'synthetic data coordinates are not the survey labels in order',
                        'case': mask_brief(pb)})
            continue
        refs = mask_reference(pb)
        nd = len(dis)
        if [len(ans), len(ans[0]), len(ans[0][0])] != list(syn.shape):
            dis.append({'what': 'shape of the layered result differs from the assembly model', 'case': mask_brief(pb),
                        'impl': list(syn.shape), 'model': [len(ans), len(ans[0]), len(ans[0][0])]})
            continue
        for si, ri, fj in itertools.product(*[range(m) for m in syn.shape]):
            some, (ts, tr, tf) = ans[si][ri][fj]
            v = syn[si, ri, fj]
            n += 1
            trip = dict(index=[si, ri, fj], source=srcs[si], receiver=keys[ri])
            if not some:
                hist['mask-slot:nan'] = hist.get('mask-slot:nan', 0) + 1
                if not np.isnan(v):
                    dis.append({'what': 'layered mode filled a slot the assembly model leaves NaN (no finite '
                                'observed datum there)', 'case': mask_brief(pb), 'triple': trip, 'impl': str(v),
                                'model': 'NaN', 'impl_equals_reference_of': whose_response(v, refs)})
                    break
                continue
            hist['mask-slot:computed'] = hist.get('mask-slot:computed', 0) + 1
            sk, rk = pb['stab'][ts], pb['rtab'][tr]
            ref, noise = refs[(sk, rk)]
            if not close_ref(v, ref[tf], noise[tf]):
                dis.append({'what': 'slot of the layered result does not hold the reference response of the (source, '
                            'receiver label, frequency) the assembly model puts there', 'case': mask_brief(pb),
                            'triple': trip, 'impl': str(v),
                            'model': dict(response_of=[sk, rk, tf], value=str(ref[tf])),
                            'impl_equals_reference_of': None if not np.isfinite(v) else whose_response(v, refs)})
                break
        if len(dis) == nd and pb['klass'] in MASK_GRAD_CLASSES:
            bad = mask_layer_sums(pb, sim)
            n += 1
            hist['mask:gradient-layer-sums'] = hist.get('mask:gradient-layer-sums', 0) + 1
            if bad:
                dis.append({'what': 'layer sum of the layered FD gradient differs from the misfit change over the '
                            'receivers with finite data (fd_gradient_layer_sum)', 'case': mask_brief(pb), **bad})
        if len(dis) == nd:
            ok += 1
    return n, ok


def mask_search_case(seed, ki):
    """Searcher block 'mask' (independent of the Coq model): the property itself on mask class
    [ki] -- slot (s, r, f) must hold empymod of the profile for source s / receiver r (by label)
    / frequency f where the observed datum is finite (everywhere if there is none at all) and
    NaN elsewhere.  Returns None or a hit with the concrete survey + mask + mismatching triple."""
    pb = mask_problem(seed, ki)
    sv = pb['survey']
    srcs, keys = list(sv.sources.keys()), list(sv.receivers.keys())
    base = dict(mask_brief(pb), block='mask')
    sim, syn = mask_run_impl(pb)
    if isinstance(syn, Exception):
        return dict(base, signature='layered mode raised on a valid laterally invariant problem (mask classes)',
                    error=repr(syn))
    refs = mask_reference(pb)
    want = pb['flags'] if pb['flags'].any() else np.ones(pb['flags'].shape, bool)
    for si, ri, fj in itertools.product(*[range(m) for m in syn.shape]):
        v = syn[si, ri, fj]
        trip = dict(index=[si, ri, fj], source=srcs[si], receiver=keys[ri],
                    frequency=float(list(sv.frequencies.values())[fj]))
        ref, noise = refs[(srcs[si], keys[ri])]
        if not want[si, ri, fj]:
            if not np.isnan(v):
                return dict(base, signature='layered mode: a triple without finite observed data is filled',
                            triple=trip, observed_value=str(v), required='NaN',
                            observed_value_is_the_reference_of=whose_response(v, refs))
        elif not close_ref(v, ref[fj], noise[fj]):
            return dict(base, signature='layered mode: a triple with finite observed data does not hold the 1D '
                        'reference response of its own source / receiver / frequency', triple=trip,
                        observed_value=str(v), required=str(ref[fj]),
                        observed_value_is_the_reference_of=(None if not np.isfinite(v)
                                                            else whose_response(v, refs)))
    if pb['klass'] in MASK_GRAD_CLASSES:
        bad = mask_layer_sums(pb, sim)
        if bad:
            return dict(base, signature='layer sum of the layered FD gradient differs from the misfit change '
                        'under a uniform perturbation of the layer (receivers without data present)', **bad)
    return None


def correspondence(ctx):
    dis, hist = [], {}
    nx = 400 if ctx.thorough else 120
    ns = 72 if ctx.thorough else 24
    ngr = 20 if ctx.thorough else 6
    done, dx, xs = run_extract(ctx, nx, dis, hist)
    hdone, hx = run_extract_histories(ctx, 60 if ctx.thorough else 20, dis, hist)
    nsim, triples, ng, dsim, ss = run_sims(ctx, ns, ngr, dis, hist)
    mslots, mok = run_masks(ctx, dis, hist)
    done += hdone + mslots
    dx += hx + mok
    return {
        'evaluations': done + triples + ng,
        'distinct_nontrivial': dx + dsim,
        'rule': "(A) extract_1d: random stretched dyadic grid (1..5 x 1..5 x 1..4; thorough ..6x6x5), six maps, "
                "iso/HTI/VTI/triaxial, optional mu_r/epsilon_r, method midpoint/prism/cylinder with random "
                "ellipse (tiny radius -> empty mask -> fallback), points on nodes / centres / inside / outside, "
                "p1 omitted, merge; ~14% malformed (unknown method, missing radius). distinct = (branch taken, "
                "map, anisotropy, merge, shape). (B) Simulation(layered=True): 1-2 sources of five kinds, 1-4 "
                "receivers, 1-2 frequencies, five methods, observed none/full/gaps/all-NaN receiver/all-NaN "
                "source; every triple compared with one empymod.bipole call built from the model's descriptor. "
                "(C) gradient cases: model layered_grad with a table oracle of empymod responses vs "
                "_compute_1d(gradient=True) and Simulation.gradient. (H) two-step histories on ONE object: "
                "[extract_1d(sel), edit, extract_1d(sel), edit, extract_1d(sel)] and, for every other "
                "simulation, [compute(+misfit, gradient), edit(s), clean('computed'), compute(+misfit, "
                "gradient)]; edits = in-place writes through the property getters' arrays (layer / cell / "
                "block of property_x/y/z, mu_r, epsilon_r) or, as control, the setters; every answer is "
                "compared with the model evaluated on the arrays as they are at that moment. (M) result "
                "assembly: 18 enumerated classes of finite-observed-data masks (dataless receiver first / "
                "middle / last, two in a row, all but one, alternating, partial gaps, per-source different, "
                "dataless source, no observed data, full, eleven receivers, random) x five methods round-"
                "robin on laterally invariant models with receivers at distinct offsets (>= 500 m steps); "
                "every (src, rec, freq) slot vs Model/LayeredAsm.v compute_1d evaluated on the labels and "
                "finite flags of the survey, tokens resolved to empymod per (source label, receiver label, "
                "frequency); gradient layer sums for two of the classes.",
        'samples': xs + ss,
        'traces_validated_against_impl': done + nsim + ng,
        'histogram': hist,
        'disagreements': dis,
    }


# ------------------------------------------------------------------ searcher
def expand_layers(lay, nodes_z):
    """Value of the (possibly merged) 1D model in every cell of the original column."""
    zc = (nodes_z[:-1] + nodes_z[1:]) / 2
    ln = lay.grid.nodes_z
    idx = np.clip(np.searchsorted(ln, zc, side='right') - 1, 0, len(ln) - 2)
    return idx


def search_case(seed, thorough=False, skip=()):
    """Property checked directly on the implementation, laterally invariant model.
    Includes relative receivers, log-map profiles with stored value -1 on top,
    merge=True, and the gradient with merge=True.  Four blocks ('resp', 'extract',
    'grad', 'hist' = two-step histories on the same objects); a block named in [skip] does not report (used to look for further,
    independent failures once one block has failed)."""
    import random
    import emg3d
    rng = random.Random(seed)
    grid, hs, org = rand_grid(rng, (6, 6, 5) if thorough else (5, 5, 4), (2, 2, 3))
    mapping = rng.choice(MAPS)
    model, kw, mapping, case = rand_model(rng, grid, mapping=mapping, layered_ok=True, lateral_invariant=True)
    if mapping.startswith('L') and seed % 2 == 0:
        # top layer stores -1, for every property of the map
        for nm in ('property_x', 'property_z'):
            if getattr(model, nm) is not None:
                getattr(model, nm)[:, :, 0] = -1.0
    if (seed // 2) % 2 == 0:
        # two equal neighbouring layers (all properties): merge=True has something to merge
        k = rng.randint(1, model.shape[2] - 1)
        for nm in model._def_properties:
            getattr(model, nm)[:, :, k] = getattr(model, nm)[:, :, k - 1]
    recur = (seed // 8) % 2 == 0
    if recur:
        # the same values in two NON-adjacent layers (A B A, A B A B, A A B A, ...), every property
        # with its own values but the same pattern: merge=True may only combine adjacent layers
        pat = recurring_pattern(rng, model.shape[2])
        pat = (pat + pat)[:model.shape[2]]
        for nm in model._def_properties:
            getattr(model, nm)[:, :, :] = pattern_values(rng, pat, mapping, nm.startswith('property'))[None, None, :]
    if (seed // 4) % 2 == 0 and not recur:
        # extreme dynamic range: air on top (2e14 Ohm.m, 1e-14 S/m, ...), below it distinct, equal and
        # nearly equal neighbours; property_z = 2 x property_x (log maps + 0.5), mu_r / epsilon_r constant
        prof = np.array(extreme_profile(rng, model.shape[2], mapping, False))
        model.property_x[:, :, :] = prof[None, None, :]
        if model.property_z is not None:
            pz = prof + 0.5 if mapping.startswith('L') else prof * 2
            pz[-1] = prof[-1]
            model.property_z[:, :, :] = pz[None, None, :]
        for nm in ('mu_r', 'epsilon_r'):
            if getattr(model, nm) is not None:
                getattr(model, nm)[:, :, :] = getattr(model, nm)[0, 0, 0]
    vti = case == 'VTI'
    base = dict(seed=seed, mapping=mapping, case=case, hx=hs[0], hy=hs[1], hz=hs[2], origin=org,
                profile_x=model.property_x[0, 0, :].tolist())
    if recur:
        base['recurring_pattern'] = pat
    survey, pattern = rand_survey(rng, grid, hs, org, rng.randint(1, 2), rng.randint(1, 3), rng.randint(1, 2),
                                  with_data=True, force_relative=True)
    base['observed'] = pattern
    base['receivers'] = [[r.__class__.__name__, [float(x) for x in r.coordinates], bool(r.relative)]
                         for r in survey.receivers.values()]
    base['sources'] = [[s_.__class__.__name__, [float(x) for x in s_.coordinates]]
                       for s_ in survey.sources.values()]
    bw = model.map.backward
    ch = bw(model.property_x[0, 0, :])
    cv = bw(model.property_z[0, 0, :]) if vti else None
    ep = model.epsilon_r[0, 0, :] if model.epsilon_r is not None else None
    mp = model.mu_r[0, 0, :] if model.mu_r is not None else None
    depth = grid.nodes_z[1:-1]
    srcs, recs = list(survey.sources.values()), list(survey.receivers.values())
    freqs = [float(f) for f in survey.frequencies.values()]
    obs = survey.data.observed.data
    fin = np.isfinite(obs)
    ref = np.full(obs.shape, np.nan + 1j * np.nan)
    noise = np.zeros(obs.shape)
    for si, ri in itertools.product(range(len(srcs)), range(len(recs))):
        f = fin[si, ri, :]
        if f.any():
            # receiver at its ABSOLUTE position (source centre + offset when relative)
            ref[si, ri, f], noise[si, ri, f] = bipole_noise(srcs[si], recs[ri], depth, ch, cv, ep, mp,
                                                            np.array(freqs)[f])
    opts = [{'method': 'midpoint'}, {'method': 'source'}, {'method': 'receiver', 'merge': True},
            {'method': 'midpoint', 'merge': True}]
    for m in ('prism', 'cylinder'):
        for q in range(2):
            o = {'method': m, 'ellipse': rand_ellipse(rng, hs)}
            if q:
                o['merge'] = True
            opts.append(o)
    sims = []
    for lo in opts:
        with warnings.catch_warnings():
            warnings.simplefilter('ignore')
            sim = emg3d.Simulation(survey.copy(), model, layered=True, layered_opts=lo, max_workers=1,
                                   tqdm_opts=False, gridding='same', verb=-1)
            sim.compute()
        syn = sim.data.synthetic.data
        if 'resp' not in skip and not np.array_equal(np.isnan(syn), ~fin):
            return dict(base, block='resp', signature='layered mode: computed triples are not exactly those with finite '
                        'observed data', layered_opts=lo, observed_finite=fin.tolist(),
                        computed=(~np.isnan(syn)).tolist())
        bad = [k for k in zip(*np.nonzero(fin))
               if not (rel_close(syn[k], ref[k], 1e-8) or abs(syn[k] - ref[k]) <= 100 * noise[k])]
        if bad and 'resp' not in skip:
            k = tuple(int(x) for x in bad[0])
            return dict(base, block='resp', signature='layered response on a laterally invariant model differs from '
                        'empymod.bipole of its layers at the absolute receiver position', layered_opts=lo,
                        triple=k, receiver_relative=bool(recs[k[1]].relative), observed_value=str(syn[k]),
                        required=str(ref[k]))
        sims.append(sim)
    # weights and layers (merged layers expanded back onto the column)
    for q in (range(6) if 'extract' not in skip else ()):
        m = rng.choice(['midpoint', 'prism', 'cylinder'])
        e = rand_ellipse(rng, hs)
        mg = q % 2 == 1
        p0, p1 = rand_point(rng, grid, hs, org), rand_point(rng, grid, hs, org)
        lay, im = model.extract_1d(m, p0, p1, ellipse=e, merge=mg, return_imat=True)
        if im.min() < 0 or abs(im.sum() - 1) > 1e-12:
            return dict(base, block='extract', signature='extraction weights are not non-negative with sum one', method=m,
                        ellipse=e, p0=p0, p1=p1, min=float(im.min()), sum=float(im.sum()))
        ln = lay.grid.nodes_z
        if abs(ln[0] - grid.nodes_z[0]) > 1e-9 or abs(ln[-1] - grid.nodes_z[-1]) > 1e-9 or \
                any(np.min(np.abs(grid.nodes_z - z)) > 1e-9 for z in ln):
            return dict(base, block='extract', signature='interfaces of the extracted 1D model are not interfaces of the column '
                        'from top to bottom', method=m, merge=mg, p0=p0, p1=p1, observed_value=ln.tolist(),
                        required=grid.nodes_z.tolist())
        if mg:
            # documented criterion of merge: adjacent layers of IDENTICAL properties are combined --
            # exactly those (independent oracle: runs of exactly equal neighbours in the profile)
            cols = np.array([getattr(model, nm)[0, 0, :] for nm in model._def_properties])
            runs = 1 + int(np.sum(np.any(cols[:, 1:] != cols[:, :-1], axis=0)))
            if lay.shape[2] != runs:
                return dict(base, block='extract', signature='extract_1d(merge=True) does not merge exactly the '
                            'adjacent layers of identical properties', method=m, ellipse=e, p0=p0, p1=p1,
                            profiles={nm: getattr(model, nm)[0, 0, :].tolist() for nm in model._def_properties},
                            observed_value=dict(layers=int(lay.shape[2]),
                                                property_x=lay.property_x[0, 0, :].tolist()),
                            required=dict(layers=runs))
        idx = expand_layers(lay, grid.nodes_z)
        for nm in model._def_properties:
            got = getattr(lay, nm)[0, 0, :][idx]
            req = getattr(model, nm)[0, 0, :]
            if not all(rel_close(a, b, 1e-10, float(np.max(np.abs(req)))) for a, b in zip(got, req)):
                return dict(base, block='extract', signature='extracted layers of a laterally invariant model differ from its profile',
                            method=m, merge=mg, ellipse=e, p0=p0, p1=p1, prop=nm, observed_value=got.tolist(),
                            required=req.tolist())
    # gradient layer sums vs misfit change under a uniform perturbation of the layer:
    # one setting without and one with layered_opts merge=True
    if 'grad' in skip:
        return None
    nomerge = [k for k, lo in enumerate(opts) if not lo.get('merge')]
    merged = [k for k, lo in enumerate(opts) if lo.get('merge')]
    for sim in (sims[rng.choice(nomerge)], sims[rng.choice(merged)]):
        with warnings.catch_warnings():
            warnings.simplefilter('ignore')
            phi0 = float(sim.misfit)
            try:
                raw = np.array(sim._compute_1d(gradient=True))
            except Exception as e:    # noqa
                return dict(base, block='grad', signature='layered gradient raised on a valid problem',
                            layered_opts=dict(sim.layered_opts), error=repr(e))
        for comp, cond in ((0, ch), (2, cv)):
            if cond is None:
                continue
            for k in range(len(cond)):
                cp = cond.copy()
                delta = cp[k] * 0.0001
                cp[k] += delta
                a, b = (cp, cv) if comp == 0 else (ch, cp)
                phi1 = 0.0
                for si, ri in itertools.product(range(len(srcs)), range(len(recs))):
                    f = fin[si, ri, :]
                    if not f.any():
                        continue
                    r = np.atleast_1d(bipole_direct(srcs[si], recs[ri], depth, a, b, ep, mp,
                                                    np.array(freqs)[f])) - obs[si, ri, f]
                    w = sim.data.weights.data[si, ri, f]
                    phi1 += np.sum(w * (r.conj() * r)).real / 2
                req = (phi1 - phi0) / delta
                got = raw[comp, :, :, k].sum()
                tol = 1e-6 * abs(req) + 1e-8 * phi0 / delta
                if not abs(got - req) <= tol:          # a NaN layer sum is a mismatch too
                    return dict(base, block='grad', signature='layer sum of the layered FD gradient differs from the misfit '
                                'change under a uniform perturbation of the layer',
                                layered_opts=dict(sim.layered_opts), component='hv'[comp // 2], layer=k,
                                observed_value=float(got), required=float(req))
    return search_history(rng, base, model, mapping, vti, grid, hs, org, survey, sims, opts, skip)


def search_history(rng, base, model, mapping, vti, grid, hs, org, survey, sims, opts, skip):
    """Block 'hist': the SAME Model / Simulation objects after the model was edited.
    [extract_1d(sel); compute (done above)] -> in-place edit of two layers through the arrays the
    getters return (the model stays laterally invariant) -> [extract_1d(sel); clean('computed');
    compute; misfit] must describe the CURRENT layering; then the same with a setter update."""
    if 'hist' in skip:
        return None
    srcs, recs = list(survey.sources.values()), list(survey.receivers.values())
    freqs = [float(f) for f in survey.frequencies.values()]
    obs = survey.data.observed.data
    fin = np.isfinite(obs)
    sel = dict(method=rng.choice(['midpoint', 'prism', 'cylinder']), p0=rand_point(rng, grid, hs, org),
               p1=rand_point(rng, grid, hs, org), ellipse=rand_ellipse(rng, hs))
    model.extract_1d(**sel)                       # first request for this selection
    pal = PALETTE_LOG if mapping.startswith('L') else PALETTE_POS
    nz = model.shape[2]
    for step in ('view', 'setter'):
        edits = []
        for k in rng.sample(range(nz), min(2, nz)):
            for nm in (['property_x', 'property_z'] if vti else ['property_x']):
                arr = getattr(model, nm)
                v = rng.choice([x for x in pal if x != arr[0, 0, k]])
                if step == 'view':
                    arr[:, :, k] = v              # model.property_x[:, :, k] = v
                else:
                    new = np.array(arr)
                    new[:, :, k] = v
                    setattr(model, nm, new)       # model.property_x = new
                edits.append(dict(prop=nm, layer=k, value=v, how=step))
        b2 = dict(base, block='hist', history=['extract_1d(sel)', 'compute'] + edits
                  + ['extract_1d(sel)', "clean('computed')", 'compute', 'misfit'], selection=sel,
                  profile_x_now=model.property_x[0, 0, :].tolist())
        lay = model.extract_1d(**sel)
        for nm in (model._def_properties if 'hist_x' not in skip else ()):
            got, req = getattr(lay, nm)[0, 0, :], getattr(model, nm)[0, 0, :]
            if got.shape != req.shape or not all(
                    rel_close(a, b, 1e-10, float(np.max(np.abs(req)))) for a, b in zip(got, req)):
                return dict(b2, block='hist_x', signature='extract_1d after a model update returns layers that are not the '
                            "model's current profile (" + step + ' update)', prop=nm,
                            observed_value=got.tolist(), required=req.tolist())
        bw = model.map.backward
        ch = bw(model.property_x[0, 0, :])
        cv = bw(model.property_z[0, 0, :]) if vti else None
        ep = model.epsilon_r[0, 0, :] if model.epsilon_r is not None else None
        mp = model.mu_r[0, 0, :] if model.mu_r is not None else None
        depth = grid.nodes_z[1:-1]
        ref = np.full(obs.shape, np.nan + 1j * np.nan)
        noise = np.zeros(obs.shape)
        for si, ri in itertools.product(range(len(srcs)), range(len(recs))):
            f = fin[si, ri, :]
            if f.any():
                ref[si, ri, f], noise[si, ri, f] = bipole_noise(srcs[si], recs[ri], depth, ch, cv, ep, mp,
                                                                np.array(freqs)[f])
        for q in rng.sample(range(len(sims)), 3):
            sim = sims[q]
            with warnings.catch_warnings():
                warnings.simplefilter('ignore')
                sim.clean('computed')
                sim.compute()
                syn = sim.data.synthetic.data
                phi = float(sim.misfit)
            bad = [k for k in zip(*np.nonzero(fin))
                   if not (rel_close(syn[k], ref[k], 1e-8) or abs(syn[k] - ref[k]) <= 100 * noise[k])]
            if bad:
                k = tuple(int(x) for x in bad[0])
                return dict(b2, signature='layered response after a model update differs from empymod.bipole of '
                            'the current layering (' + step + ' update)', layered_opts=opts[q], triple=k,
                            observed_value=str(syn[k]), required=str(ref[k]))
            r = (ref - obs)[fin]
            w = sim.data.weights.data[fin]
            req = float(np.sum(w * (r.conj() * r)).real / 2)
            if not rel_close(phi, req, 1e-6):
                return dict(b2, signature='layered misfit after a model update is not the misfit of the current '
                            'layering (' + step + ' update)', layered_opts=opts[q], observed_value=phi,
                            required=req)
    return None


SEARCH_CLASS_BITS = [8, 0, 13, 10, 5, 9, 3, 14, 11, 6, 12, 1, 15, 2, 4, 7]


def search(ctx, broken):
    rng = ctx.rng
    n = 24 if ctx.thorough else 8
    hits, sigs = [], set()
    # block 'mask': every enumerated class of finite-observed-data masks (dataless receivers first /
    # middle / last / in a row / all but one, partial gaps, dataless source, no data, ...), receivers
    # at distinct offsets; oracle = empymod of the profile per (source, receiver LABEL, frequency)
    for mseed in [rng.randint(0, 2 ** 30) for _ in range(2 if ctx.thorough else 1)]:
        for ki in range(len(MASK_CLASSES)):
            try:
                h = mask_search_case(mseed, ki)
            except Exception as e:    # noqa -- a valid problem must not raise
                import traceback
                h = {'signature': 'layered mode raised on a valid laterally invariant problem (mask classes)',
                     'seed': mseed, 'mask_class_index': ki, 'error': repr(e),
                     'trace': traceback.format_exc()[-1200:]}
            if h and h['signature'] not in sigs:
                sigs.add(h['signature'])
                hits.append(h)
    for it in range(n):
        # the low four bits of the seed select the column class in search_case (top -1 / equal
        # neighbours / extreme range / recurring layers): enumerated, not drawn -- among any 8
        # consecutive searches 3 use extreme-range columns, 3 recurring layers, 2 neither
        seed = (rng.randint(0, 2 ** 36) << 4) | SEARCH_CLASS_BITS[it % 16]
        skip = set()
        for _ in range(5):        # after a failing block, look for independent failures in the others
            try:
                h = search_case(seed, ctx.thorough, tuple(sorted(skip)))
            except Exception as e:    # noqa -- a valid problem must not raise
                import traceback
                h = {'signature': 'layered mode raised on a valid laterally invariant problem', 'seed': seed,
                     'skip': sorted(skip), 'error': repr(e), 'trace': traceback.format_exc()[-1200:]}
            if not h:
                break
            h['skip'] = sorted(skip)
            if h['signature'] not in sigs:
                sigs.add(h['signature'])
                hits.append(h)
            if 'block' not in h:
                break
            skip.add(h['block'])
        if len(hits) >= 4:
            break
    ctx.notes.append(f"searcher: {len(MASK_CLASSES)} enumerated mask classes (block 'mask': slot-by-slot vs empymod per "
                     "receiver label, gradient layer sums for two classes); then "
                     f"up to {n} laterally invariant random problems (relative receivers, -1 on top of "
                     "log maps, merge) x 8 method/ellipse/merge settings; responses vs empymod of the profile at "
                     "the absolute receiver position, finite mask, weights, layers and interfaces (merged models "
                     "expanded), gradient layer sums with and without merge")
    return hits


def replay(ctx, payload):
    fi = payload.get('failing_input')
    if not fi or 'seed' not in fi:
        return False
    if fi.get('block') == 'mask' or 'mask_class_index' in fi:
        try:
            return mask_search_case(int(fi['seed']), int(fi['mask_class_index'])) is None
        except Exception:    # noqa
            return False
    try:
        return search_case(int(fi['seed']), payload.get('tier') == 'thorough',
                           tuple(fi.get('skip', ()))) is None
    except Exception:    # noqa
        return False


# ------------------------------------------------------------ known findings
def known_checks(ctx):
    """The three defects found while building C19 (merge sentinel -1, relative
    receivers, merge + gradient) are repaired in emg3d (docs/fix_C19_*.diff);
    their inputs are part of the correspondence stream and of the searcher, so
    a regression is an ordinary VIOLATION."""
    return []
